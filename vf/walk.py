"""Object-graph walker for agents: leaves, fingerprints, structural diff, alias sanitizer.

`parameters()`, `state_dict()` and `tensordict.from_module()` are blind to tensors that
`TensorDict.to_module` installed as plain attributes (DQN target networks, shared encoders), so the
module leaf walker visits `named_modules()` and collects `_parameters`, `_buffers` and tensor-valued
`__dict__` entries.
"""

from __future__ import annotations

import dataclasses
import hashlib
from collections import OrderedDict
from typing import Any, Dict, List, Tuple

import numpy as np
import torch
import torch.nn as nn

SKIP_ATTRS = {"accelerator", "_modules"}


def _is_space(v: Any) -> bool:
    try:
        import gymnasium

        return isinstance(v, gymnasium.spaces.Space)
    except Exception:
        return False


# ------------------------------------------------------------------ modules
def module_leaves(mod: nn.Module) -> Dict[str, torch.Tensor]:
    out: Dict[str, torch.Tensor] = {}
    for name, sub in mod.named_modules():
        pre = name + "." if name else ""
        for k, p in sub._parameters.items():
            if p is not None:
                out[pre + k] = p
        for k, b in sub._buffers.items():
            if b is not None:
                out[pre + k] = b
        for k, v in sub.__dict__.items():
            if isinstance(v, torch.Tensor) and k not in ("_parameters", "_buffers"):
                out[pre + k] = v
    return out


def param_names(mod: nn.Module) -> Dict[int, str]:
    """id(tensor) -> dotted name, over every leaf of the module."""
    return {id(t): n for n, t in module_leaves(mod).items()}


def _norm(x: Any, depth: int = 0) -> Any:
    """Normalise config-like values (init_dict entries) into comparable python data."""
    if depth > 8:
        return repr(x)
    if isinstance(x, (bool, int, float, str, type(None))):
        return x
    if isinstance(x, np.generic):
        return x.item()
    if isinstance(x, np.ndarray):
        return ("ndarray", x.shape, x.dtype.str, x.tobytes())
    if isinstance(x, torch.Tensor):
        return ("tensor", tuple(x.shape), str(x.dtype), x.detach().cpu().numpy().tobytes())
    if isinstance(x, dict):
        return {str(k): _norm(v, depth + 1) for k, v in x.items()}
    if isinstance(x, (list, tuple)):
        return [_norm(v, depth + 1) for v in x]
    if dataclasses.is_dataclass(x) and not isinstance(x, type):
        return {f.name: _norm(getattr(x, f.name), depth + 1) for f in dataclasses.fields(x)}
    if isinstance(x, torch.device):
        return str(x)
    if isinstance(x, type):
        return x.__name__
    try:
        import gymnasium

        if isinstance(x, gymnasium.spaces.Space):
            return repr(x)
    except Exception:
        pass
    return repr(x)


# ------------------------------------------------------------------ agents
class Leaves:
    """Flat description of an agent: path -> value, plus identities of mutable carriers."""

    def __init__(self) -> None:
        self.values: Dict[str, Any] = {}  # path -> tensor | ndarray | normalised python value
        self.mutable_ids: Dict[str, int] = {}  # path -> id() of python-level mutable container
        self.classes: Dict[str, str] = {}


def _is_module_list(v: Any) -> bool:
    return isinstance(v, list) and len(v) > 0 and all(isinstance(m, nn.Module) for m in v)


def _walk_value(path: str, v: Any, L: Leaves, depth: int = 0) -> None:
    if depth > 6:
        L.values[path] = repr(v)[:200]
        return
    if isinstance(v, torch.Tensor):
        L.values[path] = v
    elif isinstance(v, np.ndarray):
        L.values[path] = v
    elif isinstance(v, nn.Module):
        _walk_module(path, v, L)
    elif _is_module_list(v):
        L.mutable_ids[path] = id(v)
        L.values[path + "/len"] = len(v)
        for i, m in enumerate(v):
            _walk_module(f"{path}[{i}]", m, L)
    elif type(v).__name__ == "OptimizerWrapper":
        pass  # handled by _walk_optimizer (needs the agent for names)
    elif type(v).__name__ in ("TensorDict",) or hasattr(v, "keys") and hasattr(v, "batch_size"):
        try:
            for k in v.keys(True, True):
                name = k if isinstance(k, str) else ".".join(k)
                L.values[f"{path}/{name}"] = v[k]
        except Exception:
            L.values[path] = repr(v)[:200]
    elif type(v).__name__ == "MutationRegistry":
        _walk_registry(path, v, L)
    elif isinstance(v, list):
        L.mutable_ids[path] = id(v)
        L.values[path + "/len"] = len(v)
        for i, e in enumerate(v[:256]):
            _walk_value(f"{path}[{i}]", e, L, depth + 1)
    elif isinstance(v, dict):
        L.mutable_ids[path] = id(v)
        L.values[path + "/keys"] = sorted(str(k) for k in v.keys())
        for k, e in list(v.items())[:256]:
            _walk_value(f"{path}[{k!r}]", e, L, depth + 1)
    elif isinstance(v, tuple):
        for i, e in enumerate(v[:256]):
            _walk_value(f"{path}({i})", e, L, depth + 1)
    elif callable(v) and not isinstance(v, type):
        return
    elif _is_space(v) or isinstance(v, (type, torch.device, torch.dtype)):
        L.values[path] = _norm(v)
    elif isinstance(v, OrderedDict):
        L.mutable_ids[path] = id(v)
        for k, e in list(v.items())[:256]:
            _walk_value(f"{path}[{k!r}]", e, L, depth + 1)
    elif hasattr(v, "__dict__") and not isinstance(v, (np.generic,)) and type(v).__module__.startswith("agilerl"):
        # plain library objects (RunningMeanStd, ...): walk their attributes
        L.mutable_ids[path] = id(v)
        L.classes[path] = type(v).__name__
        for k, e in vars(v).items():
            _walk_value(f"{path}.{k}", e, L, depth + 1)
    else:
        L.values[path] = _norm(v)


def _walk_module(path: str, m: nn.Module, L: Leaves) -> None:
    L.classes[path] = type(m).__name__
    try:
        L.values[path + "/init_dict"] = _norm(m.init_dict)
    except Exception:
        pass
    for n, t in module_leaves(m).items():
        L.values[f"{path}/{n}"] = t


def _walk_registry(path: str, reg: Any, L: Leaves) -> None:
    L.mutable_ids[path] = id(reg)
    L.values[path + "/groups"] = _norm([(g.eval, g.shared, g.policy, g.multiagent) for g in reg.groups])
    L.values[path + "/optimizers"] = _norm(
        [(o.name, o.networks, o.lr, o.optimizer_cls, o.optimizer_kwargs, o.multiagent) for o in reg.optimizers]
    )
    L.values[path + "/hooks"] = _norm(list(reg.hooks))
    L.mutable_ids[path + "/groups"] = id(reg.groups)
    L.mutable_ids[path + "/optimizers"] = id(reg.optimizers)
    L.mutable_ids[path + "/hooks"] = id(reg.hooks)
    hp = reg.hp_config
    if hp is not None:
        L.mutable_ids[path + "/hp_config"] = id(hp)
        L.mutable_ids[path + "/hp_config.config"] = id(hp.config)
        for name, par in hp.config.items():
            L.mutable_ids[f"{path}/hp_config[{name}]"] = id(par)
            L.values[f"{path}/hp_config[{name}]"] = _norm(
                (par.min, par.max, par.shrink_factor, par.grow_factor, par.dtype.__name__)
            )
            # RLParameter.value is a cache written by mutate(); it is reported separately
            L.values[f"{path}/hp_config[{name}].value(cache)"] = _norm(par.value)


def _networks_of(agent: Any, names: List[str], multiagent: bool) -> List[Tuple[str, nn.Module]]:
    out = []
    for n in names:
        v = getattr(agent, n, None)
        if isinstance(v, nn.Module):
            out.append((n, v))
        elif isinstance(v, list):
            for i, m in enumerate(v):
                if isinstance(m, nn.Module):
                    out.append((f"{n}[{i}]", m))
    return out


def _walk_optimizer(path: str, agent: Any, ow: Any, L: Leaves) -> None:
    L.values[path + "/cls"] = getattr(ow.optimizer_cls, "__name__", str(ow.optimizer_cls))
    L.values[path + "/lr_attr"] = _norm(ow.lr)
    L.values[path + "/lr_name"] = ow.lr_name
    L.values[path + "/network_names"] = _norm(ow.network_names)
    L.values[path + "/kwargs"] = _norm(ow.optimizer_kwargs)
    opts = ow.optimizer if isinstance(ow.optimizer, list) else [ow.optimizer]
    # name parameters by their position in the registered networks
    id2name: Dict[int, str] = {}
    for nm, net in _networks_of(agent, list(ow.network_names), ow.multiagent):
        for pn, t in module_leaves(net).items():
            id2name.setdefault(id(t), f"{nm}.{pn}")
    for oi, opt in enumerate(opts):
        op = f"{path}/opt[{oi}]"
        L.classes[op] = type(opt).__name__
        for gi, g in enumerate(opt.param_groups):
            L.values[f"{op}/group[{gi}]/hyper"] = _norm({k: v for k, v in g.items() if k != "params"})
            L.values[f"{op}/group[{gi}]/param_names"] = [id2name.get(id(p), f"<unregistered:{tuple(p.shape)}>") for p in g["params"]]
        for p, st in opt.state.items():
            nm = id2name.get(id(p), f"<unregistered:{tuple(p.shape)}>")
            for k, v in st.items():
                L.values[f"{op}/state[{nm}]/{k}"] = v if isinstance(v, torch.Tensor) else _norm(v)


def agent_leaves(agent: Any) -> Leaves:
    L = Leaves()
    inner = agent
    prefix = ""
    if hasattr(agent, "agent") and hasattr(agent.agent, "registry") and not hasattr(type(agent), "registry"):
        # AgentWrapper: walk wrapper attributes, then the wrapped agent
        for k, v in vars(agent).items():
            if k == "agent" or k in SKIP_ATTRS:
                continue
            _walk_value(f"wrapper.{k}", v, L)
        inner = agent.agent
        prefix = ""
    for k, v in vars(inner).items():
        if k in SKIP_ATTRS:
            continue
        if type(v).__name__ == "OptimizerWrapper":
            _walk_optimizer(prefix + k, inner, v, L)
        else:
            _walk_value(prefix + k, v, L)
    return L


# ------------------------------------------------------------------ comparisons
def _bytes_of(v: Any) -> bytes:
    if isinstance(v, torch.Tensor):
        return str(v.dtype).encode() + str(tuple(v.shape)).encode() + v.detach().cpu().contiguous().numpy().tobytes()
    if isinstance(v, np.ndarray):
        return v.dtype.str.encode() + str(v.shape).encode() + np.ascontiguousarray(v).tobytes()
    return repr(v).encode()


def fingerprint(L: Leaves, exclude: Tuple[str, ...] = ()) -> str:
    h = hashlib.sha256()
    for p in sorted(L.values):
        if any(e in p for e in exclude):
            continue
        h.update(p.encode())
        h.update(_bytes_of(L.values[p]))
    return h.hexdigest()


def fingerprint_map(L: Leaves) -> Dict[str, str]:
    return {p: hashlib.sha256(_bytes_of(v)).hexdigest()[:16] for p, v in L.values.items()}


def same(a: Any, b: Any) -> bool:
    if isinstance(a, torch.Tensor) and isinstance(b, torch.Tensor):
        return a.shape == b.shape and a.dtype == b.dtype and torch.equal(a.detach(), b.detach())
    if isinstance(a, np.ndarray) and isinstance(b, np.ndarray):
        return a.shape == b.shape and a.dtype == b.dtype and np.array_equal(a, b, equal_nan=True)
    if isinstance(a, (torch.Tensor, np.ndarray)) or isinstance(b, (torch.Tensor, np.ndarray)):
        return False
    if isinstance(a, float) and isinstance(b, float) and a != a and b != b:
        return True
    return a == b


def diff(A: Leaves, B: Leaves, ignore: Tuple[str, ...] = ()) -> List[Dict[str, Any]]:
    out = []
    keys = sorted(set(A.values) | set(B.values))
    for p in keys:
        if any(e in p for e in ignore):
            continue
        if p not in A.values:
            out.append({"path": p, "what": "only_in_second"})
        elif p not in B.values:
            out.append({"path": p, "what": "only_in_first"})
        elif not same(A.values[p], B.values[p]):
            d = {"path": p, "what": "differs"}
            a, b = A.values[p], B.values[p]
            if isinstance(a, torch.Tensor) and isinstance(b, torch.Tensor) and a.shape == b.shape and a.numel() > 0:
                try:
                    d["max_abs_diff"] = float((a.detach().double() - b.detach().double()).abs().max())
                except Exception:
                    pass
            elif not isinstance(a, (torch.Tensor, np.ndarray)):
                d["first"] = repr(a)[:120]
                d["second"] = repr(b)[:120]
            out.append(d)
    return out


def _tensor_range(t: torch.Tensor):
    if t.numel() == 0:
        return None
    try:
        st = t.untyped_storage()
        base = st.data_ptr()
        if base == 0:
            return None
        lo = base + t.storage_offset() * t.element_size()
        # conservative extent: whole span addressed by this view
        span = 1
        for s, st_ in zip(t.shape, t.stride()):
            span += (s - 1) * abs(st_)
        return (lo, lo + span * t.element_size())
    except Exception:
        return None


def _array_range(a: np.ndarray):
    if a.size == 0:
        return None
    lo, hi = np.lib.array_utils.byte_bounds(a) if hasattr(np.lib, "array_utils") else np.byte_bounds(a)
    return (lo, hi)


def aliases(A: Leaves, B: Leaves) -> List[Dict[str, Any]]:
    """Mutable leaves of A and B that share memory / identity."""
    out = []
    ra = []
    for p, v in A.values.items():
        r = _tensor_range(v) if isinstance(v, torch.Tensor) else _array_range(v) if isinstance(v, np.ndarray) else None
        if r:
            ra.append((r[0], r[1], p))
    rb = []
    for p, v in B.values.items():
        r = _tensor_range(v) if isinstance(v, torch.Tensor) else _array_range(v) if isinstance(v, np.ndarray) else None
        if r:
            rb.append((r[0], r[1], p))
    rb.sort()
    los = [r[0] for r in rb]
    import bisect

    maxlen = max((r[1] - r[0] for r in rb), default=0)
    for lo, hi, p in ra:
        # candidates: ranges starting before hi and (conservatively) not ending before lo
        k = bisect.bisect_left(los, lo - maxlen)
        while k < len(rb) and rb[k][0] < hi:
            if rb[k][1] > lo:
                out.append({"kind": "shared_memory", "first": p, "second": rb[k][2]})
            k += 1
    ids_b = {}
    for p, i in B.mutable_ids.items():
        ids_b.setdefault(i, p)
    for p, i in A.mutable_ids.items():
        if i in ids_b:
            out.append({"kind": "same_object", "first": p, "second": ids_b[i]})
    return out


# categories named by C01's statement: weights, optimizer moments, step counters,
# hyperparameter ranges, score lists
def alias_category(path: str) -> str:
    if "/state[" in path:
        return "optimizer_state"
    if "hp_config" in path or path.endswith("registry") or "registry/" in path:
        return "hyperparameter_ranges_or_registry"
    root = path.split("/")[0].split("[")[0]
    if root in ("scores", "fitness", "steps"):
        return "score_or_step_lists"
    if "/init_dict" in path:
        return "other"
    if "/" in path:
        return "network_weights"
    return "other"
