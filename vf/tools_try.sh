#!/bin/sh
# vf/tools_try.sh <seeded-name|path/to/patch.diff> <PROP> [PROP...]   -- run quick checks against a scratch copy with the patch applied
# env: TIER=thorough, KEEP=1 (keep the scratch copy), VERIF_SEED
set -e
name="$1"; shift
VERIF="$(cd "$(dirname "$0")/.." && pwd)"
if [ -f "$name" ]; then patch="$name"; tag=$(basename $(dirname "$name")); else patch="$VERIF/seeded/$name/patch.diff"; tag="$name"; fi
scr="/tmp/scr_try_$(echo $tag | tr '-' '_')_$$"
rm -rf "$scr"; mkdir -p "$scr"
(cd /repo && git ls-files -z | rsync -a --from0 --files-from=- /repo/ "$scr"/)
(cd / && git apply --unsafe-paths --directory "$scr" "$patch") || patch -p1 -d "$scr" -i "$patch" --fuzz=3 -s
for p in "$@"; do
  echo "### $tag vs $p"
  AGILERL_SRC="$scr" "$VERIF/check" "$p" --tier "${TIER:-quick}" 2>&1 | grep -E "^\[$p\] tier|witness:|VIOLATION|INCONCLUSIVE|KNOWN" | cut -c1-400 | head -${LINES_MAX:-8} || true
done
[ -n "$KEEP" ] && echo "kept $scr" || rm -rf "$scr"
