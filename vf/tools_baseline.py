"""Run (part of) the repository's test-suite and compare with the pinned stable_pass list.

    /venv/bin/python vf/tools_baseline.py [-n 14] [pytest paths ...]

Prints every test of BASELINE.stable_pass (restricted to the selected files) that did not pass.
Exit 0 iff none.  Hooks are off by construction: nothing in /repo reads AGILERL_VERIF unless a
hook commit is listed in MANIFEST.hooks.source_commits.
"""

import json
import os
import subprocess
import sys
import tempfile
import xml.etree.ElementTree as ET


def main():
    args = sys.argv[1:]
    n = "14"
    if args and args[0] == "-n":
        n = args[1]
        args = args[2:]
    paths = args or ["tests"]
    base = json.load(open("/root/.vp/BASELINE.json"))
    stable = set(base["stable_pass"])
    with tempfile.TemporaryDirectory() as td:
        xml = os.path.join(td, "r.xml")
        env = dict(os.environ)
        env.pop("AGILERL_VERIF", None)
        cmd = [
            "/venv/bin/python", "-m", "pytest", "-q", "-p", "no:cacheprovider", "--timeout=900",
            "--continue-on-collection-errors", f"--junitxml={xml}", "-n", n,
        ] + paths
        p = subprocess.run(cmd, cwd="/repo", env=env, stdout=subprocess.PIPE, stderr=subprocess.STDOUT, text=True)
        print(p.stdout.strip().splitlines()[-1] if p.stdout.strip() else "(no output)")
        passed, failed = set(), set()
        for tc in ET.parse(xml).getroot().iter("testcase"):
            tid = (tc.get("classname") or "") + "::" + (tc.get("name") or "")
            if tc.find("failure") is not None or tc.find("error") is not None:
                failed.add(tid)
            elif tc.find("skipped") is None:
                passed.add(tid)
        passed -= failed
    mods = set()
    for pth in paths:
        pth = pth.rstrip("/")
        mods.add(pth.replace("/", ".").replace(".py", ""))
    sel = {t for t in stable if any(t.startswith(m + ".") or t.startswith(m + "::") or t.split("::")[0] == m for m in mods)} if args else stable
    missing = sorted(t for t in sel if t not in passed)
    print(f"stable_pass selected={len(sel)} passed_of_those={len(sel) - len(missing)} newly_passing={len(passed - stable)}")
    for t in missing[:50]:
        print("  NOT PASSING:", t, "(failed)" if t in failed else "(not run)")
    return 1 if missing else 0


if __name__ == "__main__":
    sys.exit(main())
