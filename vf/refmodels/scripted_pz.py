"""Scripted deterministic PettingZoo ParallelEnv (reference model + workload of C12).

Everything an instance returns is a pure function of

    (base seed, env id, agent index, episode number, t, action received by that agent at this step)

and every observation leaf *embeds* those numbers:

    cell 0..6 : seed code, env id, agent index, episode % 251, t % 251, action code, leaf index
    cell 7    : checksum over cells 0..6
    cell 8..  : position dependent filler derived from the checksum

All cells are integers in [0, 250] so that they are exact in uint8 / int64 / float32 / float64.
A slot that shows another environment, another agent, an older step, or a mixture of two writes
is therefore identified exactly by `decode_leaf`.

The class is module level so it can be pickled / forked into vector-env workers.  Instances that
act as the *reference* are built with cfg["sleep"] = False and are stepped sequentially.
"""

from __future__ import annotations

import time
from typing import Any, Dict, Optional

import numpy as np
from gymnasium import spaces
from pettingzoo import ParallelEnv

P = 251
HEAD = 8
NAMES = ["agent_0", "agent_1", "other_0", "other_1"]
NP_DTYPES = {"float32": np.float32, "float64": np.float64, "uint8": np.uint8, "int64": np.int64}
BOX_W = (1.0, 3.0, 7.0)


def mix(*xs: int) -> int:
    h = 17
    for x in xs:
        h = (h * 131 + int(x) + 7) % 65521
    return h


def encode_leaf(fields, leaf_idx: int, shape, dtype) -> np.ndarray:
    n = int(np.prod(shape))
    head = [int(f) for f in fields] + [int(leaf_idx)]
    ck = mix(*head) % P
    cells = head + [ck] + [mix(ck, j, head[1], head[2]) % P for j in range(n - HEAD)]
    return np.asarray(cells, dtype=np.int64).astype(dtype).reshape(shape)


def decode_leaf(arr) -> Dict[str, Any]:
    """Best-effort decoding of a leaf (never raises)."""
    try:
        flat = np.asarray(arr).reshape(-1)
        vals = [float(x) for x in flat]
        if len(vals) < HEAD or any(v != int(v) for v in vals):
            return {"intact": False, "raw_head": vals[:HEAD]}
        ints = [int(v) for v in vals]
        head = ints[:7]
        ck = mix(*head) % P
        ok = ints[7] == ck and all(ints[HEAD + j] == mix(ck, j, head[1], head[2]) % P for j in range(len(ints) - HEAD))
        return {
            "intact": bool(ok),
            "seed": head[0],
            "env": head[1],
            "agent": head[2],
            "ep": head[3],
            "t": head[4],
            "act": head[5],
            "leaf": head[6],
        }
    except Exception as e:  # pragma: no cover
        return {"intact": False, "error": repr(e)[:80]}


def first_leaf(obs):
    if isinstance(obs, dict):
        return obs[sorted(obs)[0]]
    if isinstance(obs, (tuple, list)):
        return obs[0]
    return obs


def leaf_shapes(agent_idx: int, hetero: bool):
    k = agent_idx if hetero else 0
    return (9 + k,), (2 + (k % 2), 3, 4)


def build_obs_space(cfg, agent_idx: int) -> spaces.Space:
    dt = NP_DTYPES[cfg["dtype"]]
    dt2 = np.uint8 if cfg["dtype"] != "uint8" else np.float32
    vec, img = leaf_shapes(agent_idx, bool(cfg.get("hetero")))

    def box(shape, d):
        return spaces.Box(low=0, high=255, shape=shape, dtype=d)

    kind = cfg["obs"]
    if kind == "vector":
        return box(vec, dt)
    if kind == "image":
        return box(img, dt)
    if kind == "dict":
        return spaces.Dict({"vec": box(vec, dt), "img": box(img, dt2)})
    if kind == "tuple":
        return spaces.Tuple((box(img, dt), box(vec, dt2)))
    raise ValueError(kind)


def build_act_space(cfg) -> spaces.Space:
    a = cfg["act"]
    if a == "discrete":
        return spaces.Discrete(5)
    d = {"box1": 1, "box2": 2, "box3": 3}[a]
    return spaces.Box(low=-1.0, high=1.0, shape=(d,), dtype=np.float32)


def action_code(cfg, action) -> int:
    """Shape-agnostic code of an action (a worker may hand over a squeezed array)."""
    if action is None:
        return 0
    flat = np.asarray(action, dtype=np.float64).reshape(-1)
    if cfg["act"] == "discrete":
        return (int(flat[0]) + 1) % P
    s = 0.0
    for j, v in enumerate(flat[:3]):
        s += BOX_W[j] * float(v)
    return int(np.rint(s * 8.0)) % P


def make_env(cfg, env_id: int) -> "ScriptedParallelEnv":
    return ScriptedParallelEnv(cfg, env_id)


class ScriptedParallelEnv(ParallelEnv):
    metadata = {"render_modes": [], "name": "scripted_pz_v0"}

    def __init__(self, cfg: Dict[str, Any], env_id: int):
        self.cfg = cfg
        self.env_id = int(env_id)
        self.render_mode = None
        self.possible_agents = NAMES[: int(cfg["n_agents"])]
        self.agents = []
        self.seed_code = int(cfg["base_seed"]) % P
        self.ep_len = int(cfg["ep_lens"][self.env_id])
        self._obs_spaces = {a: build_obs_space(cfg, i) for i, a in enumerate(self.possible_agents)}
        self._act_spaces = {a: build_act_space(cfg) for a in self.possible_agents}
        # leave times that are effective in this sub-environment
        self.leave = {}
        for k, lt in (cfg.get("leave") or {}).items():
            if int(lt) < self.ep_len and int(k) < len(self.possible_agents) - 1:
                self.leave[int(k)] = int(lt)
        self.leave_mode = cfg.get("leave_mode", "absent")
        self.episode = -1
        self.t = 0
        self.nsteps = 0
        self.nresets = 0
        # cfg["rng_salt"]: an environment with its own random stream. reset(seed=s) re-seeds it, every reset (seeded or
        # not) draws the episode's "salt" from it; the salt enters the rewards. An independent environment that was seeded
        # once goes on in its stream at every later (un-seeded) reset.
        self._rng = np.random.default_rng(1000003 * int(self.seed_code) + int(self.env_id))
        self.salt = 0

    # ------------------------------------------------------------ spaces
    def observation_space(self, agent):
        return self._obs_spaces[agent]

    def action_space(self, agent):
        return self._act_spaces[agent]

    def close(self):
        pass

    def render(self):
        return None

    # ------------------------------------------------------------ pure functions of the state
    def _present(self, ai: int, t: int) -> bool:
        """Is agent `ai` part of the dictionaries returned by the step that leads to time t?"""
        lt = self.leave.get(ai)
        if lt is None or self.leave_mode == "stay":
            return True
        return min(t, self.ep_len) <= lt

    def _alive_after(self, ai: int, t: int) -> bool:
        lt = self.leave.get(ai)
        if t >= self.ep_len:
            return False
        return lt is None or t < lt

    def _flags(self, ai: int, t: int):
        term = trunc = False
        lt = self.leave.get(ai)
        if lt is not None and t >= lt:
            term = True
        if t >= self.ep_len:
            mode = self.cfg["end"]
            if mode == "term":
                term = True
            elif mode == "trunc":
                trunc = not term
            else:  # mixed: alternates over agents and episodes
                if (ai + self.episode) % 2 == 0:
                    term = True
                else:
                    trunc = not term
        return term, trunc

    def _obs(self, ai: int, act: int):
        o = self._obs_c(ai, act)
        if self.cfg.get("layout", "c") != "fortran":
            return o

        def f(x):
            return np.asfortranarray(x) if x.ndim >= 2 else x[::-1][::-1]

        if isinstance(o, dict):
            return {k: f(v) for k, v in o.items()}
        if isinstance(o, tuple):
            return tuple(f(v) for v in o)
        return f(o)

    def _obs_c(self, ai: int, act: int):
        fields = (self.seed_code, self.env_id, ai, self.episode % P, self.t % P, act)
        dt = NP_DTYPES[self.cfg["dtype"]]
        dt2 = np.uint8 if self.cfg["dtype"] != "uint8" else np.float32
        vec, img = leaf_shapes(ai, bool(self.cfg.get("hetero")))
        kind = self.cfg["obs"]
        if kind == "vector":
            return encode_leaf(fields, 0, vec, dt)
        if kind == "image":
            return encode_leaf(fields, 0, img, dt)
        if kind == "dict":
            # insertion order deliberately differs from the (sorted) order of spaces.Dict
            return {"vec": encode_leaf(fields, 1, vec, dt), "img": encode_leaf(fields, 0, img, dt2)}
        return (encode_leaf(fields, 0, img, dt), encode_leaf(fields, 1, vec, dt2))

    def _reward(self, ai: int, act: int):
        r = ((self.seed_code * 7 + self.env_id * 31 + ai * 17 + self.episode * 13 + self.t * 3 + act + 41 * self.salt) % 1000) / 8.0
        if ai == 1:
            return np.float32(r)
        return float(r)

    def _info(self, ai: int, act: int, final: bool):
        if ai == 2 and self.t % 2 == 1:
            return {}
        inf = {
            "stamp": time.monotonic_ns(),
            "t": int(self.t),
            "ep": int(self.episode),
            "code": np.int64(mix(self.env_id, ai, self.episode, self.t, act)),
            "half": float(self.t) / 2.0 + self.env_id,
            "flag": bool((self.t + ai) % 2),
            "vec": np.asarray([self.env_id, ai, self.t], dtype=np.float32),
            "nest": {"x": int(self.env_id * 10 + ai), "y": np.asarray([self.t, act], dtype=np.int64)},
            "tag": f"e{self.env_id}a{ai}p{self.episode}t{self.t}",
        }
        if self.t % 2 == 1:
            inf["odd"] = True
        if final:
            inf["final"] = {"ep_len": int(self.t)}
        return inf

    def _order(self, names, which: int):
        if not self.cfg.get("shuffle_keys"):
            return list(names)
        names = list(names)
        if which in (1, 3):
            return names[::-1]
        if which == 4 and len(names) > 1:
            return names[1:] + names[:1]
        return names

    # ------------------------------------------------------------ API
    def reset(self, seed: Optional[int] = None, options: Optional[dict] = None):
        self.episode += 1
        self.nresets += 1
        self.t = 0
        if self.cfg.get("rng_salt"):
            if seed is not None:
                self._rng = np.random.default_rng(int(seed))
            self.salt = int(self._rng.integers(0, 97))
        self.agents = self.possible_agents[:]
        obs = {a: self._obs(i, 0) for i, a in enumerate(self.possible_agents)}
        infos = {}
        for a in self._order(self.possible_agents, 4):
            infos[a] = {
                "stamp": time.monotonic_ns(),
                "t": 0,
                "ep": int(self.episode),
                "reset": True,
                "seed_in": -1 if seed is None else int(seed),
            }
        return obs, infos

    def step(self, actions):
        self.nsteps += 1
        if self.cfg.get("sleep"):
            time.sleep((mix(self.seed_code, self.env_id, self.nsteps) % 13) / 4000.0)
        self.t += 1
        t = self.t
        final = t >= self.ep_len
        present = [a for i, a in enumerate(self.possible_agents) if self._present(i, t)]
        codes = {}
        shapes = {}
        for a in present:
            act = actions.get(a) if hasattr(actions, "get") else None
            codes[a] = action_code(self.cfg, act)
            shapes[a] = list(np.shape(act)) if act is not None else None
        idx = {a: i for i, a in enumerate(self.possible_agents)}
        obs = {a: self._obs(idx[a], codes[a]) for a in self._order(present, 0)}
        rew = {a: self._reward(idx[a], codes[a]) for a in self._order(present, 1)}
        term, trunc = {}, {}
        for a in self._order(present, 2):
            te, _ = self._flags(idx[a], t)
            term[a] = bool(te) if idx[a] == 0 else np.bool_(te)
        for a in self._order(present, 3):
            _, tr = self._flags(idx[a], t)
            trunc[a] = bool(tr) if idx[a] == 0 else np.bool_(tr)
        infos = {}
        for a in self._order(present, 4):
            inf = self._info(idx[a], codes[a], final)
            if inf:
                inf["act_shape"] = shapes[a]
            infos[a] = inf
        self.agents = [a for i, a in enumerate(self.possible_agents) if self._alive_after(i, t)]
        return obs, rew, term, trunc, infos

    # ------------------------------------------------------------ probes used by the monitor
    def probe_state(self):
        return (int(self.episode), int(self.t), int(self.nsteps), int(self.nresets))

    def force_state(self, episode: int, t: int):
        """Re-synchronise a reference copy with an observed state (after a reported divergence)."""
        self.episode = int(episode)
        self.t = int(t)
        self.agents = [a for i, a in enumerate(self.possible_agents) if self._alive_after(i, self.t)]
