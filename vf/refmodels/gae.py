"""Reference model of generalised advantage estimation, written from the *statement* of C17
(not from the code):

    delta_t = r_t + gamma * V_{t+1} * (1 - d_{t+1}) - V_t
    A_t     = delta_t + gamma * lambda * (1 - d_{t+1}) * A_{t+1}          (A_T = 0)
    R_t     = A_t + V_t
    V_T     = critic value of the final next observation

float64, one column (= one environment of one agent) at a time, plain Python loop over time.

`flags[t]` is d_{t+1}: the flag that says "the step after t starts a new episode", i.e. for a rollout
recorded by the training loops (done flags stored one step late) `flags[t] = dones[t + 1]` for
t < T - 1 and `flags[T - 1] = next_done`.
"""

from __future__ import annotations

from typing import Tuple

import numpy as np


def gae_column(rewards, values, flags, next_value, gamma: float, lam: float) -> Tuple[np.ndarray, np.ndarray, np.ndarray]:
    """-> (advantages, returns, scale); scale[t] bounds the magnitude of the terms summed into A_t
    (used to size a float32 tolerance, not part of the definition)."""
    r = np.asarray(rewards, dtype=np.float64).reshape(-1)
    v = np.asarray(values, dtype=np.float64).reshape(-1)
    d = np.asarray(flags, dtype=np.float64).reshape(-1)
    T = r.shape[0]
    assert v.shape[0] == T and d.shape[0] == T
    adv = np.zeros(T, dtype=np.float64)
    scale = np.zeros(T, dtype=np.float64)
    a_next = 0.0
    s_next = 0.0
    for t in range(T - 1, -1, -1):
        v_next = float(next_value) if t == T - 1 else v[t + 1]
        cont = 1.0 - d[t]
        delta = r[t] + gamma * v_next * cont - v[t]
        a_next = delta + gamma * lam * cont * a_next
        s_next = abs(r[t]) + gamma * abs(v_next) * cont + abs(v[t]) + gamma * lam * cont * s_next
        adv[t] = a_next
        scale[t] = s_next
    return adv, adv + v, scale


def gae_table(rewards, values, flags, next_value, gamma: float, lam: float):
    """Column-wise application to arrays of shape (T, C) (next_value: (C,))."""
    r = np.asarray(rewards, dtype=np.float64)
    T, C = r.shape
    adv = np.zeros((T, C))
    ret = np.zeros((T, C))
    scale = np.zeros((T, C))
    v = np.asarray(values, dtype=np.float64).reshape(T, C)
    d = np.asarray(flags, dtype=np.float64).reshape(T, C)
    nv = np.asarray(next_value, dtype=np.float64).reshape(C)
    for c in range(C):
        adv[:, c], ret[:, c], scale[:, c] = gae_column(r[:, c], v[:, c], d[:, c], nv[c], gamma, lam)
    return adv, ret, scale
