"""Shared machinery of C03 / C04: architecture walks over AgileRL evolvable modules and networks.

Three parts (the two property modules keep their own monitors and evidence):

* a *bound model* per module family - which size field is limited by which constructor argument, what an
  advertised mutation method must do to the constructor description when it is not stopped by a bound
  (written from the property statement and the method docstrings: add => the field grows, remove => it
  shrinks, a documented fallback => the fallback's field; ~30 lines per family),
* *subjects*: factories for every building block / network x observation space with input-batch
  factories and the declared output shape,
* the *walk drivers*: one clone-and-mutate edge executed exactly like ``Mutations.architecture_mutate``
  does it (``clone()``, pick a name from the clone's ``mutation_methods`` / ``sample_mutation_method``,
  ``getattr(clone, name)(**args)``, read ``last_mutation_attr``), an exhaustive BFS over small-bound
  architecture graphs (every numpy draw inside a method is enumerated by a scripted ``numpy.random``),
  and seeded random walks.

Nothing here raises into the code under observation; harness problems are returned as data.
"""

from __future__ import annotations

import copy
import dataclasses
import gc
import hashlib
import inspect
import itertools
import json
from typing import Any, Callable, Dict, List, Optional, Tuple

import numpy as np

SEP = "|"  # separates component path and field in flat states


# ======================================================================================
# normalisation of constructor descriptions
# ======================================================================================
def norm(x: Any, depth: int = 0) -> Any:
    """Constructor-description value -> plain JSON-comparable python value."""
    import torch

    if depth > 8:
        return repr(x)[:80]
    if x is None or isinstance(x, (bool, str)):
        return x
    if isinstance(x, (int, np.integer)):
        return int(x)
    if isinstance(x, (float, np.floating)):
        return float(x)
    if isinstance(x, torch.Tensor):
        t = x.detach().cpu().contiguous()
        return ["tensor", list(t.shape), hashlib.sha256(t.numpy().tobytes()).hexdigest()[:12]]
    if isinstance(x, np.ndarray):
        return ["ndarray", list(x.shape), hashlib.sha256(np.ascontiguousarray(x).tobytes()).hexdigest()[:12]]
    if dataclasses.is_dataclass(x) and not isinstance(x, type):
        return {k: norm(getattr(x, k, None), depth + 1) for k in x.__dataclass_fields__}
    if isinstance(x, dict):
        return {str(k): norm(v, depth + 1) for k, v in x.items()}
    if isinstance(x, (list, tuple)):
        return [norm(v, depth + 1) for v in x]
    if isinstance(x, type):
        return "class:" + x.__name__
    return repr(x)[:160]


def py_type_problems(x: Any, path: str = "") -> List[str]:
    """Paths inside a constructor description that hold numpy scalars instead of python numbers."""
    out = []
    if isinstance(x, np.generic):
        out.append(f"{path}:{type(x).__name__}")
    elif isinstance(x, dict):
        for k, v in x.items():
            out += py_type_problems(v, f"{path}.{k}" if path else str(k))
    elif isinstance(x, (list, tuple)):
        for i, v in enumerate(x):
            out += py_type_problems(v, f"{path}[{i}]")
    return out


# ======================================================================================
# families, components, flat architecture state
# ======================================================================================
def family(m: Any) -> Optional[str]:
    from agilerl.modules import (
        EvolvableCNN,
        EvolvableLSTM,
        EvolvableMLP,
        EvolvableMultiInput,
        EvolvableResNet,
        EvolvableSimBa,
    )
    from agilerl.modules.base import EvolvableWrapper
    from agilerl.networks.base import EvolvableNetwork

    if isinstance(m, EvolvableNetwork):
        return "Network"
    if isinstance(m, EvolvableWrapper):
        return "Wrapper"
    if isinstance(m, EvolvableMultiInput):
        return "MultiInput"
    if isinstance(m, EvolvableCNN):
        return "CNN"
    if isinstance(m, EvolvableResNet):
        return "ResNet"
    if isinstance(m, EvolvableLSTM):
        return "LSTM"
    if isinstance(m, EvolvableSimBa):
        return "SimBa"
    if isinstance(m, EvolvableMLP):
        return "MLP"
    return None


def components(m: Any, path: str = "") -> List[Tuple[str, Any, str, str, List[str]]]:
    """(path, module, family, class chain, enabled own methods) for the module and every evolvable sub-module.

    Wrappers are transparent: the component at a wrapper's path is the wrapped module, the class chain
    keeps the wrapper's name so that sites can tell ``EvolvableDistribution>EvolvableMLP`` from a bare MLP.
    """
    from agilerl.modules.base import EvolvableModule

    out = []
    fam = family(m)
    chain = type(m).__name__
    inner = m
    try:
        enabled = [str(x) for x in m.mutation_methods if "." not in str(x)]  # of the outermost wrapper
    except Exception:
        enabled = []
    while fam == "Wrapper":
        inner = inner.wrapped
        fam = family(inner)
        chain += ">" + type(inner).__name__
    out.append((path, inner, fam or "?", chain, enabled))

    def sub(name, child):
        out.extend(components(child, f"{path}.{name}" if path else name))

    if fam == "Network":
        for name in ("encoder", "head_net"):
            child = getattr(inner, name, None)
            if isinstance(child, EvolvableModule):
                sub(name, child)
    elif fam == "MultiInput":
        for key, child in inner.feature_net.items():
            if isinstance(child, EvolvableModule):
                sub(f"feature_net.{key}", child)
    return out


_NESTED_KEYS = {"encoder_config", "head_config", "init_dicts"}


def flat_state(m: Any) -> Tuple[Dict[str, Any], Dict[str, Tuple[str, str]]]:
    """(flat constructor description, {path: (family, class chain)}) over all components."""
    flat: Dict[str, Any] = {}
    fams: Dict[str, Tuple[str, str, type]] = {}
    for path, mod, fam, chain, enabled in components(m):
        fams[path] = (fam, chain, type(mod), enabled)
        d = mod.init_dict
        for k, v in d.items():
            if k in _NESTED_KEYS:
                continue
            flat[f"{path}{SEP}{k}"] = norm(v)
        if fam == "CNN":
            flat[f"{path}{SEP}_kernel_full"] = norm(mod.mut_kernel_size.sizes)
    return flat, fams


def comp_view(flat: Dict[str, Any], path: str) -> Dict[str, Any]:
    pre = path + SEP
    return {k[len(pre):]: v for k, v in flat.items() if k.startswith(pre)}


def state_key(flat: Dict[str, Any]) -> str:
    return hashlib.sha256(json.dumps(flat, sort_keys=True).encode()).hexdigest()[:20]


# ======================================================================================
# bound model
# ======================================================================================
# family -> (field, mode, min argument, max argument); mode: "each" entry / "len" of the list / "value"
BOUNDS = {
    "MLP": [("hidden_size", "each", "min_mlp_nodes", "max_mlp_nodes"), ("hidden_size", "len", "min_hidden_layers", "max_hidden_layers")],
    "SimBa": [("hidden_size", "value", "min_mlp_nodes", "max_mlp_nodes"), ("num_blocks", "value", "min_blocks", "max_blocks")],
    "LSTM": [("hidden_size", "value", "min_hidden_size", "max_hidden_size"), ("num_layers", "value", "min_layers", "max_layers")],
    "CNN": [("channel_size", "each", "min_channel_size", "max_channel_size"), ("channel_size", "len", "min_hidden_layers", "max_hidden_layers")],
    "ResNet": [("channel_size", "value", "min_channel_size", "max_channel_size"), ("num_blocks", "value", "min_blocks", "max_blocks")],
    "MultiInput": [("latent_dim", "value", "min_latent_dim", "max_latent_dim")],
    "Network": [("latent_dim", "value", "min_latent_dim", "max_latent_dim")],
}


def unmodelled_bounds(flat: Dict[str, Any], fams: Dict[str, Tuple[str, str]]) -> List[str]:
    """min_*/max_* constructor arguments that the table above does not cover (self-check of the model)."""
    out = []
    for path, info in fams.items():
        fam = info[0]
        known = {a for row in BOUNDS.get(fam, []) for a in row[2:]}
        for k in comp_view(flat, path):
            if (k.startswith("min_") or k.startswith("max_")) and k not in known:
                out.append(f"{fam}.{k}")
    return out


def declared_bound_mismatches(opts: Dict[str, Any], flat: Dict[str, Any]) -> List[Dict[str, Any]]:
    """min_*/max_* arguments the caller declared (top level, encoder_config, head_config) that the built module does
    not report back: the bounds every later step is judged against must be the DECLARED ones."""
    out = []
    for path, d in (("", opts), ("encoder", opts.get("encoder_config")), ("head_net", opts.get("head_config"))):
        if not isinstance(d, dict):
            continue
        for k, v in d.items():
            if not (k.startswith("min_") or k.startswith("max_")):
                continue
            key = f"{path}{SEP}{k}"
            if key in flat and flat[key] != norm(v):
                out.append({"path": path, "argument": k, "declared": v, "reported": flat[key]})
    return out


def conv_chain(hw: List[int], kernels: List[int], strides: List[int]) -> List[Tuple[int, int]]:
    """[(min spatial input, min spatial output)] per convolution, padding 0."""
    h, w = int(hw[0]), int(hw[1])
    out = []
    for k, s in zip(kernels, strides):
        ho = (h - k) // s + 1
        wo = (w - k) // s + 1
        out.append((min(h, w), min(ho, wo)))
        h, w = ho, wo
    return out


def declared_max_kernels(hw: List[int], kernels: List[int], strides: List[int]) -> List[int]:
    """The library's declared kernel limit: a quarter of the layer's output feature map, clipped to 1..9."""
    return [max(1, min(9, int(o * 0.25))) if o > 0 else 1 for _, o in conv_chain(hw, kernels, strides)]


def bound_problems(flat: Dict[str, Any], fams: Dict[str, Tuple[str, str]]) -> List[Dict[str, Any]]:
    """Every size field that lies outside its declared minimum / maximum."""
    out = []

    def add(path, fam, field, idx, val, lo, hi, kind):
        out.append({"path": path, "family": fam, "field": field, "index": idx, "value": val, "min": lo, "max": hi, "kind": kind})

    for path, info in fams.items():
        fam = info[0]
        c = comp_view(flat, path)
        for field, mode, amin, amax in BOUNDS.get(fam, []):
            if field not in c or amin not in c or amax not in c:
                continue
            lo, hi, v = c[amin], c[amax], c[field]
            if mode == "each":
                vals = list(enumerate(v)) if isinstance(v, list) else [(None, v)]
            elif mode == "len":
                vals = [("len", len(v))] if isinstance(v, list) else []
            else:
                vals = [(None, v)]
            for idx, x in vals:
                if not isinstance(x, (int, float)):
                    add(path, fam, field, idx, x, lo, hi, "not_a_number")
                elif x < lo:
                    add(path, fam, field, idx, x, lo, hi, "below_declared_min")
                elif x > hi:
                    add(path, fam, field, idx, x, lo, hi, "above_declared_max")
        if fam == "CNN":
            ch, ks, st = c.get("channel_size", []), c.get("kernel_size", []), c.get("stride_size", [])
            if not (len(ch) == len(ks) == len(st)):
                add(path, fam, "kernel_size/stride_size", "len", [len(ch), len(ks), len(st)], None, None, "list_lengths_differ")
                continue
            for i, (fin, fout) in enumerate(conv_chain(c["input_shape"][-2:], ks, st)):
                if ks[i] < 1 or ks[i] > fin:
                    add(path, fam, "kernel_size", i, ks[i], 1, fin, "kernel_larger_than_feature_map")
                if st[i] < 1:
                    add(path, fam, "stride_size", i, st[i], 1, None, "stride_below_one")
                if fout < 1:
                    add(path, fam, "feature_map", i, fout, 1, None, "empty_feature_map")
    return out


def _cls(lo, hi, new, grow: bool) -> str:
    """'change' (the limit the step moves towards is not reached), 'boundary' (lands exactly on it),
    'stopped' (would pass it).  Only the limit in the direction of the step can stop it: growing a value that
    is still below the declared minimum (library defaults start some fields there) is a legal growth."""
    lim = hi if grow else lo
    if (grow and new > lim) or (not grow and new < lim):
        return "stopped"
    if new == lim:
        return "boundary"
    return "change"


def expected_effect(fam: str, c: Dict[str, Any], method: str, ret: Optional[Dict[str, Any]],
                    args: Optional[Dict[str, Any]] = None) -> Dict[str, Any]:
    """What ``method`` - the method reported as applied - must have done to component ``c`` (pre-state).

    Returns {"status": change|boundary|stopped|unknown, "expect": {field: value}, "free": {field: predicate
    description}, "note": str}.  ``expect`` lists the fields that must differ from the pre-state and their
    new values when status is change/boundary; every other field must be unchanged.
    """
    ret = ret or {}
    res = {"status": "unknown", "expect": {}, "free": {}, "note": ""}

    def one(field, new, lo, hi, grow):
        res["status"] = _cls(lo, hi, new, grow)
        res["expect"] = {field: new}
        return res

    def entry(field, lo, hi, layer_key, n_key, sign):
        lst = list(c[field])
        if layer_key not in ret or n_key not in ret:
            res["note"] = "method returned no argument dictionary"
            return res
        L, n = int(ret[layer_key]), int(ret[n_key])
        if not (0 <= L < len(lst)):
            res["note"] = "returned layer index outside the list"
            return res
        new = lst[L] + sign * n
        lst[L] = new
        res["status"] = _cls(lo, hi, new, sign > 0)
        res["expect"] = {field: lst}
        return res

    if fam == "MLP":
        h = list(c["hidden_size"])
        if method == "add_layer":
            if len(h) < c["max_hidden_layers"]:
                res.update(status="change", expect={"hidden_size": h + [h[-1]]})
            else:
                res["status"] = "stopped"
        elif method == "remove_layer":
            if len(h) > c["min_hidden_layers"]:
                res.update(status="change", expect={"hidden_size": h[:-1]})
            else:
                res["status"] = "stopped"
        elif method == "add_node":
            return entry("hidden_size", c["min_mlp_nodes"], c["max_mlp_nodes"], "hidden_layer", "numb_new_nodes", +1)
        elif method == "remove_node":
            return entry("hidden_size", c["min_mlp_nodes"], c["max_mlp_nodes"], "hidden_layer", "numb_new_nodes", -1)
    elif fam in ("SimBa", "LSTM"):
        lay, lmin, lmax = ("num_blocks", "min_blocks", "max_blocks") if fam == "SimBa" else ("num_layers", "min_layers", "max_layers")
        nmin, nmax = ("min_mlp_nodes", "max_mlp_nodes") if fam == "SimBa" else ("min_hidden_size", "max_hidden_size")
        if method in ("add_block", "add_layer"):
            if c[lay] < c[lmax]:
                res.update(status="change", expect={lay: c[lay] + 1})
            else:
                res["status"] = "stopped"
        elif method in ("remove_block", "remove_layer"):
            if c[lay] > c[lmin]:
                res.update(status="change", expect={lay: c[lay] - 1})
            else:
                res["status"] = "stopped"
        elif method in ("add_node", "remove_node") and "numb_new_nodes" in ret:
            sign = 1 if method == "add_node" else -1
            return one("hidden_size", c["hidden_size"] + sign * int(ret["numb_new_nodes"]), c[nmin], c[nmax], sign > 0)
    elif fam == "ResNet":
        if method == "add_block":
            if c["num_blocks"] < c["max_blocks"]:
                res.update(status="change", expect={"num_blocks": c["num_blocks"] + 1})
            else:
                res["status"] = "stopped"
        elif method == "remove_block":
            if c["num_blocks"] > c["min_blocks"]:
                res.update(status="change", expect={"num_blocks": c["num_blocks"] - 1})
            else:
                res["status"] = "stopped"
        elif method in ("add_channel", "remove_channel") and "numb_new_channels" in ret:
            sign = 1 if method == "add_channel" else -1
            return one("channel_size", c["channel_size"] + sign * int(ret["numb_new_channels"]), c["min_channel_size"], c["max_channel_size"], sign > 0)
    elif fam in ("MultiInput", "Network"):
        if method in ("add_latent_node", "remove_latent_node") and "numb_new_nodes" in ret:
            sign = 1 if method == "add_latent_node" else -1
            return one("latent_dim", c["latent_dim"] + sign * int(ret["numb_new_nodes"]), c["min_latent_dim"], c["max_latent_dim"], sign > 0)
    elif fam == "CNN":
        ch, ks, st = list(c["channel_size"]), list(c["kernel_size"]), list(c["stride_size"])
        hw = c["input_shape"][-2:]
        if method == "add_layer":
            chain = conv_chain(hw, ks, st)
            maxk = declared_max_kernels(hw, ks, st)
            # another layer needs room: below the layer maximum, a feature map larger than 2 and a declared
            # kernel limit that admits the smallest new kernel (2)
            if len(ch) < c["max_hidden_layers"] and chain[-1][1] > 2 and maxk[-1] > 2:
                res.update(
                    status="change",
                    expect={"channel_size": ch + [ch[-1]]},
                    free={"kernel_size": ["append", 2, maxk[-1]], "stride_size": ["append", 1, st[-1]]},
                )
            else:
                res["status"] = "stopped"
        elif method == "remove_layer":
            if len(ch) > c["min_hidden_layers"]:
                res.update(status="change", expect={"channel_size": ch[:-1], "kernel_size": ks[:-1], "stride_size": st[:-1]})
            else:
                res["status"] = "stopped"
        elif method == "change_kernel":
            if len(ch) > 1 and "hidden_layer" in ret and "kernel_size" in ret:
                L = int(ret["hidden_layer"])
                k = ret["kernel_size"]
                k = int(k[-1]) if isinstance(k, (list, tuple)) else int(k)
                if 0 <= L < len(ks):
                    new = list(ks)
                    new[L] = k
                    # re-drawing the current size is a legal outcome of "randomly alters"
                    res.update(status="change" if k != ks[L] else "same_value", expect={"kernel_size": new} if k != ks[L] else {})
                    res["free"] = {"_kernel_limit": [L, declared_max_kernels(hw, ks, st)[L]]}
            elif len(ch) <= 1:
                res["status"] = "stopped"
        elif method == "add_channel":
            return entry("channel_size", c["min_channel_size"], c["max_channel_size"], "hidden_layer", "numb_new_channels", +1)
        elif method == "remove_channel":
            if not ret.get("numb_new_channels", 0):
                # the method reports 0 removed channels when it refused; the amount it tried is only known
                # when it was passed explicitly
                if args and args.get("numb_new_channels"):
                    ret = dict(ret, numb_new_channels=args["numb_new_channels"])
                else:
                    return _removed_zero(res)
            return entry("channel_size", c["min_channel_size"], c["max_channel_size"], "hidden_layer", "numb_new_channels", -1)
    return res


def _removed_zero(res):
    # EvolvableCNN.remove_channel reports numb_new_channels=0 when it refused; the amount it tried is not
    # observable then, so the refusal cannot be judged
    res["status"] = "unknown"
    res["note"] = "remove_channel reported 0 removed channels"
    return res


# the documented fall-backs (docstrings): layer method stopped by its bound -> node method
FALLBACKS = {
    ("MLP", "add_layer"): "add_node",
    ("MLP", "remove_layer"): "add_node",
    ("SimBa", "add_block"): "add_node",
    ("SimBa", "remove_block"): "add_node",
    ("LSTM", "add_layer"): "add_node",
    ("LSTM", "remove_layer"): "add_node",
    ("ResNet", "add_block"): "add_channel",
    ("ResNet", "remove_block"): "add_channel",
    ("CNN", "add_layer"): "add_channel",
    ("CNN", "remove_layer"): "add_channel",
    ("CNN", "change_kernel"): "add_layer",
}


def split_method(fams: Dict[str, Tuple[str, str]], dotted: str) -> Tuple[str, str]:
    """'encoder.feature_net.image.add_channel' -> ('encoder.feature_net.image', 'add_channel')."""
    if "." not in dotted:
        return "", dotted
    path, method = dotted.rsplit(".", 1)
    return path, method


def derived_changes(flat_pre: Dict[str, Any], fams: Dict[str, Tuple[str, str]], path: str, expect: Dict[str, Any]) -> Dict[str, Any]:
    """Flat keys that must follow when the latent width of ``path`` changes (sizes of the neighbours)."""
    out = {}
    fam = fams[path][0]
    if "latent_dim" not in expect:
        return out
    new = expect["latent_dim"]
    old = flat_pre[f"{path}{SEP}latent_dim"]

    def p(child):
        return f"{path}.{child}" if path else child

    if fam == "Network":
        if p("encoder") in fams:
            out[f"{p('encoder')}{SEP}num_outputs"] = new
        if p("head_net") in fams:
            k = f"{p('head_net')}{SEP}num_inputs"
            if k in flat_pre:
                out[k] = flat_pre[k] - old + new
    elif fam == "MultiInput":
        for q in fams:
            if q.startswith(p("feature_net.")):
                out[f"{q}{SEP}num_outputs"] = new
    return out


# ======================================================================================
# subjects: what is walked, how it is fed, what it must return
# ======================================================================================
class Subject:
    def __init__(self, spec: Dict[str, Any]):
        self.spec = spec
        self.kind = spec["kind"]
        self.obs = spec.get("obs", "vector")
        self.opts = dict(spec.get("opts", {}))
        self._space = None

    def _hw(self, default: int = 16) -> Tuple[int, int]:
        """(height, width) of image inputs; opts["hw"] is an int (square) or [height, width]."""
        hw = self.opts.get("hw", default)
        if isinstance(hw, (list, tuple)):
            return int(hw[0]), int(hw[1])
        return int(hw), int(hw)

    # ---- spaces
    def space(self):
        from gymnasium import spaces

        if self._space is not None:
            return self._space
        h, w = self._hw(16)
        img = spaces.Box(0.0, 1.0, (3, h, w), dtype=np.float32)
        vec = spaces.Box(-1.0, 1.0, (5,), dtype=np.float32)
        seq = spaces.Box(-1.0, 1.0, (4, 3), dtype=np.float32)
        o = self.obs
        if o in ("vector", "simba", "vector_cfg"):
            s = vec
        elif o in ("image", "resnet", "image_cfg"):
            s = img
        elif o in ("seq", "seq_rec"):
            s = seq
        elif o == "discrete":
            s = spaces.Discrete(4)
        elif o == "dict":
            s = spaces.Dict({"image": img, "vector": vec})
        elif o == "dict2img":
            # two image sub-spaces served by ONE cnn_config: their nested extractors must stay independent
            s = spaces.Dict({"cam_left": img, "cam_right": spaces.Box(0.0, 1.0, (3, h, w), dtype=np.float32), "vector": vec})
        elif o == "dict3":
            s = spaces.Dict({"image": img, "vector": vec, "seq": seq})
        elif o == "tuple":
            s = spaces.Tuple((img, vec))
        else:
            raise ValueError(o)
        self._space = s
        return s

    def action_space(self):
        from gymnasium import spaces

        a = self.opts.get("action", "discrete")
        if a == "discrete":
            return spaces.Discrete(3)
        if a == "multidiscrete":
            return spaces.MultiDiscrete([2, 3])
        if a == "multibinary":
            return spaces.MultiBinary(3)
        return spaces.Box(-1.0, 1.0, (2,), dtype=np.float32)

    # ---- construction
    def make(self):
        import torch
        from agilerl.modules import (
            EvolvableCNN,
            EvolvableLSTM,
            EvolvableMLP,
            EvolvableMultiInput,
            EvolvableResNet,
            EvolvableSimBa,
        )

        k, o = self.kind, copy.deepcopy(self.opts)  # the library writes into the config dictionaries it is given
        for junk in ("hw", "action"):
            o.pop(junk, None)
        if k == "MLP":
            o.setdefault("hidden_size", [64])
            return EvolvableMLP(num_inputs=5, num_outputs=3, **o)
        if k == "SimBa":
            o.setdefault("hidden_size", 64)
            o.setdefault("num_blocks", 1)
            return EvolvableSimBa(num_inputs=5, num_outputs=3, **o)
        if k == "LSTM":
            o.setdefault("hidden_size", 64)
            return EvolvableLSTM(input_size=3, num_outputs=3, **o)
        if k == "CNN2d":
            h, w = self._hw(16)
            o.setdefault("channel_size", [32])
            o.setdefault("kernel_size", [3] * len(o["channel_size"]))
            o.setdefault("stride_size", [1] * len(o["channel_size"]))
            return EvolvableCNN(input_shape=[3, h, w], num_outputs=4, **o)
        if k == "CNN3d":
            h, w = self._hw(16)
            o.setdefault("channel_size", [32, 32])
            o.setdefault("kernel_size", [3] * len(o["channel_size"]))
            o.setdefault("stride_size", [1] * len(o["channel_size"]))
            return EvolvableCNN(
                input_shape=[2, h, w], num_outputs=4, block_type="Conv3d", sample_input=torch.zeros(1, 2, 2, h, w), **o
            )
        if k == "ResNet":
            h, w = self._hw(8)
            o.setdefault("channel_size", 32)
            o.setdefault("kernel_size", 3)
            o.setdefault("stride_size", 1)
            o.setdefault("num_blocks", 1)
            o.setdefault("scale_factor", 1)
            return EvolvableResNet(input_shape=[3, h, w], num_outputs=4, **o)
        if k == "MultiInput":
            return EvolvableMultiInput(observation_space=self.space(), num_outputs=4, **o)
        return self._make_network(o)

    def _make_network(self, o):
        import torch
        from agilerl.networks.actors import DeterministicActor, StochasticActor
        from agilerl.networks.q_networks import ContinuousQNetwork, QNetwork, RainbowQNetwork
        from agilerl.networks.value_networks import ValueNetwork

        k = self.kind
        kw = dict(o)
        if self.obs == "simba":
            kw["simba"] = True
        if self.obs == "vector_cfg":
            # the way users write it: only the fields they care about
            kw.setdefault("encoder_config", {"hidden_size": [16, 16]})
            kw.setdefault("head_config", {"hidden_size": [16]})
        if self.obs == "image_cfg":
            kw.setdefault("encoder_config", {"channel_size": [32], "kernel_size": [3], "stride_size": [2]})
            kw.setdefault("head_config", {"hidden_size": [16]})
        if self.obs == "seq_rec":
            kw["recurrent"] = True
            kw["encoder_config"] = {"hidden_size": 32, "num_layers": 1, "min_hidden_size": 16, "max_hidden_size": 128}
        if self.obs == "resnet":
            kw["encoder_cls"] = "ResNet"
            h, w = self._hw(16)
            kw["encoder_config"] = {
                "input_shape": [3, h, w],
                "channel_size": 32,
                "kernel_size": 3,
                "stride_size": 2,
                "num_blocks": 1,
                "scale_factor": 1,
            }
        sp, ac = self.space(), self.action_space()
        if k == "QNetwork":
            return QNetwork(sp, ac, **kw)
        if k == "RainbowQNetwork":
            return RainbowQNetwork(sp, ac, support=torch.linspace(-2.0, 2.0, 5), num_atoms=5, **kw)
        if k == "ContinuousQNetwork":
            return ContinuousQNetwork(sp, ac, **kw)
        if k == "ValueNetwork":
            return ValueNetwork(sp, **kw)
        if k == "DeterministicActor":
            return DeterministicActor(sp, ac, **kw)
        if k == "StochasticActor":
            return StochasticActor(sp, ac, **kw)
        raise ValueError(k)

    # ---- inputs
    def _obs_batch(self, n: int, gen):
        import torch
        from gymnasium import spaces

        def leaf(sp):
            if isinstance(sp, spaces.Discrete):
                idx = torch.randint(0, int(sp.n), (n,), generator=gen)
                return torch.nn.functional.one_hot(idx, int(sp.n)).float()
            return torch.rand((n, *sp.shape), generator=gen) * 2.0 - 1.0

        sp = self.space()
        if isinstance(sp, spaces.Dict):
            return {k: leaf(v) for k, v in sp.spaces.items()}
        if isinstance(sp, spaces.Tuple):
            return tuple(leaf(v) for v in sp.spaces)
        return leaf(sp)

    def batch(self, n: int, seed: int):
        """Input batch of size n (a tuple of positional arguments of the forward call)."""
        import torch

        gen = torch.Generator().manual_seed(int(seed))
        k = self.kind
        if k in ("MLP", "SimBa"):
            return (torch.randn((n, 5), generator=gen),)
        if k == "LSTM":
            return (torch.randn((n, 4, 3), generator=gen),)
        if k == "CNN2d":
            h, w = self._hw(16)
            return (torch.rand((n, 3, h, w), generator=gen),)
        if k == "CNN3d":
            h, w = self._hw(16)
            return (torch.rand((n, 2, 2, h, w), generator=gen),)
        if k == "ResNet":
            h, w = self._hw(8)
            return (torch.rand((n, 3, h, w), generator=gen),)
        obs = self._obs_batch(n, gen)
        if k == "ContinuousQNetwork":
            return (obs, torch.rand((n, 2), generator=gen) * 2.0 - 1.0)
        return (obs,)

    @staticmethod
    def _fresh(x):
        # EvolvableMultiInput.forward writes into the dict it is given
        if isinstance(x, dict):
            return dict(x)
        return x

    def call(self, m, x):
        return m(*[self._fresh(a) for a in x])

    # ---- declared output
    def declared_shapes(self, n: int) -> List[Optional[Tuple[int, ...]]]:
        from gymnasium import spaces

        k = self.kind
        if k in ("MLP", "SimBa", "LSTM"):
            return [(n, 3)]
        if k in ("CNN2d", "CNN3d", "ResNet", "MultiInput"):
            return [(n, 4)]
        if k in ("QNetwork", "RainbowQNetwork"):
            return [(n, int(spaces.flatdim(self.action_space())))]
        if k in ("ContinuousQNetwork", "ValueNetwork"):
            return [(n, 1)]
        if k == "DeterministicActor":
            return [(n, int(spaces.flatdim(self.action_space())))]
        if k == "StochasticActor":
            a = self.action_space()
            act = (n,) if isinstance(a, spaces.Discrete) else (n, int(np.prod(a.shape)))
            ent = None if (self.opts.get("squash_output") and isinstance(a, spaces.Box)) else (n,)
            return [act, (n,), ent]
        raise ValueError(k)

    def output_problems(self, out, n: int) -> List[str]:
        import torch

        outs = list(out) if isinstance(out, (tuple, list)) else [out]
        want = self.declared_shapes(n)
        probs = []
        if len(outs) != len(want):
            return [f"number_of_outputs {len(outs)} != {len(want)}"]
        for i, (o, w) in enumerate(zip(outs, want)):
            if w is None:
                if o is not None:
                    probs.append(f"output[{i}] expected None")
                continue
            if not isinstance(o, torch.Tensor):
                probs.append(f"output[{i}] is {type(o).__name__}, not a tensor")
                continue
            if tuple(o.shape) != tuple(w):
                probs.append(f"shape output[{i}] {tuple(o.shape)} != declared {tuple(w)}")
            elif not bool(torch.isfinite(o.float()).all()):
                probs.append(f"nonfinite output[{i}]")
        return probs


# ======================================================================================
# tensors: leaves, forward in a protected state, bitwise comparison
# ======================================================================================
def leaves(m) -> Dict[str, Any]:
    """Module leaf walker (DESIGN 1.1): parameters, buffers and plain tensor attributes of every sub-module."""
    import torch
    import torch.nn as nn

    out = {}
    for name, sub in nn.Module.named_modules(m):
        for group in (sub._parameters, sub._buffers):
            for k, v in group.items():
                if v is not None:
                    out[f"{name}.{k}" if name else k] = v
        for k, v in sub.__dict__.items():
            if isinstance(v, torch.Tensor) and not k.startswith("_"):
                out[f"{name}.{k}" if name else k] = v
    return out


def named_params(m) -> Dict[str, Any]:
    import torch.nn as nn

    return dict(nn.Module.named_parameters(m))


def param_owner_types(m) -> Dict[str, str]:
    """parameter name -> class name of the torch module that owns it."""
    import torch.nn as nn

    out = {}
    for name, sub in nn.Module.named_modules(m):
        for k, v in sub._parameters.items():
            if v is not None:
                out[f"{name}.{k}" if name else k] = type(sub).__name__
    return out


def leaf_owner_types(m) -> Dict[str, str]:
    """parameter / buffer name -> class name of the torch module that owns it."""
    import torch.nn as nn

    out = {}
    for name, sub in nn.Module.named_modules(m):
        for group in (sub._parameters, sub._buffers):
            for k, v in group.items():
                if v is not None:
                    out[f"{name}.{k}" if name else k] = type(sub).__name__
    return out


def same_bits(a, b) -> bool:
    import torch

    if a is None or b is None:
        return a is None and b is None
    if isinstance(a, (tuple, list)):
        return isinstance(b, (tuple, list)) and len(a) == len(b) and all(same_bits(x, y) for x, y in zip(a, b))
    if not isinstance(a, torch.Tensor) or not isinstance(b, torch.Tensor):
        return False
    if a.shape != b.shape or a.dtype != b.dtype:
        return False
    return a.detach().contiguous().numpy().tobytes() == b.detach().contiguous().numpy().tobytes()


def max_abs_diff(a, b) -> Optional[float]:
    import torch

    try:
        if isinstance(a, (tuple, list)):
            vals = [max_abs_diff(x, y) for x, y in zip(a, b)]
            vals = [v for v in vals if v is not None]
            return max(vals) if vals else None
        if isinstance(a, torch.Tensor) and isinstance(b, torch.Tensor) and a.shape == b.shape:
            return float((a.double() - b.double()).abs().max()) if a.numel() else 0.0
    except Exception:
        return None
    return None


def forward(subject: Subject, m, x, train: bool, seed: int = 777):
    """m(x) with the module's buffers protected and every random ingredient (NoisyLinear noise, sampling)
    re-seeded, so that two networks with equal weights give bit-identical results."""
    import torch
    import torch.nn as nn
    from agilerl.modules.custom_components import NoisyLinear

    bufs = []
    for sub in nn.Module.modules(m):
        for k, v in sub._buffers.items():
            if v is not None:
                bufs.append((v, v.detach().clone()))
    was = m.training
    nn.Module.train(m, train)
    try:
        torch.manual_seed(seed)
        for sub in nn.Module.modules(m):
            if isinstance(sub, NoisyLinear):
                sub.reset_noise()
        torch.manual_seed(seed + 1)
        with torch.no_grad():
            out = subject.call(m, x)
    finally:
        nn.Module.train(m, was)
        with torch.no_grad():
            for v, old in bufs:
                v.copy_(old)
    return out


def randomise(m, seed: int) -> None:
    """Give every parameter (also LayerNorm / BatchNorm scale and shift) and every running statistic a random
    value, so that freshly initialised values (exactly 1 / 0) cannot pass for preserved ones."""
    import torch
    import torch.nn as nn

    gen = torch.Generator().manual_seed(int(seed))
    with torch.no_grad():
        for sub in nn.Module.modules(m):
            for k, p in sub._parameters.items():
                if p is None:
                    continue
                p.copy_(torch.randn(p.shape, generator=gen) * 0.3)
            for k, b in sub._buffers.items():
                if b is None or not b.is_floating_point():
                    continue
                if k == "running_var":
                    b.copy_(torch.rand(b.shape, generator=gen) + 0.5)
                elif k == "running_mean":
                    b.copy_(torch.randn(b.shape, generator=gen) * 0.3)


# ======================================================================================
# scripted numpy.random: enumerates every draw a mutation method makes
# ======================================================================================
class Chooser:
    """Replaces numpy.random.randint / numpy.random.choice while one mutation method runs.  Draw i takes
    option script[i] (0 when the script is exhausted); the arity of every draw is recorded so that the
    caller can enumerate all continuations."""

    def __init__(self, script: List[int]):
        self.script = list(script)
        self.arity: List[int] = []
        self._saved = None

    def _pick(self, options):
        i = len(self.arity)
        self.arity.append(len(options))
        j = self.script[i] if i < len(self.script) else 0
        return options[min(j, len(options) - 1)]

    def randint(self, low, high=None, size=None, dtype=int):
        if high is None:
            low, high = 0, low
        if high <= low:
            raise ValueError("low >= high")  # what numpy itself raises
        v = self._pick(list(range(int(low), int(high))))
        return np.array([v] * int(size), dtype=np.int64) if size is not None else int(v)

    def choice(self, a, size=None, replace=True, p=None):
        opts = list(range(a)) if isinstance(a, (int, np.integer)) else list(a)
        v = self._pick(opts)
        return np.array([v] * int(size)) if size is not None else v

    def __enter__(self):
        self._saved = (np.random.randint, np.random.choice)
        np.random.randint, np.random.choice = self.randint, self.choice
        return self

    def __exit__(self, *exc):
        np.random.randint, np.random.choice = self._saved
        return False


def next_script(script: List[int], arity: List[int]) -> Optional[List[int]]:
    """Successor of ``script`` in the depth-first enumeration of all draw sequences, None when done."""
    cur = [script[i] if i < len(script) else 0 for i in range(len(arity))]
    for i in reversed(range(len(arity))):
        if cur[i] + 1 < arity[i]:
            return cur[:i] + [cur[i] + 1]
    return None


def reraise_watchdog(exc: BaseException) -> None:
    """The runner's per-case watchdog is an exception too; it must never be recorded as a library failure."""
    if type(exc).__name__ == "CaseTimeout":
        raise exc


# ======================================================================================
# one clone-and-mutate edge
# ======================================================================================
class Edge:
    __slots__ = (
        "subject", "parent", "child", "called", "args", "ret", "applied", "pre_flat", "pre_fams", "post_flat",
        "post_fams", "snap", "clone_exc", "call_exc", "state_exc", "pattern", "script", "arity", "step", "parent_changed",
        "rejected",
    )

    def __init__(self, **kw):
        for k in self.__slots__:
            setattr(self, k, kw.get(k))

    def describe(self) -> Dict[str, Any]:
        return {
            "subject": self.subject.spec if self.subject else None,
            "called": self.called,
            "args": norm(self.args),
            "returned": norm(self.ret),
            "applied": self.applied,
            "pattern": self.pattern,
            "step": self.step,
            "script": self.script,
            "rejected_call_before": self.rejected,
        }


def drive_edge(subject, parent, name: Optional[str], args: Optional[Dict[str, Any]] = None,
               prepare: Optional[Callable] = None, on_clone: Optional[Callable] = None,
               script: Optional[List[int]] = None, clone: bool = True, pattern: str = "A", step: int = 0,
               pick: Optional[Callable] = None, reject: Optional[Callable] = None) -> Edge:
    """Pattern A: ``child = parent.clone(); getattr(child, name)(**args)`` - the way architecture_mutate does it.
    ``pick(child) -> (name, args)`` chooses the method from the *clone's* advertised methods (as the HPO does).
    With clone=False the method is applied to ``parent`` itself (pattern B, informational)."""
    e = Edge(subject=subject, parent=parent, called=name, args=dict(args or {}), pattern=pattern, script=script, step=step)
    child = parent
    if clone:
        try:
            child = parent.clone()
        except Exception as exc:  # the property says this must work
            reraise_watchdog(exc)
            e.clone_exc = exc
            return e
        if on_clone is not None:
            on_clone(parent, child)
    e.child = child
    if pick is not None:
        name, args = pick(child)
        e.called, e.args = name, dict(args or {})
        if name is None:
            return e
    if reject is not None and clone:
        # a caller replays a mutation with arguments that do not fit this module (wrong keyword, layer index that does not
        # exist): the call raises, the caller catches it and keeps using the module. Only a rejected call that left the
        # module's description untouched is followed by the real mutation on the same object; otherwise a fresh clone is used.
        rj = reject(child)
        if rj is not None:
            try:
                before_rj = state_key(flat_state(child)[0])
                try:
                    getattr(child, rj[0])(**rj[1])
                    e.rejected = {"call": rj[0], "args": norm(rj[1]), "outcome": "accepted"}
                except Exception as exc:
                    reraise_watchdog(exc)
                    e.rejected = {"call": rj[0], "args": norm(rj[1]), "outcome": "raised:" + type(exc).__name__}
                if state_key(flat_state(child)[0]) != before_rj or not str(e.rejected["outcome"]).startswith("raised"):
                    e.rejected["outcome"] += "+state_changed_or_accepted(fresh clone used)"
                    child = parent.clone()
                    e.child = child
            except Exception as exc:
                reraise_watchdog(exc)
                e.rejected = {"call": rj[0], "outcome": "harness:" + type(exc).__name__}
                child = parent.clone()
                e.child = child
    if prepare is not None:
        e.snap = prepare(child)
    try:
        e.pre_flat, e.pre_fams = flat_state(child)
    except Exception as exc:
        e.state_exc = exc
        return e
    try:
        if script is not None:
            with Chooser(script) as ch:
                try:
                    e.ret = getattr(child, e.called)(**e.args)
                finally:
                    e.arity = list(ch.arity)
        else:
            e.ret = getattr(child, e.called)(**e.args)
    except Exception as exc:
        reraise_watchdog(exc)
        e.call_exc = exc
        return e
    e.applied = child.last_mutation_attr
    try:
        e.post_flat, e.post_fams = flat_state(child)
    except Exception as exc:
        e.state_exc = exc
    if clone and e.pre_flat is not None:
        # mutating the clone must leave the PARENT's constructor description alone (pre_flat was taken from the fresh
        # clone, i.e. it is also the parent's description at that moment)
        try:
            pf, _ = flat_state(parent)
            e.parent_changed = sorted(k for k in set(pf) | set(e.pre_flat) if pf.get(k) != e.pre_flat.get(k))
        except Exception:
            e.parent_changed = None
    return e


def pyify(x: Any) -> Any:
    """Constructor description with numpy scalars turned into python numbers (used only to *continue* a walk
    after the rebuild monitor has already recorded that the description could not be used as it is)."""
    if isinstance(x, np.generic):
        return x.item()
    if isinstance(x, dict):
        return {k: pyify(v) for k, v in x.items()}
    if isinstance(x, list):
        return [pyify(v) for v in x]
    if isinstance(x, tuple):
        return tuple(pyify(v) for v in x)
    return x


def recover(m):
    """A usable copy of a module whose clone() raised, or None."""
    try:
        twin = type(m)(**pyify(copy.deepcopy(m.init_dict)))
        twin._layer_mutation_methods = list(m._layer_mutation_methods)
        twin._node_mutation_methods = list(m._node_mutation_methods)
        twin.load_state_dict(m.state_dict())
        twin.clone()
        return twin
    except Exception as exc:
        reraise_watchdog(exc)
        return None


def site_of(e: "Edge", dotted: Optional[str]) -> str:
    """Mechanism-level site of a (possibly dotted) method name on an edge: wrapper classes on the way + the
    class that defines the method + the method name (e.g. 'EvolvableDistribution>EvolvableMLP.add_node')."""
    if not dotted:
        return type(e.child if e.child is not None else e.parent).__name__
    path, method = split_method(e.pre_fams or {}, dotted)
    info = (e.pre_fams or {}).get(path)
    if info is None:
        return f"{type(e.child if e.child is not None else e.parent).__name__}:{dotted}"
    chain, cls = info[1], info[2]
    qual = getattr(getattr(cls, method, None), "__qualname__", f"{cls.__name__}.{method}")
    wrappers = chain.split(">")[:-1] if ">" in chain else []
    return ">".join(wrappers + [qual])


# ======================================================================================
# explicit argument choices (what a second network receives from the first in architecture_mutate)
# ======================================================================================
def leaf_of(m, dotted: str):
    """Sub-module that owns a (possibly dotted) mutation method, and the bare method name."""
    parts = dotted.split(".")
    mod = m
    for p in parts[:-1]:
        try:
            mod = getattr(mod, p)
        except AttributeError:
            mod = mod[p]
    while family(mod) == "Wrapper":
        mod = mod.wrapped
    return mod, parts[-1]


def arg_choices(m, dotted: str, nodes: Tuple[int, ...] = (16, 32, 64), channels: Tuple[int, ...] = (8, 16, 32),
                latent: Tuple[int, ...] = (8, 16, 32)) -> List[Dict[str, Any]]:
    """All explicit keyword-argument choices for an advertised method that the HPO path can produce
    (the dictionary returned by the same method on a network of the same architecture)."""
    try:
        mod, meth = leaf_of(m, dotted)
    except Exception:
        return []
    fam = family(mod)
    try:
        fn = getattr(type(mod), meth)
        params = [p for p in inspect.signature(fn).parameters if p != "self"]
    except Exception:
        return []
    if not params:
        return []
    c = norm(mod.init_dict)
    pools: Dict[str, List[Any]] = {}
    for p in params:
        if p == "numb_new_nodes":
            pools[p] = list(latent if "latent" in meth else nodes)
        elif p == "numb_new_channels":
            pools[p] = list(channels)
        elif p == "hidden_layer":
            if meth == "change_kernel":
                n = len(c.get("channel_size", []))
                # layers 1..3 are what the method itself draws; layer 0 is a public argument choice as well (the
                # first kernel of a Conv3d block carries the agent depth, which a kernel change has to keep)
                pools[p] = list(range(0, min(4, n)))
            else:
                n = len(c.get("hidden_size", c.get("channel_size", [0])))
                pools[p] = list(range(0, n + 1))  # n is clamped to the last layer by the method
        elif p == "kernel_size":
            pools[p] = None  # depends on hidden_layer
        else:
            return []
    if meth == "change_kernel":
        out = []
        if len(c.get("channel_size", [])) > 1:
            mk = declared_max_kernels(c["input_shape"][-2:], c["kernel_size"], c["stride_size"])
            for L in pools.get("hidden_layer", []):
                for k in range(1, mk[L] + 1):
                    out.append({"hidden_layer": L, "kernel_size": k})
        return out
    keys = list(pools)
    return [dict(zip(keys, combo)) for combo in itertools.product(*[pools[k] for k in keys])]


# ======================================================================================
# walks
# ======================================================================================
def bfs(subject: Subject, on_edge: Callable[[Edge], None], prepare=None, on_clone=None, max_states: int = 4000,
        nodes=(8,), channels=(8,), latent=(8,), on_state=None) -> Dict[str, Any]:
    """Exhaustive exploration of the architecture graph reachable from subject.make(): every method the clone
    advertises, without arguments (every numpy draw enumerated) and with every explicit argument choice."""
    root = subject.make()
    flat, _ = flat_state(root)
    seen = {state_key(flat): 0}
    queue = [root]
    if on_state is not None:
        on_state(root, None)
    stats = {"states": 1, "edges": 0, "draw_sequences": 0, "truncated": False, "dead_edges": 0, "recovered_parents": 0,
             "pruned_out_of_bounds": 0}
    root_bad = {(p["path"], p["field"], p["kind"]) for p in bound_problems(flat, flat_state(root)[1])}
    while queue:
        parent = queue.pop(0)
        try:
            probe = parent.clone()
        except Exception as exc:
            reraise_watchdog(exc)
            # recorded by the monitors through the first edge below; continue from a repaired copy
            e = drive_edge(subject, parent, None, {}, prepare, on_clone, step=stats["edges"])
            stats["edges"] += 1
            on_edge(e)
            parent = recover(parent)
            if parent is None:
                stats["dead_edges"] += 1
                continue
            stats["recovered_parents"] += 1
            probe = parent.clone()
        for name in list(probe.mutation_methods):
            calls: List[Dict[str, Any]] = list(arg_choices(probe, name, nodes, channels, latent)) + [{}]
            for args in calls:
                script: Optional[List[int]] = []
                while script is not None:
                    e = drive_edge(subject, parent, name, args, prepare, on_clone, script=script, step=stats["edges"])
                    stats["edges"] += 1
                    if stats["edges"] % 64 == 0:
                        gc.collect()  # evolvable modules are reference cycles (instance-bound method wrappers)
                    stats["draw_sequences"] += 1 if e.arity else 0
                    on_edge(e)
                    if e.post_flat is not None and e.call_exc is None:
                        key = state_key(e.post_flat)
                        if key not in seen:
                            if len(seen) >= max_states:
                                stats["truncated"] = True
                            elif any((p["path"], p["field"], p["kind"]) not in root_bad for p in bound_problems(e.post_flat, e.post_fams)):
                                # a state OUTSIDE the declared bounds has been reported by the monitors; exploring on from it
                                # would leave the (finite) graph this case enumerates and can run for hours on a broken tree
                                seen[key] = len(seen)
                                stats["pruned_out_of_bounds"] += 1
                            else:
                                seen[key] = len(seen)
                                queue.append(e.child)
                                if on_state is not None:
                                    on_state(e.child, e)
                    else:
                        stats["dead_edges"] += 1
                    script = next_script(script, e.arity or [])
    stats["states"] = len(seen)
    return stats


def random_walk(subject: Subject, steps: int, seed: int, on_edge: Callable[[Edge], None], prepare=None, on_clone=None,
                on_edge_b: Optional[Callable[[Edge], None]] = None, new_layer_prob: float = 0.3,
                explicit_prob: float = 0.4, pattern_b_prob: float = 0.15, on_state=None, star: bool = True,
                star_explicit: int = 3, reject_prob: float = 0.12) -> Dict[str, Any]:
    """Seeded chain of clone-and-mutate steps with the library's own sampling interface."""
    import torch

    rng = np.random.default_rng(seed)
    np.random.seed(seed % (2**32))
    torch.manual_seed(seed)
    m = subject.make()
    if on_state is not None:
        on_state(m, None)
    stats = {"steps": 0, "explicit": 0, "pattern_b": 0, "methods": {}, "distinct_states": 0, "aborted": None, "recoveries": 0,
             "star_edges": 0, "rejected_calls": 0}

    def reject(child):
        if rng.random() >= reject_prob:
            return None
        methods = [str(x) for x in child.mutation_methods]
        # a network-level method (add/remove_latent_node) re-creates the network's children when its context closes, and the
        # library supports further mutations only on a fresh clone after that (pattern B is informational for the same
        # reason): the rejected call is therefore taken from the methods of the nested modules, or from a plain module's own
        if any("." in x for x in methods):
            methods = [x for x in methods if "." in x]
        methods = [x for x in methods if "latent_node" not in x]  # (EvolvableMultiInput re-creates its extractors likewise)
        if not methods:
            return None
        name = methods[int(rng.integers(len(methods)))]
        stats["rejected_calls"] += 1
        if rng.random() < 0.5:
            return name, {"argument_of_another_module_type": 8}
        ch = [a for a in arg_choices(child, name) if "hidden_layer" in a]
        if ch:
            a = dict(ch[int(rng.integers(len(ch)))])
            a["hidden_layer"] = -9  # no such layer
            return name, a
        return name, {"argument_of_another_module_type": 8}

    seen = set()

    def pick(child):
        methods = list(child.mutation_methods)
        if not methods:
            return None, {}
        if rng.random() < 0.5:
            name = str(child.sample_mutation_method(new_layer_prob, rng))  # what get_architecture_mut_method does
        else:
            name = str(methods[int(rng.integers(len(methods)))])  # uniform: reaches rarely sampled methods
        args: Dict[str, Any] = {}
        if rng.random() < explicit_prob:
            ch = arg_choices(child, name)
            if ch:
                args = ch[int(rng.integers(len(ch)))]
                stats["explicit"] += 1
        return name, args

    # star: every advertised method once from the initial configuration (without arguments and with up to
    # `star_explicit` explicit argument choices), so that no method depends on being sampled by the walk
    if star:
        try:
            probe_methods = [str(x) for x in m.clone().mutation_methods]
        except Exception as exc:
            reraise_watchdog(exc)
            probe_methods = []
        for name in probe_methods:
            calls: List[Dict[str, Any]] = [{}]
            ch = arg_choices(m, name)
            if ch:
                idx = rng.permutation(len(ch))[:star_explicit]
                calls += [ch[int(i)] for i in idx]
            for args in calls:
                e = drive_edge(subject, m, name, args, prepare, on_clone, step=-1)
                on_edge(e)
                stats["star_edges"] += 1
        gc.collect()

    for step in range(steps):
        if step % 8 == 7:
            gc.collect()  # evolvable modules are reference cycles; keep the worker's memory flat
        e = drive_edge(subject, m, None, {}, prepare, on_clone, step=step, pick=pick, reject=reject)
        if e.clone_exc is None and e.called is None:
            stats["aborted"] = "no mutation methods"
            break
        on_edge(e)
        stats["steps"] += 1
        stats["methods"][str(e.called)] = stats["methods"].get(str(e.called), 0) + 1
        if e.clone_exc is not None:
            # already recorded; continue from a repaired copy so that the rest of the space is still explored
            m2 = recover(m)
            if m2 is None:
                m2 = subject.make()
            stats["recoveries"] += 1
            m = m2
            continue
        if e.call_exc is not None or e.post_flat is None:
            continue  # the chain cannot continue from a broken child; go on from the parent
        seen.add(state_key(e.post_flat))
        if on_edge_b is not None and rng.random() < pattern_b_prob:
            # pattern B on a throw-away branch: a second mutation on the same object without cloning
            try:
                branch = e.child.clone()
                first = list(branch.mutation_methods)
                getattr(branch, str(first[int(rng.integers(len(first)))]))()
                second = list(branch.mutation_methods)
                n2 = str(second[int(rng.integers(len(second)))])
                eb = drive_edge(subject, branch, n2, {}, prepare, None, clone=False, pattern="B", step=step)
                on_edge_b(eb)
                stats["pattern_b"] += 1
            except Exception as exc:
                reraise_watchdog(exc)
        m = e.child
        if on_state is not None:
            on_state(m, e)
    stats["distinct_states"] = len(seen)
    return stats


# ======================================================================================
# subject lists shared by C03 and C04
# ======================================================================================
def bfs_subjects(tier):
    small_mlp = dict(hidden_size=[8], min_mlp_nodes=8, max_mlp_nodes=24, min_hidden_layers=1, max_hidden_layers=3)
    subs = [
        {"kind": "CNN2d", "opts": dict(hw=16, channel_size=[8], kernel_size=[3], stride_size=[1], min_channel_size=8,
                                        max_channel_size=16, min_hidden_layers=1, max_hidden_layers=2 if tier == "quick" else 3)},
        {"kind": "MLP", "opts": dict(small_mlp)},
        {"kind": "SimBa", "opts": dict(hidden_size=8, num_blocks=1, min_mlp_nodes=8, max_mlp_nodes=24, min_blocks=1, max_blocks=3)},
        {"kind": "LSTM", "opts": dict(hidden_size=8, num_layers=1, min_hidden_size=8, max_hidden_size=24, min_layers=1, max_layers=3)},
        {"kind": "ResNet", "opts": dict(hw=6, channel_size=8, num_blocks=1, min_channel_size=8, max_channel_size=24,
                                         min_blocks=1, max_blocks=3, scale_factor=1)},
        # non-square (tall and narrow) graph: kernel limits of the second layer depend on the WIDTH that is left
        {"kind": "CNN2d", "opts": dict(hw=[24, 10], channel_size=[8, 8], kernel_size=[3, 3], stride_size=[1, 1], min_channel_size=8,
                                        max_channel_size=16, min_hidden_layers=1, max_hidden_layers=2, layer_norm=True)},
        {"kind": "MLP", "opts": dict(small_mlp, layer_norm=False, noisy=True, hidden_size=[16, 8])},
    ]
    if tier != "quick":
        subs += [
            {"kind": "MLP", "opts": dict(hidden_size=[8], min_mlp_nodes=8, max_mlp_nodes=40, min_hidden_layers=1, max_hidden_layers=3)},
            {"kind": "CNN2d", "opts": dict(hw=20, channel_size=[8], kernel_size=[3], stride_size=[1], min_channel_size=8,
                                            max_channel_size=16, min_hidden_layers=1, max_hidden_layers=3)},
            {"kind": "ResNet", "opts": dict(hw=6, channel_size=8, kernel_size=2, num_blocks=2, min_channel_size=8,
                                             max_channel_size=24, min_blocks=1, max_blocks=3, scale_factor=2)},
            {"kind": "QNetwork", "obs": "vector", "opts": dict(
                latent_dim=8, min_latent_dim=8, max_latent_dim=24,
                encoder_config=dict(hidden_size=[8], min_mlp_nodes=8, max_mlp_nodes=16, min_hidden_layers=1, max_hidden_layers=2),
                head_config=dict(hidden_size=[8], min_mlp_nodes=8, max_mlp_nodes=16, min_hidden_layers=1, max_hidden_layers=2))},
        ]
    return subs


MODULE_SUBJECTS = [
    {"kind": "MLP", "opts": {}},
    {"kind": "MLP", "opts": dict(hidden_size=[64, 64], layer_norm=False, output_layernorm=True)},
    {"kind": "MLP", "opts": dict(noisy=True, init_layers=False, output_vanish=False, output_activation="Tanh")},
    {"kind": "SimBa", "opts": {}},
    {"kind": "SimBa", "opts": dict(hidden_size=128, num_blocks=2, scale_factor=2)},
    {"kind": "LSTM", "opts": {}},
    {"kind": "LSTM", "opts": dict(hidden_size=32, num_layers=2)},
    # image sizes: tall-narrow (64x10, 40x6), wide-flat (10x64), small odd (9x7) and square ones
    {"kind": "CNN2d", "opts": dict(hw=[64, 10], channel_size=[32, 32], kernel_size=[3, 3], stride_size=[1, 1])},
    {"kind": "CNN2d", "opts": dict(hw=32, channel_size=[32, 32], kernel_size=[4, 3], stride_size=[2, 1], layer_norm=True)},
    {"kind": "CNN2d", "opts": dict(hw=[9, 7], channel_size=[32, 32], kernel_size=[2, 2], stride_size=[1, 1])},
    {"kind": "CNN2d", "opts": dict(hw=8, channel_size=[32], kernel_size=[3], stride_size=[1])},
    {"kind": "CNN3d", "opts": dict(hw=[40, 6])},
    {"kind": "CNN3d", "opts": dict(hw=[10, 64], channel_size=[32, 32], kernel_size=[3, 3], stride_size=[2, 1])},
    {"kind": "ResNet", "opts": dict(hw=8)},
    {"kind": "ResNet", "opts": dict(hw=[9, 6], kernel_size=2, num_blocks=2, channel_size=64, scale_factor=2)},
    {"kind": "MultiInput", "obs": "dict", "opts": dict(hw=[40, 6])},
    {"kind": "MultiInput", "obs": "tuple", "opts": dict(vector_space_mlp=True, hw=[10, 64])},
    {"kind": "MultiInput", "obs": "dict3", "opts": dict(recurrent=True, vector_space_mlp=True)},
    {"kind": "MultiInput", "obs": "dict3", "opts": dict(recurrent=False, latent_dim=32)},
    {"kind": "MultiInput", "obs": "dict2img", "opts": dict(
        latent_dim=16, max_latent_dim=32,
        cnn_config=dict(channel_size=[16, 16], kernel_size=[3, 3], stride_size=[1, 1], min_channel_size=8, max_channel_size=64))},
    {"kind": "MultiInput", "obs": "dict2img", "opts": dict(hw=[9, 7])},
    # every constructor option at a NON-default value: a re-created network has to be built with all of them
    {"kind": "MLP", "opts": dict(activation="GELU", new_gelu=True)},
    {"kind": "MLP", "opts": dict(activation="GELU", new_gelu=True, output_activation="Sigmoid", layer_norm=False, output_layernorm=True,
                                  output_vanish=False, init_layers=False, noisy=True, noise_std=0.2, hidden_size=[64, 64])},
    {"kind": "CNN2d", "opts": dict(hw=12, channel_size=[32, 32], kernel_size=[3, 3], stride_size=[1, 1], activation="ELU",
                                    output_activation="Tanh", layer_norm=True, init_layers=False)},
    {"kind": "LSTM", "opts": dict(hidden_size=64, num_layers=2, output_activation="Tanh", dropout=0.0)},
    {"kind": "SimBa", "opts": dict(hidden_size=64, num_blocks=2, output_activation="Tanh", scale_factor=2)},
    {"kind": "ResNet", "opts": dict(hw=8, output_activation="Tanh", scale_factor=2)},
    {"kind": "MultiInput", "obs": "dict", "opts": dict(output_activation="Tanh", vector_space_mlp=True, latent_dim=24,
                                                      mlp_config=dict(hidden_size=[32], activation="GELU", new_gelu=True))},
]

NETWORKS = {
    "QNetwork": (["vector", "image", "dict", "tuple", "seq", "seq_rec", "discrete", "simba", "resnet", "vector_cfg"], ["discrete", "multidiscrete"]),
    "RainbowQNetwork": (["vector", "image", "dict", "tuple", "seq"], ["discrete"]),
    "ContinuousQNetwork": (["vector", "image", "dict", "tuple", "simba", "seq"], ["box"]),
    "ValueNetwork": (["vector", "image", "dict", "tuple", "seq_rec", "simba", "discrete", "image_cfg", "dict2img"], [None]),
    "DeterministicActor": (["vector", "image", "dict", "tuple", "seq_rec", "simba", "vector_cfg"], ["box", "discrete"]),
    "StochasticActor": (["vector", "image", "dict", "tuple", "seq_rec", "simba"], ["box", "discrete", "multidiscrete", "multibinary", "box_squash"]),
}


# non-square image members for the networks over image / dict / tuple spaces (the others stay 16x16)
NONSQUARE = {
    ("QNetwork", "image"): [64, 10],
    ("QNetwork", "dict"): [40, 6],
    ("RainbowQNetwork", "image"): [10, 64],
    ("RainbowQNetwork", "tuple"): [9, 7],
    ("ContinuousQNetwork", "image"): [9, 7],
    ("ContinuousQNetwork", "dict"): [10, 64],
    ("ValueNetwork", "tuple"): [40, 6],
    ("DeterministicActor", "image"): [40, 6],
    ("StochasticActor", "image"): [9, 7],
    ("StochasticActor", "dict"): [10, 64],
}


def network_subjects():
    out = []
    for kind, (obs_kinds, actions) in NETWORKS.items():
        for i, obs in enumerate(obs_kinds):
            for j, act in enumerate(actions):
                # full product for the two plainest observation kinds, one action kind for the others
                if i >= 2 and j != (i % len(actions)):
                    continue
                opts = {}
                if act == "box_squash":
                    opts = {"action": "box", "squash_output": True}
                elif act is not None:
                    opts = {"action": act}
                if (kind, obs) in NONSQUARE:
                    opts["hw"] = list(NONSQUARE[(kind, obs)])
                out.append({"kind": kind, "obs": obs, "opts": opts})
        # declared (non-default) latent bounds: the walk has to stay inside THESE, not inside the class defaults
        out.append({"kind": kind, "obs": "vector", "opts": dict(
            ({"action": actions[-1].replace("_squash", "")} if actions[-1] else {}),
            latent_dim=24, min_latent_dim=16, max_latent_dim=40)})
    return out
