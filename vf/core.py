"""Core of the runtime-monitoring framework: case sharding, verdicts, evidence.

A property module (vf/props/cXX.py) provides

    PROPERTY = "C09"; LEVEL = "exploration"; RULE = "..."; ASSUMPTIONS = [...]
    def preload():                 import the heavy modules once (before fork)
    def cases(tier, seed) -> list  JSON-serialisable case descriptions (dicts)
    def run_case(case) -> dict     {"witnesses": [...], "counters": {...},
                                    "nontrivial": bool, "extra": {...}}
    def finalize(results, ctx)     optional: more witnesses / coverage keys

A witness is a dict with at least {"monitor", "kind", "site"} plus free detail.
Monitors *record*; they never raise into the code under observation.

Verdict is three-valued: VIOLATED (exit 1, VIOLATION line + replay file),
HELD (exit 0, possibly KNOWN-FINDING lines), INCONCLUSIVE (exit 2).
"""

from __future__ import annotations

import hashlib
import importlib
import json
import multiprocessing as mp
import os
import signal
import sys
import time
import traceback
from collections import Counter, defaultdict
from typing import Any, Dict, List, Optional

VERIF_DIR = os.path.dirname(os.path.dirname(os.path.abspath(__file__)))
EVIDENCE_DIR = os.path.join(VERIF_DIR, "evidence")
REPLAY_DIR = os.path.join(VERIF_DIR, "replays")
WORK_DIR = os.path.join(EVIDENCE_DIR, ".work")
KNOWN_FILE = os.path.join(VERIF_DIR, "known_findings.json")
NCPU = int(os.environ.get("VERIF_JOBS", str(min(16, os.cpu_count() or 1))))


# --------------------------------------------------------------------------
# source selection: always /repo's working tree unless AGILERL_SRC points at a
# scratch worktree (used only when validating monitors against seeded breaks)
# --------------------------------------------------------------------------
def repo_root() -> str:
    return os.path.abspath(os.environ.get("AGILERL_SRC", "/repo"))


def setup_paths() -> None:
    src = repo_root()
    if src in sys.path:
        sys.path.remove(src)
    sys.path.insert(0, src)
    deps = os.path.join(VERIF_DIR, ".deps")
    if os.path.isdir(deps) and deps not in sys.path:
        sys.path.append(deps)  # appended: must never shadow torch's own deps
    if VERIF_DIR not in sys.path:
        sys.path.insert(1, VERIF_DIR)
    os.environ.setdefault("PYTHONHASHSEED", "0")
    os.environ.setdefault("OMP_NUM_THREADS", "1")
    os.environ.setdefault("MKL_NUM_THREADS", "1")
    os.environ.setdefault("TOKENIZERS_PARALLELISM", "false")
    os.environ.setdefault("WANDB_MODE", "disabled")
    os.environ["AGILERL_VERIF"] = "1"


def assert_source() -> str:
    import agilerl

    got = os.path.dirname(os.path.dirname(os.path.abspath(agilerl.__file__)))
    want = repo_root()
    if os.path.realpath(got) != os.path.realpath(want):
        raise RuntimeError(f"agilerl imported from {got}, expected {want}")
    return got


def quiet_torch() -> None:
    import warnings

    warnings.filterwarnings("ignore")
    import torch

    torch.set_num_threads(1)
    try:
        torch.set_num_interop_threads(1)
    except RuntimeError:
        pass


# --------------------------------------------------------------------------
# helpers for property modules
# --------------------------------------------------------------------------
def jsonable(x: Any, depth: int = 0) -> Any:
    """Best-effort conversion of witness details to JSON."""
    if depth > 6:
        return repr(x)[:200]
    try:
        import numpy as np
    except Exception:  # pragma: no cover
        np = None
    if x is None or isinstance(x, (bool, int, str)):
        return x
    if isinstance(x, float):
        if x != x or x in (float("inf"), float("-inf")):
            return repr(x)
        return x
    if np is not None:
        if isinstance(x, np.generic):
            return jsonable(x.item(), depth + 1)
        if isinstance(x, np.ndarray):
            if x.size > 64:
                return {"shape": list(x.shape), "head": jsonable(x.ravel()[:16].tolist(), depth + 1)}
            return jsonable(x.tolist(), depth + 1)
    mod = type(x).__module__
    if mod.startswith("torch"):
        try:
            return jsonable(x.detach().cpu().numpy(), depth + 1)
        except Exception:
            return repr(x)[:200]
    if isinstance(x, dict):
        return {str(k): jsonable(v, depth + 1) for k, v in list(x.items())[:64]}
    if isinstance(x, (list, tuple, set, frozenset)):
        return [jsonable(v, depth + 1) for v in list(x)[:64]]
    return repr(x)[:300]


def witness(monitor: str, kind: str, site: str, **detail: Any) -> Dict[str, Any]:
    w = {"monitor": monitor, "kind": kind, "site": site}
    for k, v in detail.items():
        w[k] = jsonable(v)
    return w


def crash_witness(exc: BaseException, monitor: str = "crash", where: str = "", **detail) -> Dict[str, Any]:
    """Witness for an exception that escaped the code under observation."""
    tb = traceback.extract_tb(exc.__traceback__)
    root = repo_root()
    site = "?"
    for fr in reversed(tb):
        fn = os.path.abspath(fr.filename)
        if fn.startswith(root + os.sep):
            site = f"{os.path.relpath(fn, root)}:{fr.name}"
            break
    return witness(
        monitor,
        "exception:" + type(exc).__name__,
        site,
        where=where,
        message=str(exc)[:300],
        tb=[f"{os.path.basename(f.filename)}:{f.lineno}:{f.name}" for f in tb[-8:]],
        **detail,
    )


class Recorder:
    """Per-case collector handed to monitors."""

    def __init__(self) -> None:
        self.witnesses: List[Dict[str, Any]] = []
        self.counters: Counter = Counter()
        self.extra: Dict[str, Any] = {}
        self.nontrivial = False

    def hit(self, name: str, n: int = 1) -> None:
        self.counters[name] += n

    def violate(self, monitor: str, kind: str, site: str, **detail: Any) -> None:
        # cap identical (monitor, kind, site) per case so one defect does not flood
        key = (monitor, kind, site)
        n = sum(1 for w in self.witnesses if (w["monitor"], w["kind"], w["site"]) == key)
        self.counters["witnesses_total"] += 1
        if n < 3:
            self.witnesses.append(witness(monitor, kind, site, **detail))

    def crash(self, exc: BaseException, monitor: str = "crash", where: str = "", **detail) -> None:
        self.counters["witnesses_total"] += 1
        self.witnesses.append(crash_witness(exc, monitor, where, **detail))

    def result(self) -> Dict[str, Any]:
        return {
            "witnesses": self.witnesses,
            "counters": dict(self.counters),
            "nontrivial": bool(self.nontrivial),
            "extra": self.extra,
        }


class CaseTimeout(BaseException):
    """Raised by the per-case watchdog (SIGALRM).  A BaseException so that `except Exception` blocks in monitors or
    in the code under observation cannot swallow it and turn a watchdog firing into a spurious comparison result."""


def _alarm(signum, frame):  # pragma: no cover
    raise CaseTimeout()


def case_hash(case: Any) -> str:
    return hashlib.sha256(json.dumps(case, sort_keys=True, default=str).encode()).hexdigest()[:16]


# --------------------------------------------------------------------------
# known findings
# --------------------------------------------------------------------------
def load_known(prop: str) -> List[Dict[str, Any]]:
    if not os.path.exists(KNOWN_FILE):
        return []
    with open(KNOWN_FILE) as f:
        data = json.load(f)
    return [e for e in data.get("findings", []) if e.get("property") == prop and e.get("status") == "known"]


def _match_value(pat: Any, val: Any) -> bool:
    if isinstance(pat, list):
        return any(_match_value(p, val) for p in pat)
    if isinstance(pat, str) and pat.startswith("re:"):
        import re

        return isinstance(val, str) and re.search(pat[3:], val) is not None
    return pat == val


def match_known(w: Dict[str, Any], known: List[Dict[str, Any]]) -> Optional[Dict[str, Any]]:
    for e in known:
        pred = e.get("match", {})
        if pred and all(_match_value(v, w.get(k)) for k, v in pred.items()):
            return e
    return None


# --------------------------------------------------------------------------
# shard worker
# --------------------------------------------------------------------------
def _run_one(mod, case, timeout_s: float) -> Dict[str, Any]:
    t0 = time.time()
    try:
        # a watchdog that fired inside torch.no_grad().__enter__/__exit__ of an earlier case can leave autograd
        # switched off in this worker; every case starts from the default
        import torch

        torch.set_grad_enabled(True)
    except Exception:
        pass
    old = signal.signal(signal.SIGALRM, _alarm)
    signal.setitimer(signal.ITIMER_REAL, timeout_s)
    try:
        res = mod.run_case(case)
        status = "ok"
    except CaseTimeout:
        res = {"witnesses": [], "counters": {}, "nontrivial": False, "extra": {}}
        status = "timeout"
    except BaseException as e:  # escaped the monitors: the code under test crashed
        if isinstance(e, (KeyboardInterrupt, SystemExit)):
            raise
        res = {
            "witnesses": [crash_witness(e, "crash", "run_case")],
            "counters": {},
            "nontrivial": True,
            "extra": {},
        }
        status = "ok"
    finally:
        signal.setitimer(signal.ITIMER_REAL, 0)
        signal.signal(signal.SIGALRM, old)
    res["status"] = status
    res["wall"] = round(time.time() - t0, 4)
    return res


def _shard_main(mod_name: str, shard_cases, out_path: str, timeout_s: float, seed: int) -> None:
    try:
        mod = importlib.import_module(mod_name)
        try:
            import torch

            torch.set_num_threads(1)
        except Exception:
            pass
        with open(out_path, "w") as out:
            for idx, case in shard_cases:
                res = _run_one(mod, case, timeout_s)
                res["idx"] = idx
                out.write(json.dumps(res, default=str) + "\n")
                out.flush()
    except BaseException:
        traceback.print_exc()
        os._exit(3)
    os._exit(0)


# --------------------------------------------------------------------------
# supervisor
# --------------------------------------------------------------------------
def run_check(prop: str, tier: str, seed: int, replay: Optional[str] = None) -> int:
    t_start = time.time()
    setup_paths()
    mod_name = f"vf.props.{prop.lower()}"
    mod = importlib.import_module(mod_name)
    if hasattr(mod, "preload"):
        mod.preload()
    assert_source()

    if replay:
        with open(replay) as f:
            rep = json.load(f)
        case_list = [rep["case"]]
    else:
        case_list = list(mod.cases(tier, seed))
    n = len(case_list)
    timeout_s = float(getattr(mod, "CASE_TIMEOUT_S", 120.0))
    shard_budget = float(getattr(mod, "SHARD_TIMEOUT_S", 1500.0 if tier == "quick" else 6 * 3600.0))
    serial = bool(getattr(mod, "SERIAL", False)) or n <= 1

    os.makedirs(WORK_DIR, exist_ok=True)
    results: Dict[int, Dict[str, Any]] = {}
    indexed = list(enumerate(case_list))
    if serial:
        for idx, case in indexed:
            r = _run_one(mod, case, timeout_s)
            r["idx"] = idx
            results[idx] = r
    else:
        nshards = max(1, min(NCPU, n))
        ctx = mp.get_context("fork")
        procs = []
        for s in range(nshards):
            part = indexed[s::nshards]
            out = os.path.join(WORK_DIR, f"{prop}-{os.getpid()}-{s}.jsonl")
            p = ctx.Process(target=_shard_main, args=(mod_name, part, out, timeout_s, seed))
            p.start()
            procs.append((p, out))
        deadline = time.time() + shard_budget
        for p, out in procs:
            p.join(max(1.0, deadline - time.time()))
            if p.is_alive():
                p.kill()
                p.join(5)
        for p, out in procs:
            if os.path.exists(out):
                with open(out) as f:
                    for line in f:
                        try:
                            r = json.loads(line)
                        except Exception:
                            continue
                        results[r["idx"]] = r
                os.remove(out)

    # ---------------- second chance for cases that were lost or hit the watchdog
    # On a loaded host a stall can trip the per-case watchdog of trivial cases; before a case is declared
    # inconclusive it is run once more, serially in the supervisor (bounded number, same watchdog).
    if not serial:
        retry = [(i, c) for i, c in indexed if results.get(i) is None or results[i].get("status") == "timeout"]
        budget = int(getattr(mod, "RETRY_LIMIT", 48))
        for i, c in retry[:budget]:
            r = _run_one(mod, c, timeout_s)
            r["idx"] = i
            r["retried"] = True
            results[i] = r
        n_retried = len(retry[:budget])
    else:
        n_retried = 0

    # ---------------- merge
    known = load_known(prop)
    counters: Counter = Counter()
    nontrivial_hashes = set()
    inconclusive: List[str] = []
    violations: List[Dict[str, Any]] = []
    known_seen: Dict[str, int] = Counter()
    known_examples: Dict[str, Any] = {}
    extras: List[Any] = []
    for idx, case in indexed:
        r = results.get(idx)
        if r is None:
            inconclusive.append(f"case {idx} lost (shard died or watchdog)")
            continue
        if r.get("status") == "timeout":
            inconclusive.append(f"case {idx} hit the per-case watchdog ({timeout_s}s)")
            continue
        for k, v in r.get("counters", {}).items():
            if isinstance(v, (int, float)):
                counters[k] += v
        if r.get("nontrivial"):
            nontrivial_hashes.add(case_hash(case))
        if r.get("extra"):
            extras.append(r["extra"])
        for w in r.get("witnesses", []):
            e = match_known(w, known)
            if e is not None:
                known_seen[e["key"]] += 1
                known_examples.setdefault(e["key"], {"case": case, "witness": w})
            else:
                violations.append({"case": case, "witness": w, "idx": idx})

    ctx = {
        "tier": tier,
        "seed": seed,
        "cases": case_list,
        "results": results,
        "counters": counters,
        "violations": violations,
        "inconclusive": inconclusive,
    }
    extra_cov: Dict[str, Any] = {}
    if hasattr(mod, "finalize"):
        extra_cov = mod.finalize(ctx) or {}

    # deciding monitors must have been reached
    # (a replay runs a single case: it cannot reach every deciding monitor and is judged on its witnesses only)
    required = [] if replay else getattr(mod, "REQUIRED_COUNTERS", [])
    for name in required:
        if counters.get(name, 0) <= 0:
            inconclusive.append(f"deciding monitor '{name}' never evaluated")

    # ---------------- report
    lines: List[str] = []
    for key, cnt in sorted(known_seen.items()):
        e = next(x for x in known if x["key"] == key)
        lines.append(f"KNOWN-FINDING: property={prop} {e.get('what', key)} [key={key} witnesses={cnt}]")
    replay_paths = []
    if violations:
        os.makedirs(REPLAY_DIR, exist_ok=True)
        seen_sig = set()
        for v in violations:
            w = v["witness"]
            sig = (w.get("monitor"), w.get("kind"), w.get("site"))
            if sig in seen_sig and len(replay_paths) >= 1:
                continue
            seen_sig.add(sig)
            if len(replay_paths) >= 12:
                break
            h = case_hash([v["case"], sig])
            path = os.path.join(REPLAY_DIR, f"{prop}-{h}.json")
            with open(path, "w") as f:
                json.dump(
                    {"property": prop, "tier": tier, "seed": seed, "case": v["case"], "witness": w},
                    f,
                    indent=1,
                    default=str,
                )
            replay_paths.append(path)
            lines.append(f"VIOLATION property={prop} replay={path}")
            lines.append(f"  witness: {json.dumps(w, default=str)[:600]}")

    # full list of violating witnesses of the last run (debug aid, git-ignored)
    try:
        with open(os.path.join(WORK_DIR, f"{prop}-violations.jsonl"), "w") as f:
            for v in violations:
                f.write(json.dumps({"case": v["case"], "witness": v["witness"]}, default=str) + "\n")
    except OSError:
        pass

    sample_idx = sorted(results)[:: max(1, len(results) // 4)][:4]
    samples = [case_list[i] for i in sample_idx] or case_list[:1]
    coverage = {
        "evaluations": len(results),
        "distinct_nontrivial": len(nontrivial_hashes),
        "rule": getattr(mod, "RULE", ""),
        "samples": jsonable(samples),
        "monitor_counters": dict(counters),
        "known_findings_seen": dict(known_seen),
        "inconclusive_cases": len(inconclusive),
        "violating_witnesses": len(violations),
        "cases_generated": n,
        "cases_retried_after_watchdog": n_retried,
    }
    if known_examples:
        coverage["known_finding_examples"] = jsonable(known_examples)
    coverage.update(extra_cov)
    evidence = {
        "property_id": prop,
        "tier": tier,
        "seed": seed,
        "level": getattr(mod, "LEVEL", "exploration"),
        "coverage": coverage,
        "assumptions": list(getattr(mod, "ASSUMPTIONS", [])),
        "wall_s": round(time.time() - t_start, 2),
        "violations": len(violations),
    }
    if not replay:
        os.makedirs(EVIDENCE_DIR, exist_ok=True)
        # evidence is only evidence when the run observed /repo itself; runs against a scratch tree
        # (AGILERL_SRC, used to validate monitors against seeded breaks) go to the git-ignored work dir
        real = os.path.realpath(repo_root()) == os.path.realpath("/repo")
        dest = os.path.join(EVIDENCE_DIR, f"{prop}.json") if real else os.path.join(WORK_DIR, f"{prop}.scratch.json")
        tmp = dest + ".tmp"
        with open(tmp, "w") as f:
            json.dump(evidence, f, indent=1, default=str)
        os.replace(tmp, dest)

    for ln in lines:
        print(ln)
    summary = (
        f"[{prop}] tier={tier} seed={seed} cases={len(results)}/{n} nontrivial={len(nontrivial_hashes)} "
        f"violations={len(violations)} known={sum(known_seen.values())} inconclusive={len(inconclusive)} "
        f"wall={evidence['wall_s']}s"
    )
    print(summary)
    top = ", ".join(f"{k}={int(v) if float(v).is_integer() else round(v, 3)}" for k, v in sorted(counters.items())[:40])
    print(f"[{prop}] monitors: {top}")
    if violations:
        return 1
    if inconclusive:
        for msg in inconclusive[:10]:
            print(f"INCONCLUSIVE property={prop} reason={msg}")
        return 2
    return 0
