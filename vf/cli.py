import argparse
import os
import sys

HERE = os.path.dirname(os.path.abspath(__file__))
sys.path.insert(0, os.path.dirname(HERE))


def main() -> int:
    ap = argparse.ArgumentParser()
    ap.add_argument("property")
    ap.add_argument("--tier", default=os.environ.get("VERIF_TIER", "quick"), choices=["quick", "thorough"])
    ap.add_argument("--replay", default=None)
    ap.add_argument("--seed", type=int, default=int(os.environ.get("VERIF_SEED", "0")))
    a = ap.parse_args()
    from vf import core

    return core.run_check(a.property.upper(), a.tier, a.seed, a.replay)


if __name__ == "__main__":
    rc = main()
    sys.stdout.flush()
    os._exit(rc)
