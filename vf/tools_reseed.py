"""Re-run the checks against every kept seeded regression (regression test of the checks themselves).

    /venv/bin/python vf/tools_reseed.py [-j 4] [ID-n ...]

For every /verif/seeded/<ID>-<n>/patch.diff: scratch copy of /repo's tracked files under /tmp/scr_reseed_<ID>_<n>, apply the
patch (reported when it no longer applies to the current tree), run `./check <prop> --tier quick` with AGILERL_SRC for every
property that detected it when it was recorded, store the outcome under meta.json["recheck"], remove the scratch copy.
Nothing is applied to /repo.
"""

import json
import os
import shutil
import subprocess
import sys
import time
from concurrent.futures import ThreadPoolExecutor

VERIF = os.path.dirname(os.path.dirname(os.path.abspath(__file__)))


def sh(cmd, cwd=None, env=None, timeout=3600):
    p = subprocess.run(cmd, cwd=cwd, env=env, stdout=subprocess.PIPE, stderr=subprocess.STDOUT, text=True, timeout=timeout)
    return p.returncode, p.stdout


def one(name):
    d = os.path.join(VERIF, "seeded", name)
    meta_p = os.path.join(d, "meta.json")
    patch = os.path.join(d, "patch.diff")
    if not (os.path.exists(meta_p) and os.path.exists(patch)):
        return name, "no patch", {}
    meta = json.load(open(meta_p))
    props = [p for p, c in (meta.get("checks") or {}).items() if c.get("detected")] or [name.split("-")[0]]
    scr = f"/tmp/scr_reseed_{name.replace('-', '_')}"
    shutil.rmtree(scr, ignore_errors=True)
    os.makedirs(scr)
    rc, out = sh(["bash", "-c", f"cd /repo && git ls-files -z | rsync -a --from0 --files-from=- /repo/ {scr}/"])
    res = {"repo_commit": sh(["git", "-C", "/repo", "rev-parse", "--short", "HEAD"])[1].strip(), "when": time.strftime("%Y-%m-%d %H:%M")}
    rc, out = sh(["git", "apply", "--unsafe-paths", "--directory", scr, patch], cwd="/")
    if rc != 0:
        rc, out = sh(["git", "apply", "--3way", "--unsafe-paths", "--directory", scr, patch], cwd="/")
    if rc != 0:
        # fuzzy last resort
        rc, out = sh(["patch", "-p1", "-d", scr, "-i", patch, "--fuzz=3", "-s"])
    if rc != 0:
        res["applies"] = False
        res["note"] = out[-300:]
        status = "patch no longer applies"
    else:
        res["applies"] = True
        res["props"] = {}
        status = "MISSED"
        for p in props:
            env = dict(os.environ, AGILERL_SRC=scr, PYTHONHASHSEED="0", OMP_NUM_THREADS="1", MKL_NUM_THREADS="1")
            rc, out = sh([os.path.join(VERIF, "check"), p, "--tier", "quick"], cwd=VERIF, env=env, timeout=7200)
            summ = next((ln for ln in out.splitlines() if ln.startswith(f"[{p}] tier")), "")
            res["props"][p] = {"exit": rc, "summary": summ[:200]}
            if rc == 1:
                status = "caught"
    meta["recheck"] = res
    json.dump(meta, open(meta_p, "w"), indent=1)
    shutil.rmtree(scr, ignore_errors=True)
    return name, status, res.get("props", {})


def main():
    args = sys.argv[1:]
    j = 4
    if args and args[0] == "-j":
        j = int(args[1])
        args = args[2:]
    names = args or sorted(x for x in os.listdir(os.path.join(VERIF, "seeded")) if os.path.isdir(os.path.join(VERIF, "seeded", x)))
    bad = 0
    with ThreadPoolExecutor(max_workers=j) as ex:
        for name, status, props in ex.map(one, names):
            print(name, status, {p: v["summary"][-70:] for p, v in props.items()}, flush=True)
            if status != "caught":
                bad += 1
    print(f"done: {len(names)} seeded changes, {bad} not caught / not applicable")


if __name__ == "__main__":
    main()
