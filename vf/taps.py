"""Frame taps: read named locals of a *specific* function of the code under observation
without touching its source (CPython >= 3.12, ``sys.monitoring``).

    tap = FrameTap("c17")
    tap.on_return(PPO.learn, ["rewards", "dones", "values", "advantages"], label="learn.return")
    tap.on_line(PPO.learn, "for epoch in range(self.update_epochs)", ["experiences"],
                label="learn.pre_loop", first_only=True)
    with tap:
        agent.learn(experiences)
    for r in tap.records: r.label, r.values[name], r.missing
    tap.problems        # non-empty => observability lost => the case is INCONCLUSIVE, never "held"

* Events are *local* (``sys.monitoring.set_local_events(tool, code, ...)``): only the tapped
  code objects pay; nothing else in the process is slowed down.
* ``on_return`` fires on ``PY_RETURN`` of the code object, i.e. the locals as they are when the
  function returns.  ``on_line`` fires on the ``LINE`` event of the first source line of the function
  that contains ``marker`` (searched in the source text at run time - never a hard-coded line
  number), i.e. *before* that line executes; use it for locals that are rebound or deleted later.
  ``on_line(..., after_block=True)`` taps the first statement after the loop / with-block whose header
  contains ``marker`` ("the locals right after the GAE loop"), located with ``ast``.
* A requested local that does not exist in the frame is listed in ``record.missing`` and in
  ``tap.problems``; a marker that is not found or does not sit on an executable line is reported the
  same way; probes that never fired are listed by ``tap.unfired()`` (``tap.observability_lost()``
  gives everything at once).  None of these may be read as "property held".
* The callbacks never raise into the observed code (exceptions are stored in ``tap.problems``).
* The tool id is taken from the free ids (``sys.monitoring.use_tool_id``) on ``__enter__`` and freed
  on ``__exit__``; all local events set by the tap are cleared.
"""

from __future__ import annotations

import inspect
import sys
from typing import Any, Callable, Dict, List, Optional, Sequence, Tuple, Union

_MON = getattr(sys, "monitoring", None)

# preference order: the ids CPython does not reserve by convention (3, 4), then the reserved-but-usually-free ones
_TOOL_ID_ORDER = (4, 3, 2, 1, 5, 0)


_LINE_CACHE: Dict[Any, Tuple[Optional[int], str]] = {}


class TapUnavailable(RuntimeError):
    pass


def _is_watchdog(e: BaseException) -> bool:
    # the runner's per-case watchdog (vf.core.CaseTimeout, raised from a signal handler) must pass through
    return type(e).__name__ in ("CaseTimeout", "KeyboardInterrupt")


def snapshot(x: Any, depth: int = 0) -> Any:
    """Copy of a local that later in-place writes / rebinding cannot change.

    torch tensors -> detached clone on cpu, numpy arrays -> copy, dict/list/tuple recursively,
    everything else (numbers, strings, objects such as ``self``) by reference.
    """
    if depth > 8:
        return x
    mod = type(x).__module__ or ""
    if mod.startswith("torch") and hasattr(x, "detach") and hasattr(x, "clone"):
        try:
            return x.detach().clone().cpu()
        except Exception:
            return x
    if mod.startswith("numpy") and hasattr(x, "copy") and hasattr(x, "dtype"):
        try:
            return x.copy()
        except Exception:
            return x
    if isinstance(x, dict):
        return {k: snapshot(v, depth + 1) for k, v in x.items()}
    if isinstance(x, tuple):
        return tuple(snapshot(v, depth + 1) for v in x)
    if isinstance(x, list):
        return [snapshot(v, depth + 1) for v in x]
    return x


def code_of(target: Any):
    """Code object of a function / method / classmethod / decorated function / code object."""
    if inspect.iscode(target):
        return target
    f = target
    for _ in range(16):
        if isinstance(f, (staticmethod, classmethod)):
            f = f.__func__
            continue
        if inspect.ismethod(f):
            f = f.__func__
            continue
        if hasattr(f, "__wrapped__"):
            f = f.__wrapped__
            continue
        break
    code = getattr(f, "__code__", None)
    if code is None:
        raise TapUnavailable(f"no code object behind {target!r}")
    return code


def find_line(code, marker: str) -> Tuple[Optional[int], str]:
    """Line number (absolute, in the file) of the first *executable* line of ``code`` whose source
    text contains ``marker``; (None, reason) if there is none."""
    try:
        lines, start = inspect.getsourcelines(code)
    except (OSError, TypeError) as e:
        return None, f"source of {code.co_name} unavailable: {e}"
    executable = {ln for (_s, _e, ln) in code.co_lines() if ln is not None}
    seen_text = False
    for i, text in enumerate(lines):
        if marker in text:
            seen_text = True
            if text.lstrip().startswith("#"):
                continue
            if start + i in executable:
                return start + i, ""
    if seen_text:
        return None, f"marker {marker!r} found in {code.co_name} but not on an executable line of that code object"
    return None, f"marker {marker!r} not found in the source of {code.co_name}"


def find_line_after_block(code, marker: str) -> Tuple[Optional[int], str]:
    """Line number of the first statement that executes after the *compound statement* (for / while /
    with / if / try) whose header line contains ``marker`` has completed normally: its next sibling, or -
    when it is the last statement of an enclosing ``with`` / ``if`` / ``try`` body - the next sibling of
    that enclosing statement, and so on.  Found structurally (``ast``) in the source at run time.

    Use it to read locals "right after loop X" without naming the statement that happens to follow."""
    import ast

    try:
        lines, start = inspect.getsourcelines(code)
    except (OSError, TypeError) as e:
        return None, f"source of {code.co_name} unavailable: {e}"
    src = "".join(lines)
    shift = 0
    try:
        tree = ast.parse(src)
    except SyntaxError:
        try:
            tree = ast.parse("if 1:\n" + src)  # indented method source
            shift = 1
        except SyntaxError as e:
            return None, f"source of {code.co_name} cannot be parsed: {e}"
    compound = (ast.For, ast.While, ast.With, ast.If, ast.Try, ast.AsyncFor, ast.AsyncWith)
    loops = (ast.For, ast.While, ast.AsyncFor)

    def bodies(node):
        for field in ("body", "orelse", "finalbody"):
            b = getattr(node, field, None)
            if isinstance(b, list) and b and isinstance(b[0], ast.stmt):
                yield b
        for h in getattr(node, "handlers", []) or []:
            yield h.body

    # path = list of (parent_node, body_list, index) from the function down to the marked statement
    def search(node, path):
        for b in bodies(node):
            for i, st in enumerate(b):
                here = path + [(node, b, i)]
                if isinstance(st, compound) and not isinstance(st, (ast.FunctionDef, ast.AsyncFunctionDef, ast.ClassDef)):
                    text = lines[st.lineno - 1 - shift] if 0 <= st.lineno - 1 - shift < len(lines) else ""
                    if marker in text:
                        return here
                if not isinstance(st, (ast.FunctionDef, ast.AsyncFunctionDef, ast.ClassDef, ast.Lambda)):
                    r = search(st, here)
                    if r is not None:
                        return r
        return None

    func = None
    for n in ast.walk(tree):
        if isinstance(n, (ast.FunctionDef, ast.AsyncFunctionDef)):
            func = n
            break
    if func is None:
        return None, f"no function definition in the source of {code.co_name}"
    path = search(func, [])
    if path is None:
        return None, f"no compound statement with marker {marker!r} in the source of {code.co_name}"
    executable = {ln for (_s, _e, ln) in code.co_lines() if ln is not None}
    for parent, body, i in reversed(path):
        if i + 1 < len(body):
            ln = start + body[i + 1].lineno - 1 - shift
            if ln in executable:
                return ln, ""
            return None, f"statement after the block marked {marker!r} is not an executable line of {code.co_name}"
        if isinstance(parent, loops):
            return None, f"block marked {marker!r} ends the body of a loop: 'the statement after it' is ambiguous"
    return None, f"block marked {marker!r} is the last statement of {code.co_name}"


class TapRecord:
    __slots__ = ("label", "event", "values", "missing", "seq", "line")

    def __init__(self, label, event, values, missing, seq, line=None):
        self.label = label
        self.event = event
        self.values = values
        self.missing = missing
        self.seq = seq
        self.line = line

    def __repr__(self):
        return f"TapRecord({self.label!r}, {self.event}, got={sorted(self.values)}, missing={self.missing})"


class _Probe:
    __slots__ = ("label", "code", "event", "names", "line", "first_only", "fired", "marker", "raw", "optional")

    def __init__(self, label, code, event, names, line=None, first_only=False, marker=None, raw=(), optional=()):
        self.label = label
        self.code = code
        self.event = event
        self.optional = [n for n in optional if n not in names]
        self.names = list(names)
        self.line = line
        self.first_only = first_only
        self.fired = 0
        self.marker = marker
        self.raw = set(raw)


class FrameTap:
    """One monitoring tool id, any number of probes on any number of code objects."""

    def __init__(self, name: str = "vf-tap"):
        self.name = name
        self.records: List[TapRecord] = []
        self.problems: List[str] = []
        self._probes: List[_Probe] = []
        self._tool: Optional[int] = None
        self._seq = 0
        self._by_code: Dict[Any, List[_Probe]] = {}

    # ------------------------------------------------------------------ declaration
    def on_return(
        self,
        target,
        names: Sequence[str],
        label: Optional[str] = None,
        raw: Sequence[str] = (),
        optional: Sequence[str] = (),
    ) -> "FrameTap":
        """Copy ``names`` out of the frame when ``target`` returns.  ``raw`` names are kept by reference.
        ``optional`` names are copied when present; their absence is not a problem (locals that only
        exist on some paths, e.g. inside a loop body that may not run)."""
        try:
            code = code_of(target)
        except TapUnavailable as e:
            self.problems.append(str(e))
            return self
        self._probes.append(_Probe(label or f"{code.co_name}.return", code, "return", names, raw=raw, optional=optional))
        return self

    def on_line(
        self,
        target,
        marker: Union[str, Sequence[str]],
        names: Sequence[str],
        label: Optional[str] = None,
        first_only: bool = True,
        raw: Sequence[str] = (),
        optional: Sequence[str] = (),
        after_block: bool = False,
    ) -> "FrameTap":
        """Copy ``names`` out of the frame just before the first executable line containing ``marker``
        runs.  ``marker`` may be a list of alternatives (first one found wins).  With ``first_only`` only
        the first execution of that line per call of ``target`` (= per frame) is recorded.
        ``after_block=True``: ``marker`` names the header of a compound statement (e.g. a ``for`` loop) and
        the tapped line is the first statement that runs after that block (see ``find_line_after_block``)."""
        try:
            code = code_of(target)
        except TapUnavailable as e:
            self.problems.append(str(e))
            return self
        markers = [marker] if isinstance(marker, str) else list(marker)
        line, why = None, ""
        for m in markers:
            key = (code, m, bool(after_block))
            if key not in _LINE_CACHE:  # source parsing costs milliseconds; a code object's source does not change
                _LINE_CACHE[key] = (find_line_after_block if after_block else find_line)(code, m)
            line, why = _LINE_CACHE[key]
            if line is not None:
                marker = m
                break
        lab = label or f"{code.co_name}.line"
        if line is None:
            self.problems.append(f"probe {lab}: {why}")
            return self
        self._probes.append(
            _Probe(lab, code, "line", names, line=line, first_only=first_only, marker=marker, raw=raw, optional=optional)
        )
        return self

    # ------------------------------------------------------------------ install / remove
    def __enter__(self) -> "FrameTap":
        if _MON is None:
            self.problems.append("sys.monitoring not available (needs CPython >= 3.12)")
            return self
        tool = None
        for tid in _TOOL_ID_ORDER:
            try:
                if _MON.get_tool(tid) is None:
                    _MON.use_tool_id(tid, self.name)
                    tool = tid
                    break
            except ValueError:
                continue
        if tool is None:
            self.problems.append("no free sys.monitoring tool id")
            return self
        self._tool = tool
        self._by_code = {}
        for p in self._probes:
            self._by_code.setdefault(p.code, []).append(p)
        ev = _MON.events
        _MON.register_callback(tool, ev.PY_RETURN, self._cb_return)
        _MON.register_callback(tool, ev.LINE, self._cb_line)
        _MON.register_callback(tool, ev.PY_START, self._cb_start)
        for code, probes in self._by_code.items():
            mask = 0
            if any(p.event == "return" for p in probes):
                mask |= ev.PY_RETURN
            if any(p.event == "line" for p in probes):
                mask |= ev.LINE | ev.PY_START
            _MON.set_local_events(tool, code, mask)
        # lines switched off with DISABLE by an earlier tap on the same code object must fire again
        _MON.restart_events()
        return self

    def __exit__(self, *exc) -> bool:
        tool, self._tool = self._tool, None
        if tool is None or _MON is None:
            return False
        ev = _MON.events
        try:
            for code in self._by_code:
                _MON.set_local_events(tool, code, 0)
            for e in (ev.PY_RETURN, ev.LINE, ev.PY_START):
                _MON.register_callback(tool, e, None)
        finally:
            try:
                _MON.free_tool_id(tool)
            except Exception as e:  # pragma: no cover
                self.problems.append(f"free_tool_id failed: {e!r}")
        return False

    # ------------------------------------------------------------------ callbacks (never raise)
    def _grab(self, probe: _Probe, frame, line=None) -> None:
        loc = frame.f_locals
        values, missing = {}, []
        for n in probe.names:
            if n in loc:
                values[n] = loc[n] if n in probe.raw else snapshot(loc[n])
            else:
                missing.append(n)
        for n in probe.optional:
            if n in loc:
                values[n] = loc[n] if n in probe.raw else snapshot(loc[n])
        probe.fired += 1
        self._seq += 1
        self.records.append(TapRecord(probe.label, probe.event, values, missing, self._seq, line))
        if missing:
            self.problems.append(f"probe {probe.label}: local(s) {missing} not present in frame of {probe.code.co_name}")

    def _cb_start(self, code, offset):
        # a new frame of a tapped code object: re-arm first_only line probes (per call, not per process)
        try:
            self._frames_seen = getattr(self, "_frames_seen", {})
            for p in self._by_code.get(code, ()):
                if p.event == "line":
                    self._frames_seen[p.label] = None
        except Exception as e:  # pragma: no cover
            if _is_watchdog(e):
                raise
            self.problems.append(f"tap callback error (start): {e!r}")
        return None

    def _cb_return(self, code, offset, retval):
        try:
            probes = self._by_code.get(code)
            if not probes:
                return None
            frame = sys._getframe(1)
            if frame.f_code is not code:
                self.problems.append(f"return tap on {code.co_name}: unexpected frame {frame.f_code.co_name}")
                return None
            for p in probes:
                if p.event == "return":
                    self._grab(p, frame)
        except Exception as e:
            if _is_watchdog(e):
                raise
            self.problems.append(f"tap callback error (return): {e!r}")
        return None

    def _cb_line(self, code, line):
        try:
            probes = self._by_code.get(code)
            if not probes:
                return _MON.DISABLE
            wanted = [p for p in probes if p.event == "line" and p.line == line]
            if not wanted:
                return _MON.DISABLE  # this (code, line) location stops reporting: cost only on tapped lines
            frame = sys._getframe(1)
            if frame.f_code is not code:
                self.problems.append(f"line tap on {code.co_name}: unexpected frame {frame.f_code.co_name}")
                return None
            seen = getattr(self, "_frames_seen", None)
            if seen is None:
                seen = self._frames_seen = {}
            for p in wanted:
                if p.first_only:
                    if seen.get(p.label) == id(frame):
                        continue
                    seen[p.label] = id(frame)
                self._grab(p, frame, line)
        except Exception as e:
            if _is_watchdog(e):
                raise
            self.problems.append(f"tap callback error (line): {e!r}")
        return None

    # ------------------------------------------------------------------ reading
    def get(self, label: str) -> List[TapRecord]:
        return [r for r in self.records if r.label == label]

    def unfired(self) -> List[str]:
        """Labels of probes that were declared but never fired (observability lost if they should have)."""
        return [p.label for p in self._probes if p.fired == 0]

    def observability_lost(self) -> List[str]:
        """Everything that forbids reading the run as "held": declaration / callback problems, missing
        locals, probes that never fired.  (A probe on a function that raised does not fire on return -
        callers that expect exceptions should look at ``problems`` and ``unfired()`` separately.)"""
        return list(self.problems) + [f"probe {lab} never fired" for lab in self.unfired()]

    def clear(self) -> None:
        self.records.clear()
        for p in self._probes:
            p.fired = 0
