"""C17 - advantage estimation follows its definition (GAE), respects episode boundaries per
environment and agent, and every estimate / old log-prob / old value stays in the row of the
observation and action it was computed for.

Technique: `sys.monitoring` frame taps (vf/taps.py) on the real `PPO.learn` and
`IPPO._learn_individual` + a float64 reference model of the *statement* (vf/refmodels/gae.py) +
id-encoded rollouts in exactly the format `train_on_policy` / `train_multi_agent_on_policy` build
(done flags recorded one step late, `next_done` separate).

Every number that enters a rollout is *injective* in (agent, env, step): observation leaf
`[gid/64, features(gid)]`, action `gid` (Discrete) or `gid/64 + 4k` (Box component k), log-prob,
value and reward from per-case tables of pairwise distinct float32 numbers.  Whatever the code does
with the arrays, every element of a tapped array can be traced back to the sample it came from.

In ~38% of the cases gamma / gae_lambda are changed after the agent was constructed (assignment, RL
hyper-parameter mutation, assignment + clone(), save_checkpoint + load_checkpoint into an agent built with
other values); the reference always uses the agent's attribute values at learn time, so estimates computed
from numbers cached at construction time show up as gae_recursion / advantage_follows_constructor_time_gamma_lambda.

Monitors (monitor / kind strings are mechanism names, see the bottom of `_analyse`):
  gae_inputs       columns of the tapped (rewards, values, dones, next_done) arrays that the recursion runs
                   over belong to one (agent, env) each, in time order, rollout length preserved
  bootstrap_value  tapped next_value[column] == critic(final next observation of that agent and env)
  gae_recursion    tapped advantages == reference recursion over the tapped arrays (float64, per column)
  returns          tapped returns == advantages + values
  no_leak          metamorphic: second run differs only in rewards / values / next observation at or after
                   the first new-episode start of a column => estimates before it are unchanged
  row_alignment    the flattened (states, actions, log_probs, advantages, returns, values) tuple just before
                   the minibatch loop: all six entries of a row decode to the same (agent, env, step); every
                   sample of the policy group is present exactly once
  loss_application the loss terms of the (single) minibatch are one-per-sample (no (B,B) broadcast) and the
                   sampled old log-probs / advantages are the rows named by the minibatch indices
  end_to_end       safety net, only evaluated when everything above is silent: estimate paired with an
                   observation == reference computed from what the driver fed
"""

from __future__ import annotations

import itertools

import numpy as np

from vf.core import Recorder

PROPERTY = "C17"
LEVEL = "exploration"
RULE = (
    "case = (PPO|IPPO, vectorised or not, T 1..8, envs 1..4, agents sharing a policy 1..3 (+0..1 agent with its own "
    "policy), vector|dict observation, Discrete|Box(1)|Box(2) action, gamma, lambda in {0,.5,.95,1} (a quarter of the "
    "random cases: uniform in [0,1]), in ~38% of the cases gamma / gae_lambda are changed AFTER construction (plain "
    "assignment | Mutations.rl_hyperparam_mutation with gamma, gae_lambda in the HyperparameterConfig | assignment then "
    "clone() | save_checkpoint + load_checkpoint into an agent built with other values) and the oracle uses the agent's "
    "current attribute values, done flags "
    "d_1..d_T (d_T = next_done) per (agent, env) column, id|random value tables, seed); for T<=5 every one of the "
    "2^T flag patterns of column 0 is generated for each of the base configurations (exhaustive incl. first, last, "
    "next_done), thorough adds every joint pattern of two columns for T<=3; one learn call with all taps + one "
    "perturbed learn call (metamorphic no-leak) per case; non-trivial = the recursion check compared at least one "
    "column AND the flattened rows were decoded; distinct = distinct case descriptions. Second workload (mode=loop, "
    "vf/props/c17_loops.py): the real train_on_policy / train_multi_agent_on_policy run PPO / IPPO on a scripted "
    "environment (vectorised with same-step auto-reset, or a bare single environment; episodes of 2-4 steps ending in the "
    "middle of rollouts; Discrete, tight / asymmetric / wide Box actions, squashed policies) that keeps a ground-truth "
    "log; a class-level wrapper around learn() compares every stored observation, reward, done flag (one step late), "
    "next_done, next observation with the log, the action the environment received with clip/scale of the stored "
    "action, and the stored old log-prob / old value with the not-yet-updated policy at the stored observation and action"
    " Added: Tuple observation spaces (PPO and IPPO, vectorised and not)"
)
ASSUMPTIONS = [
    "gamma and gae_lambda of the estimate are the agent's attribute values at the time learn() is called (read by the "
    "driver immediately before the call), whatever the constructor was given; whether clone / load_checkpoint / the "
    "mutation carry the intended values over is C01 / C07 / C06's subject, not checked here",
    "rollouts are assembled exactly as train_on_policy / train_multi_agent_on_policy do: per-step lists, dones[0]=zeros, "
    "dones[t]=done of step t-1, next_done separate; numpy dtypes as produced by get_action / gymnasium vector envs",
    "update_epochs=1 and batch_size >= number of rows so that the taps see one pass over the data",
    "intermediate values are read with sys.monitoring taps: the GAE arrays on the first statement after the loop "
    "'for t in reversed(range(num_steps))' (found with ast), the flattened tuple just before "
    "'for epoch in range(self.update_epochs)', returns / values and the loss terms at function return; markers are "
    "searched in the source text at run time; a tap that cannot find its marker or a local, or tapped arrays of equal "
    "size but different shape (layout unknowable), make the run INCONCLUSIVE",
    "float32 tolerance of the recursion check: 4e-6 * (number of steps) * (sum of the magnitudes of the terms entering "
    "A_t); bootstrap value: 2e-5 * (1 + |v|); copies (flattened rows, no-leak) 1e-6 * (1 + |x|)",
    "the critic's value of the final next observation is recomputed by the driver before learn() with the agent's own "
    "preprocess + critic, one column at a time (observation preprocessing itself is C15's subject)",
    "the non-vectorised single-agent loop format (dones[0] = np.zeros(1) next to scalar flags) cannot be stacked for "
    "T > 1; that is a defect of the training loop (C20), recorded here as information only; non-vectorised PPO cases "
    "use scalar flags throughout",
    "minibatch sampling (get_experiences_samples) indexes all six entries with the same index vector; checked only "
    "through the sampled old log-probs / advantages of the single minibatch",
]
REQUIRED_COUNTERS = [
    "loop_logprob_checks",
    "loop_done_flag_checks",
    "tap_records",
    "gae_input_columns",
    "bootstrap_value_checks",
    "gae_recursion_columns",
    "returns_checks",
    "no_leak_columns",
    "row_alignment_rows",
    "loss_application_checks",
    "gae_recursion_columns_after_hp_change",
]
CASE_TIMEOUT_S = 120

GRID = [0.0, 0.5, 0.95, 1.0]
HP_CHANGES = ["assign", "mutation", "clone", "checkpoint"]
GAE_NAMES = ["rewards", "dones", "values", "next_value", "next_done", "advantages"]
LOSS_OPT = [
    "ratio",
    "pg_loss1",
    "v_loss_max",
    "log_prob",
    "value",
    "minibatch_idxs",
    "batch_log_probs",
    "batch_advantages",
    "batch_returns",
    "batch_values",
]
GAE_LOOP_MARKER = "for t in reversed(range(num_steps))"  # the tap sits on the first statement after this loop
LOOP_MARKER = "for epoch in range(self.update_epochs)"


def preload():
    import torch  # noqa
    import gymnasium  # noqa
    import agilerl.algorithms.ppo  # noqa
    import agilerl.algorithms.ippo  # noqa
    import agilerl.utils.algo_utils  # noqa
    import agilerl.hpo.mutation  # noqa
    import agilerl.algorithms.core.registry  # noqa
    from vf.core import quiet_torch

    quiet_torch()


# ====================================================================== cases
def _rand_flags(rng, T, ncol):
    out = []
    for _ in range(ncol):
        style = rng.integers(0, 8)
        if style == 0:
            f = [0] * T
        elif style == 1:
            f = [0] * (T - 1) + [1]  # only next_done
        elif style == 2:
            f = [1] + [0] * (T - 1)  # only after the first step
        elif style == 3:
            f = [1] * T
        else:
            p = (0.15, 0.3, 0.6, 0.3)[style - 4]
            f = [int(x) for x in (rng.random(T) < p)]
        out.append("".join(str(x) for x in f))
    return out


def _mk(rng, algo, vect, T, E, shared, other, flags=None, **kw):
    ncol = (shared + other) * E
    fl = _rand_flags(rng, T, ncol)
    if flags:
        for i, f in enumerate(flags):
            fl[i] = f
    c = {
        "algo": algo,
        "vect": bool(vect),
        "T": int(T),
        "E": int(E),
        "shared": int(shared),
        "other": int(other),
        "obs": kw.get("obs") or ("dict", "dict", "image", "vector", "vector", "tuple", "vector", "tuple")[int(rng.integers(0, 8))],
        "norm_img": bool(rng.random() < 0.5),
        "act": kw.get("act") or ("discrete", "box2", "box1")[int(rng.integers(0, 3))],
        "gamma": float(kw["gamma"]) if "gamma" in kw else float(GRID[int(rng.integers(0, 4))]),
        "lam": float(kw["lam"]) if "lam" in kw else float(GRID[int(rng.integers(0, 4))]),
        "share_enc": bool(rng.random() < 0.5),
        # gamma / gae_lambda changed AFTER construction (None = constructor values stay); "ctor" = the values the
        # agent that finally learns was constructed with (assign, clone, checkpoint)
        "hp_change": kw.get("hp_change", None if rng.random() < 0.62 else HP_CHANGES[int(rng.integers(0, len(HP_CHANGES)))]),
        "ctor": [float(GRID[int(rng.integers(0, 4))]), float(GRID[int(rng.integers(0, 4))])],
        "flags": fl,
        "mode": kw.get("mode") or ("ids" if rng.random() < 0.35 else "rand"),
        "seed": int(rng.integers(1 << 30)),
        # agent ids whose order in the environment / the dictionaries is not the lexicographic one (agent_1 before
        # agent_0; agent_9, agent_10, agent_11 as in environments with more than ten agents)
        "names": ("asc", "asc", "desc", "wide")[int(rng.integers(0, 4))],
        "reward_int": bool(rng.random() < 0.2),
    }
    if c["hp_change"] == "mutation":
        # grow / shrink of 0 stays 0: start from values a mutation really changes
        c["gamma"] = c["gamma"] if c["gamma"] > 0 else 0.5
        c["lam"] = c["lam"] if c["lam"] > 0 else 0.5
        c["ctor"] = [c["gamma"], c["lam"]]
    elif c["hp_change"] is None:
        c["ctor"] = [c["gamma"], c["lam"]]
    elif c["ctor"] == [c["gamma"], c["lam"]]:
        c["ctor"] = [round(0.9 - 0.6 * c["gamma"], 3), round(0.8 - 0.5 * c["lam"], 3)]
    return c


def cases(tier, seed):
    rng = np.random.default_rng(1700 + seed)
    out = []
    quick = tier == "quick"
    # ---- exhaustive done placement of column 0 for T <= 5 on the base configurations
    base = [
        ("PPO", True, 2, 1, 0),
        ("PPO", True, 1, 1, 0),
        ("IPPO", True, 2, 2, 1),
        ("IPPO", True, 1, 1, 0),
        ("IPPO", False, 1, 3, 1),
    ]
    if not quick:
        base += [
            ("PPO", True, 4, 1, 0),
            ("PPO", False, 1, 1, 0),
            ("IPPO", True, 3, 3, 0),
            ("IPPO", True, 4, 1, 1),
            ("IPPO", True, 1, 2, 1),
            ("IPPO", False, 1, 1, 0),
        ]
    gl = [(g, l) for g in GRID for l in GRID]
    k = int(rng.integers(0, 16))
    for algo, vect, E, shared, other in base:
        for T in range(1, 6):
            for pat in itertools.product("01", repeat=T):
                g, l = gl[k % 16]
                k += 5
                out.append(_mk(rng, algo, vect, T, E, shared, other, flags=["".join(pat)], gamma=g, lam=l))
    # ---- thorough: every joint pattern of two columns for T <= 3
    if not quick:
        for algo, vect, E, shared, other in (("PPO", True, 2, 1, 0), ("IPPO", True, 1, 2, 0), ("IPPO", True, 2, 1, 0)):
            for T in range(1, 4):
                for pat in itertools.product("01", repeat=2 * T):
                    s = "".join(pat)
                    g, l = gl[k % 16]
                    k += 5
                    out.append(_mk(rng, algo, vect, T, E, shared, other, flags=[s[:T], s[T:]], gamma=g, lam=l))
    # ---- hostile corners: every (gamma, lambda) pair, largest shapes, T = 1
    for g, l in gl:
        out.append(_mk(rng, "PPO", True, 8, 4, 1, 0, gamma=g, lam=l))
        out.append(_mk(rng, "IPPO", True, 8, 4, 3, 1, gamma=g, lam=l))
    for how in HP_CHANGES:
        for g, l in ((0.95, 0.5), (0.5, 0.95), (1.0, 0.0)):
            out.append(_mk(rng, "PPO", True, 5, 2, 1, 0, gamma=g, lam=l, hp_change=how))
            out.append(_mk(rng, "IPPO", True, 4, 2, 2, 1, gamma=g, lam=l, hp_change=how))
    for E in (1, 2, 4):
        out.append(_mk(rng, "PPO", True, 1, E, 1, 0))
        out.append(_mk(rng, "IPPO", True, 1, E, 1, 0))
        out.append(_mk(rng, "IPPO", True, 1, E, 2, 1))
    for act in ("discrete", "box1", "box2"):
        for obs in ("vector", "dict", "tuple"):
            out.append(_mk(rng, "PPO", True, 4, 3, 1, 0, act=act, obs=obs))
            out.append(_mk(rng, "PPO", False, 4, 1, 1, 0, act=act, obs=obs))
            out.append(_mk(rng, "IPPO", True, 4, 3, 2, 1, act=act, obs=obs))
            out.append(_mk(rng, "IPPO", False, 4, 1, 2, 1, act=act, obs=obs))
    # ---- random
    nrand = 380 if quick else 30000
    for _ in range(nrand):
        algo = "PPO" if rng.random() < 0.45 else "IPPO"
        vect = rng.random() < 0.85
        T = int(rng.integers(1, 9))
        if T == 1 and rng.random() < 0.5:
            T = int(rng.integers(2, 9))
        E = int(rng.integers(1, 5)) if vect else 1
        if algo == "PPO":
            shared, other = 1, 0
        else:
            shared = int(rng.integers(1, 4))
            other = int(rng.integers(0, 2))
        kw = {}
        if rng.random() < 0.25:  # off-grid discount / trace parameters
            kw = {"gamma": round(float(rng.random()), 3), "lam": round(float(rng.random()), 3)}
        out.append(_mk(rng, algo, vect, T, E, shared, other, **kw))
    # ---- second workload: the real training loops build the rollouts (vf/props/c17_loops.py)
    from vf.props.c17_loops import loop_cases

    loops = loop_cases(tier, seed)
    # spread them so that every shard gets some
    stride = max(1, len(out) // max(1, len(loops)))
    for i, c in enumerate(loops):
        out.insert(min(len(out), i * stride + i), c)
    return out


# ====================================================================== rollouts
def _f32(x):
    return float(np.float32(x))


class Rollout:
    """All data of one case, addressable by gid = (agent*E + env)*T + step + 1."""

    def __init__(self, case, perturb=False):
        self.case = case
        T, E = case["T"], case["E"]
        self.T, self.E = T, E
        style = case.get("names", "asc")
        idx = list(range(case["shared"]))
        if style == "desc":
            idx = idx[::-1]
        elif style == "wide":
            idx = [9 + i for i in idx]
        self.names = [f"agent_{i}" for i in idx] + [f"other_{i}" for i in range(case["other"])]
        self.A = len(self.names)
        self.n = self.A * E * T
        self.ncol = self.A * E
        self.vect = case["vect"]
        self.obs_kind, self.act_kind = case["obs"], case["act"]
        rng = np.random.default_rng(case["seed"])
        n = self.n
        self.feat = rng.uniform(-1.0, 1.0, (n + 2 * self.ncol + 2, 8)).astype(np.float32)
        ids_mode = case["mode"] == "ids"
        scale = 1.0 if ids_mode else float((1.0, 1.0, 25.0)[int(rng.integers(0, 3))])

        def table(sign, ids_div, spread):
            if ids_mode:
                v = sign * np.arange(0, n + 1, dtype=np.float64) / ids_div
            else:
                perm = rng.permutation(n) + 1
                jit = rng.uniform(0.0, 0.45, n)
                if sign < 0:  # log-probs: negative, never scaled up (exp(new - old) must stay finite)
                    core_ = -(perm + jit) / max(n, 1) * spread
                else:
                    core_ = (perm - n / 2.0 + jit) / max(n, 1) * spread * scale
                v = np.concatenate([[0.0], core_])
            v = v.astype(np.float32)
            assert len(set(v[1:].tolist())) == n
            return v

        self.LP = table(-1.0, 1024.0, 3.0)  # log-probs are negative
        self.V = table(1.0, 256.0, 4.0)
        self.R = table(1.0, 16.0, 4.0)
        self.reward_int = bool(case.get("reward_int"))
        if self.reward_int:
            # environments that hand out integer rewards (np.int64 arrays / python ints): pairwise distinct integers
            self.R = np.concatenate([[0.0], (rng.permutation(n) + 1 - n // 2) * 2.0]).astype(np.float32)
        self.flag = [[int(ch) for ch in s] for s in case["flags"]]
        assert len(self.flag) == self.ncol and all(len(f) == T for f in self.flag)
        self.first_boundary = [(f.index(1) + 1) if 1 in f else None for f in self.flag]
        self.next_x = [n + 1 + c for c in range(self.ncol)]
        self.perturbed = perturb
        if perturb:
            self.V = self.V.copy()
            self.R = self.R.copy()
            for c, b in enumerate(self.first_boundary):
                if b is None:
                    continue
                for t in range(b, T):
                    g = c * T + t + 1
                    self.R[g] = np.float32(self.R[g] * -2.0 + 50.0 + 3.0 * t + c)
                    self.V[g] = np.float32(self.V[g] * -1.5 + 7.0 + t + 0.5 * c)
                self.next_x[c] = n + 1 + self.ncol + c
        self.dec_lp = {_f32(self.LP[g]): g for g in range(1, n + 1)}
        self.dec_v = {_f32(self.V[g]): g for g in range(1, n + 1)}
        self.dec_r = {_f32(self.R[g]): g for g in range(1, n + 1)}

    # ---------------------------------------------------------------- ids
    def gid(self, ai, e, t):
        return (ai * self.E + e) * self.T + t + 1

    def split(self, g):
        g -= 1
        t = g % self.T
        c = g // self.T
        return c // self.E, c % self.E, t

    def lab(self, g):
        if not g or g < 1 or g > self.n:
            return "?"
        ai, e, t = self.split(int(g))
        return f"a{ai}e{e}t{t}"

    def group_of(self, ai):
        return 0 if ai < self.case["shared"] else 1

    def group_agents(self, gi):
        s = self.case["shared"]
        return list(range(s)) if gi == 0 else list(range(s, self.A))

    # ---------------------------------------------------------------- spaces / values
    def leaves(self, ai):
        """leaf name -> (offset in feature row, dim)."""
        other = ai >= self.case["shared"]
        if self.obs_kind == "dict":
            return {"a": (0, 3), "b": (3, 2)}
        if self.obs_kind == "tuple":
            return {0: (0, 3), 1: (3, 2)}  # members of a Tuple space, addressed by position
        if self.obs_kind == "image":
            return {None: (0, 8)}  # the 8 features as a (1, 2, 4) image whose bounds are not [0, 1]
        return {None: (0, 4 if other else 3)}

    def obs_space(self, ai):
        from gymnasium import spaces

        lv = self.leaves(ai)
        if self.obs_kind == "image":
            return spaces.Box(-8.0, 8.0, (1, 2, 4), np.float32)
        if None in lv:
            return spaces.Box(-8.0, 8.0, (lv[None][1],), np.float32)
        if self.obs_kind == "tuple":
            return spaces.Tuple([spaces.Box(-8.0, 8.0, (d,), np.float32) for _k, (_o, d) in sorted(lv.items())])
        return spaces.Dict({k: spaces.Box(-8.0, 8.0, (d,), np.float32) for k, (_o, d) in lv.items()})

    def act_space(self, ai):
        from gymnasium import spaces

        if self.act_kind == "discrete":
            return spaces.Discrete(self.n + 2)
        return spaces.Box(-1.0, 1.0, (self.adim(),), np.float32)

    def adim(self):
        return {"discrete": 0, "box1": 1, "box2": 2}[self.act_kind]

    def leaf_vec(self, x, off, d):
        v = self.feat[x, off : off + d].copy()
        v[0] = np.float32(x / 64.0)
        return v

    def obs_of(self, ai, x):
        lv = self.leaves(ai)
        if self.obs_kind == "image":
            return self.leaf_vec(x, *lv[None]).reshape(1, 2, 4)
        if None in lv:
            return self.leaf_vec(x, *lv[None])
        if self.obs_kind == "tuple":
            return tuple(self.leaf_vec(x, o, d) for _k, (o, d) in sorted(lv.items()))
        return {k: self.leaf_vec(x, o, d) for k, (o, d) in lv.items()}

    def act_of(self, g):
        if self.act_kind == "discrete":
            return np.int64(g)
        return np.asarray([g / 64.0 + 4.0 * k for k in range(self.adim())], dtype=np.float32)

    # ---------------------------------------------------------------- experiences in training-loop format
    @staticmethod
    def _stack_obs(rows):
        if isinstance(rows[0], dict):
            return {k: np.stack([r[k] for r in rows]) for k in rows[0]}
        if isinstance(rows[0], tuple):
            return tuple(np.stack([r[i] for r in rows]) for i in range(len(rows[0])))
        return np.stack(rows)

    def _agent_lists(self, ai, flag_style="ma_loop"):
        """flag_style (non-vectorised only): 'ma_loop' = shape-(1,) arrays as train_multi_agent_on_policy builds them,
        'scalar' = numpy scalars throughout, 'ppo_loop' = literally train_on_policy (np.zeros(1) first, then scalars)."""
        T, E = self.T, self.E
        st, ac, lp, rw, dn, vl = [], [], [], [], [], []
        for t in range(T):
            gs = [self.gid(ai, e, t) for e in range(E)]
            if self.vect:
                st.append(self._stack_obs([self.obs_of(ai, g) for g in gs]))
                ac.append(np.stack([self.act_of(g) for g in gs]))
                lp.append(np.asarray([self.LP[g] for g in gs], dtype=np.float32))
                rw.append(np.asarray([self.R[g] for g in gs], dtype=np.int64 if self.reward_int else np.float64))
                vl.append(np.asarray([self.V[g] for g in gs], dtype=np.float32))
                if t == 0:
                    dn.append(np.zeros(E))
                else:
                    dn.append(np.asarray([self.flag[ai * E + e][t - 1] for e in range(E)], dtype=np.int8))
            else:
                g = gs[0]
                st.append(self.obs_of(ai, g))
                ac.append(self.act_of(g))
                lp.append(np.float32(self.LP[g]))
                rw.append(int(self.R[g]) if self.reward_int else float(self.R[g]))
                vl.append(np.float32(self.V[g]))
                d = 0 if t == 0 else self.flag[ai * E][t - 1]
                if flag_style == "scalar":
                    dn.append(np.int8(d))
                elif flag_style == "ppo_loop":
                    dn.append(np.zeros(1) if t == 0 else np.int8(d))
                else:
                    dn.append(np.zeros(1) if t == 0 else np.array([d], dtype=np.int8))
        cols = [ai * E + e for e in range(E)]
        if self.vect:
            ns = self._stack_obs([self.obs_of(ai, self.next_x[c]) for c in cols])
            nd = np.asarray([self.flag[c][T - 1] for c in cols], dtype=np.int8)
        else:
            ns = self.obs_of(ai, self.next_x[cols[0]])
            last = self.flag[cols[0]][T - 1]
            nd = np.array([last], dtype=np.int8) if flag_style == "ma_loop" else np.int8(last)
        return st, ac, lp, rw, dn, vl, ns, nd

    def ppo_experiences(self, loop_format_flags=False):
        # non-vectorised: scalar flags throughout (see ASSUMPTIONS); loop_format_flags reproduces train_on_policy literally
        return tuple(self._agent_lists(0, flag_style="ppo_loop" if loop_format_flags else "scalar"))

    def ippo_experiences(self):
        per = [self._agent_lists(ai) for ai in range(self.A)]
        return tuple({name: per[ai][k] for ai, name in enumerate(self.names)} for k in range(8))


# ====================================================================== agents
def _net_config(obs_kind):
    if obs_kind == "image":
        return {"encoder_config": {"channel_size": [4], "kernel_size": [2], "stride_size": [1]}, "head_config": {"hidden_size": [8]}}
    if obs_kind in ("dict", "tuple"):
        return {"encoder_config": {"latent_dim": 8, "vector_space_mlp": False}, "head_config": {"hidden_size": [8]}}
    return {"encoder_config": {"hidden_size": [8]}, "head_config": {"hidden_size": [8]}}


def _build_agent(case, ro: Rollout, gamma, lam, hp_config=None):
    kw = dict(
        net_config=_net_config(case["obs"]),
        batch_size=max(512, 2 * ro.n),
        update_epochs=1,
        gamma=gamma,
        gae_lambda=lam,
        lr=1e-4,
        hp_config=hp_config,
        normalize_images=bool(case.get("norm_img", True)),
    )
    if case["algo"] == "PPO":
        from agilerl.algorithms.ppo import PPO

        return PPO(ro.obs_space(0), ro.act_space(0), share_encoders=case["share_enc"], **kw)
    from agilerl.algorithms.ippo import IPPO

    return IPPO(
        [ro.obs_space(ai) for ai in range(ro.A)],
        [ro.act_space(ai) for ai in range(ro.A)],
        agent_ids=list(ro.names),
        **kw,
    )


def _make_agent(case, ro: Rollout, rec=None):
    """The agent that will learn.  With case['hp_change'] its gamma / gae_lambda are changed after construction
    the ways the library itself and its users do it; the oracle later reads the agent's *current* attributes."""
    import torch

    torch.manual_seed(case["seed"] % (1 << 31))
    np.random.seed(case["seed"] % (1 << 31))
    how = case.get("hp_change")
    g, l = case["gamma"], case["lam"]
    g0, l0 = case.get("ctor") or [g, l]
    if how is None:
        return _build_agent(case, ro, g, l)
    if rec is not None:
        rec.hit("hp_change_" + how)
    if how == "assign":
        agent = _build_agent(case, ro, g0, l0)
        agent.gamma = g
        agent.gae_lambda = l
        return agent
    if how == "clone":
        parent = _build_agent(case, ro, g0, l0)
        parent.gamma = g
        parent.gae_lambda = l
        return parent.clone()
    if how == "checkpoint":
        import os
        import tempfile

        src = _build_agent(case, ro, g, l)
        agent = _build_agent(case, ro, g0, l0)
        with tempfile.TemporaryDirectory(prefix="vf_c17_") as d:
            path = os.path.join(d, "agent.pt")
            src.save_checkpoint(path)
            agent.load_checkpoint(path)
        return agent
    if how == "mutation":
        from agilerl.algorithms.core.registry import HyperparameterConfig, RLParameter
        from agilerl.hpo.mutation import Mutations

        hp = HyperparameterConfig(gamma=RLParameter(min=0.1, max=1.0), gae_lambda=RLParameter(min=0.1, max=1.0))
        agent = _build_agent(case, ro, g, l, hp_config=hp)
        mut = Mutations(0, 0, 0, 0, 0, 1, rand_seed=case["seed"] % (1 << 31), device="cpu")
        for _ in range(2):
            agent = mut.rl_hyperparam_mutation(agent)
        return agent
    raise ValueError(how)


def _current_hp(agent, case):
    """gamma / gae_lambda as the agent holds them now (= at learn time) + what its constructor was given."""
    g0, l0 = case.get("ctor") or [case["gamma"], case["lam"]]
    return {
        "gamma": float(agent.gamma),
        "lam": float(agent.gae_lambda),
        "ctor": [float(g0), float(l0)],
        "how": case.get("hp_change"),
    }


def _gae_variant(r, v, flags, nv, gamma_delta, trace):
    """The recursion with a free trace coefficient (diagnosis only: which stale numbers explain a deviation)."""
    T, C = r.shape
    adv = np.zeros((T, C))
    last = np.zeros(C)
    for t in range(T - 1, -1, -1):
        v_next = nv if t == T - 1 else v[t + 1]
        cont = 1.0 - flags[t]
        last = r[t] + gamma_delta * v_next * cont - v[t] + trace * cont * last
        adv[t] = last
    return adv


def _critic_next_values(agent, case, ro: Rollout):
    """Driver-side value of the final next observation of every (agent, env) column, before learn()."""
    import torch

    out = []
    with torch.no_grad():
        for c in range(ro.ncol):
            ai = c // ro.E
            obs = ro.obs_of(ai, ro.next_x[c])
            if case["algo"] == "PPO":
                x = agent.preprocess_observation(obs)
                v = agent.critic(x)
            else:
                from agilerl.utils.algo_utils import preprocess_observation

                gi = agent.shared_agent_ids.index(agent.get_homo_id(ro.names[ai]))
                sp = list(agent.unique_observation_spaces.values())[gi]
                x = preprocess_observation(obs, sp, agent.device, agent.normalize_images)
                v = agent.critics[gi](x)
            out.append(float(v.reshape(-1)[0]))
    return out


# ====================================================================== tapping one learn call
def _np(x, dtype=np.float64):
    try:
        import torch

        if isinstance(x, torch.Tensor):
            return x.detach().cpu().numpy().astype(dtype)
    except Exception:
        pass
    return np.asarray(x).astype(dtype)


def _shape(x):
    try:
        return list(x.shape)
    except Exception:
        return type(x).__name__


def _tapped_learn(rec, agent, case, exps, where):
    """Run the real learn() under the taps -> list of per-policy-group dicts {'gae','pre','ret'} or None."""
    from vf.core import CaseTimeout
    from vf.taps import FrameTap

    if case["algo"] == "PPO":
        target = type(agent).learn
        ngroups = 1
    else:
        target = type(agent)._learn_individual
        ngroups = len(agent.shared_agent_ids)
    tap = FrameTap("vf-c17")
    tap.on_line(target, GAE_LOOP_MARKER, GAE_NAMES, label="gae", after_block=True)
    tap.on_line(target, LOOP_MARKER, ["experiences"], label="pre")
    tap.on_return(target, ["returns", "values"], label="ret", optional=LOSS_OPT)
    try:
        with tap:
            agent.learn(exps)
    except CaseTimeout:
        raise
    except Exception as e:
        mon = "learn_crash_single_step_rollout" if case["T"] == 1 else "learn_crash"
        rec.crash(e, mon, where, algo=case["algo"], T=case["T"], E=case["E"], agents=case["shared"] + case["other"], vect=case["vect"])
        rec.hit("learn_crashes")
        return None
    rec.hit("learn_calls")
    rec.hit("tap_records", len(tap.records))
    g, p, r = tap.get("gae"), tap.get("pre"), tap.get("ret")
    problems = list(tap.problems)
    if not (len(g) == len(p) == len(r) == ngroups):
        problems.append(f"probes fired gae={len(g)} pre={len(p)} ret={len(r)}, expected {ngroups} each")
    if problems:
        rec.hit("tap_observability_lost")
        rec.extra.setdefault("tap_problems", []).extend(problems[:4])
        return None
    return [{"gae": g[i].values, "pre": p[i].values, "ret": r[i].values} for i in range(ngroups)]


def _canon(rec, site, gae):
    """Tapped GAE arrays -> float64 (T', C') / (C',); None when they do not fit together."""
    r = _np(gae["rewards"])
    if r.ndim == 0:
        r = r.reshape(1, 1)
    elif r.ndim == 1:
        r = r[:, None]
    elif r.ndim > 2:
        r = r.reshape(r.shape[0], -1)
    Tn, C = r.shape
    out = {"rewards": r}
    bad = []
    for name, shape in (("dones", (Tn, C)), ("values", (Tn, C)), ("advantages", (Tn, C)), ("next_value", (C,)), ("next_done", (C,))):
        x = _np(gae[name])
        if x.size != int(np.prod(shape)):
            bad.append(name)
            continue
        if len(shape) == 2 and np.squeeze(x).shape != np.squeeze(r).shape:
            # same number of elements, other arrangement: which element belongs to which step cannot be known
            rec.hit("tap_observability_lost")
            rec.extra.setdefault("tap_problems", []).append(
                f"tapped {name} has shape {list(x.shape)} next to rewards {list(r.shape)}: layout unknown"
            )
            return None
        out[name] = x.reshape(shape)
    if bad:
        rec.violate(
            "gae_inputs",
            "tapped_arrays_do_not_fit_together",
            site,
            shapes={k: _shape(gae[k]) for k in GAE_NAMES},
            misfit=bad,
        )
        return None
    return out


def _decode_positions(ro: Rollout, arr, table):
    a32 = np.asarray(arr, dtype=np.float64).astype(np.float32)
    flat = [table.get(float(x), 0) for x in a32.reshape(-1)]
    return np.asarray(flat, dtype=np.int64).reshape(a32.shape)


def _close(a, b, rel=1e-6):
    return abs(a - b) <= rel * (1.0 + abs(a) + abs(b))


# ====================================================================== analysis of one policy group
def _analyse(rec, case, ro: Rollout, site, tapped, nv_ref, hp):
    """All single-run monitors for one call of PPO.learn / IPPO._learn_individual.

    -> (adv_by_gid or None, pid or None)
    """
    from vf.refmodels.gae import gae_table

    T = ro.T
    gamma, lam = hp["gamma"], hp["lam"]  # the agent's current attributes, not the case description
    can = _canon(rec, site, tapped["gae"])
    adv_by_gid = None
    pid = None
    columns_ok = False
    if can is not None:
        Tn, C = can["rewards"].shape
        pid = _decode_positions(ro, can["rewards"], ro.dec_r)
        # ---------------------------------------------------------- gae_inputs: what does a column hold?
        col_ae = []
        bad_cols = []
        for j in range(C):
            rec.hit("gae_input_columns")
            ids = [int(x) for x in pid[:, j]]
            ok = ids[0] > 0
            if ok:
                ai, e, _t = ro.split(ids[0])
                ok = ids == [ro.gid(ai, e, t) for t in range(T)]
            if ok:
                col_ae.append((ai, e))
            else:
                col_ae.append(None)
                bad_cols.append(j)
        if Tn != T:
            rec.violate(
                "gae_inputs",
                "time_axis_is_not_the_rollout_length",
                site,
                rollout_T=T,
                tapped_shape=[int(Tn), int(C)],
                column0=[ro.lab(int(x)) for x in pid[:, 0]][:8],
                agents=len(set(ro.split(int(x))[0] for x in pid.reshape(-1) if x > 0)),
                envs=ro.E,
            )
        elif bad_cols:
            j = bad_cols[0]
            rec.violate(
                "gae_inputs",
                "column_mixes_agents_envs_or_steps",
                site,
                column=j,
                holds=[ro.lab(int(x)) for x in pid[:, j]][:8],
            )
        else:
            columns_ok = True
        if columns_ok:
            vid = _decode_positions(ro, can["values"], ro.dec_v)
            if not np.array_equal(vid, pid):
                j = int(np.argwhere((vid != pid).any(axis=0))[0][0])
                rec.violate(
                    "gae_inputs",
                    "values_column_of_other_sample",
                    site,
                    column=j,
                    rewards_of=[ro.lab(int(x)) for x in pid[:, j]][:8],
                    values_of=[ro.lab(int(x)) for x in vid[:, j]][:8],
                )
            fed_d = np.zeros((T, C))
            fed_nd = np.zeros(C)
            for j, (ai, e) in enumerate(col_ae):
                f = ro.flag[ai * ro.E + e]
                fed_d[1:, j] = f[: T - 1]
                fed_nd[j] = f[T - 1]
            if not np.array_equal(fed_d, can["dones"]):
                j = int(np.argwhere((fed_d != can["dones"]).any(axis=0))[0][0])
                rec.violate(
                    "gae_inputs",
                    "done_flags_of_other_column",
                    site,
                    column=j,
                    column_is=ro.lab(int(pid[0, j])),
                    fed=fed_d[:, j].tolist(),
                    used=can["dones"][:, j].tolist(),
                )
            if not np.array_equal(fed_nd, can["next_done"]):
                rec.violate(
                    "gae_inputs",
                    "next_done_of_other_agent_env",
                    site,
                    columns=[f"a{ai}e{e}" for (ai, e) in col_ae],
                    fed=fed_nd.tolist(),
                    used=can["next_done"].tolist(),
                    agents_in_group=len(set(ai for ai, _ in col_ae)),
                    envs=ro.E,
                )
            # ------------------------------------------------------ bootstrap_value
            want = np.asarray([nv_ref[ai * ro.E + e] for (ai, e) in col_ae])
            rec.hit("bootstrap_value_checks", C)
            got = can["next_value"]
            tol = 2e-5 * (1.0 + np.abs(want))
            if (np.abs(got - want) > tol).any():
                j = int(np.argmax(np.abs(got - want) - tol))
                # does the value belong to another column's next observation?
                owner = [c for c in range(ro.ncol) if abs(nv_ref[c] - got[j]) <= 2e-5 * (1.0 + abs(got[j]))]
                rec.violate(
                    "bootstrap_value",
                    "not_the_critic_value_of_the_final_next_observation" if not owner else "critic_value_of_other_agent_env",
                    site,
                    column=f"a{col_ae[j][0]}e{col_ae[j][1]}",
                    want=float(want[j]),
                    got=float(got[j]),
                    value_belongs_to=[f"a{c // ro.E}e{c % ro.E}" for c in owner][:4],
                )
            spread = float(np.ptp(np.asarray(nv_ref))) if len(nv_ref) > 1 else 0.0
            if len(nv_ref) > 1 and spread > 1e-3:
                rec.hit("bootstrap_values_distinct_across_columns")
        # ---------------------------------------------------------- gae_recursion over the tapped arrays
        flags = np.concatenate([can["dones"][1:], can["next_done"][None, :]], axis=0)
        ref_adv, _ref_ret, scale = gae_table(can["rewards"], can["values"], flags, can["next_value"], gamma, lam)
        tol = 4e-6 * Tn * scale + 1e-9
        err = np.abs(ref_adv - can["advantages"])
        rec.hit("gae_recursion_columns", C)
        rec.hit("gae_recursion_elements", int(ref_adv.size))
        changed = hp["how"] is not None and [gamma, lam] != hp["ctor"]
        if changed:
            rec.hit("gae_recursion_columns_after_hp_change", C)
        if flags.any():
            rec.hit("gae_recursion_columns_with_boundary", int(flags.any(axis=0).sum()))
        inputs_finite = all(np.isfinite(can[k]).all() for k in ("rewards", "values", "next_value"))
        if inputs_finite and not np.isfinite(can["advantages"]).all():
            rec.violate("gae_recursion", "advantage_not_finite_for_finite_inputs", site, got=can["advantages"].reshape(-1)[:16].tolist())
        elif not inputs_finite:
            rec.hit("gae_recursion_non_finite_inputs")
        elif (err > tol).any():
            t_, j = [int(x) for x in np.unravel_index(int(np.argmax(err - tol)), err.shape)]
            kind = "advantage_differs_from_recursion"
            if changed:
                g0, l0 = hp["ctor"]
                for gd in (gamma, g0):
                    alt = _gae_variant(can["rewards"], can["values"], flags, can["next_value"], gd, g0 * l0)
                    if (np.abs(alt - can["advantages"]) <= tol).all():
                        kind = "advantage_follows_constructor_time_gamma_lambda"
            rec.violate(
                "gae_recursion",
                kind,
                site,
                hp_changed_by=hp["how"],
                constructor_gamma_lambda=hp["ctor"],
                t=t_,
                column=j,
                T=int(Tn),
                gamma=gamma,
                lam=lam,
                rewards=can["rewards"][:, j].tolist(),
                values=can["values"][:, j].tolist(),
                flags_d1_to_dT=flags[:, j].tolist(),
                next_value=float(can["next_value"][j]),
                want=ref_adv[:, j].tolist(),
                got=can["advantages"][:, j].tolist(),
            )
        if pid.min() > 0 and len(set(pid.reshape(-1).tolist())) == pid.size:
            adv_by_gid = {int(g): float(a) for g, a in zip(pid.reshape(-1), can["advantages"].reshape(-1))}

    # -------------------------------------------------------------- returns = A_t + V_t, sample by sample
    ret = tapped["ret"]
    R_, V_ = _np(ret["returns"]), _np(ret["values"])
    if adv_by_gid is None:
        rec.hit("returns_checks_skipped_estimates_not_traceable")
    elif R_.size != V_.size:
        rec.hit("returns_checks")
        rec.violate("returns", "returns_and_values_differ_in_size", site, shapes=[_shape(R_), _shape(V_)])
    else:
        rec.hit("returns_checks")
        R1, V1 = R_.reshape(-1), V_.reshape(-1)
        owner = _decode_positions(ro, V1, ro.dec_v)  # the sample each value (hence each return) belongs to
        for i in range(R1.size):
            g = int(owner[i])
            if g not in adv_by_gid:
                rec.violate("returns", "value_next_to_return_is_not_a_rollout_value", site, i=i, value=float(V1[i]))
                break
            want = adv_by_gid[g] + V1[i]
            if abs(R1[i] - want) > 4e-6 * (abs(adv_by_gid[g]) + abs(V1[i])) + 1e-9:
                rec.violate(
                    "returns",
                    "return_is_not_advantage_plus_value",
                    site,
                    sample=ro.lab(g),
                    ret=float(R1[i]),
                    adv=adv_by_gid[g],
                    value=float(V1[i]),
                )
                break

    # -------------------------------------------------------------- row_alignment on the flattened tuple
    exp = tapped["pre"]["experiences"]
    rows = _decode_rows(rec, case, ro, site, exp, adv_by_gid)

    # -------------------------------------------------------------- loss_application
    if "minibatch_idxs" in ret and "ratio" in ret and rows is not None:
        rec.hit("loss_application_checks")
        idx = np.asarray(ret["minibatch_idxs"]).reshape(-1)
        B = int(idx.size)
        for name in ("ratio", "pg_loss1", "v_loss_max", "log_prob", "value", "batch_log_probs", "batch_advantages", "batch_returns", "batch_values"):
            if name in ret and int(_np(ret[name]).size) != B:
                rec.violate(
                    "loss_application",
                    "term_is_not_one_per_sample",
                    site,
                    term=name,
                    shape=_shape(ret[name]),
                    minibatch=B,
                    act=case["act"],
                )
                break
        else:
            N = rows["N"]
            for name, k in (("batch_log_probs", 2), ("batch_advantages", 3), ("batch_returns", 4), ("batch_values", 5)):
                if name in ret:
                    src = _np(exp[k]).reshape(N)[idx]
                    if not np.allclose(src, _np(ret[name]).reshape(-1), rtol=0, atol=0):
                        rec.violate("loss_application", "sampled_rows_are_not_the_indexed_rows", site, term=name)
                        break
    return adv_by_gid, pid, rows


def _decode_rows(rec, case, ro: Rollout, site, exp, adv_by_gid):
    """Decode the flattened (states, actions, log_probs, advantages, returns, values) tuple row by row."""
    if not isinstance(exp, (tuple, list)) or len(exp) != 6:
        rec.violate("row_alignment", "flattened_tuple_has_unexpected_structure", site, got=_shape(exp))
        return None
    states, actions, lps, advs, rets, vals = exp
    N = int(_np(lps).size)
    if N == 0:
        rec.violate("row_alignment", "no_rows", site)
        return None

    def bad_rows(what, x):
        rec.violate("row_alignment", "row_count_differs_between_entries", site, entry=what, shape=_shape(x), rows=N)

    # ---- states: every leaf -> x (from component 0), whole leaf row must be the table row
    sid = None
    if isinstance(states, (tuple, list)):
        leaves = dict(enumerate(states))
    elif hasattr(states, "keys") and all(str(k).startswith("tuple_obs_") for k in states.keys()) and len(list(states.keys())):
        leaves = {int(str(k).rsplit("_", 1)[1]): states[k] for k in states.keys()}
    else:
        leaves = states if isinstance(states, dict) or hasattr(states, "keys") else {None: states}
    if not isinstance(leaves, dict):
        leaves = {k: leaves[k] for k in leaves.keys()}
    for key, leaf in leaves.items():
        a = _np(leaf, np.float32)
        if a.size % N:
            bad_rows(f"states[{key}]", leaf)
            return None
        a = a.reshape(N, -1)
        ids = np.rint(a[:, 0].astype(np.float64) * 64.0).astype(np.int64)
        for r in range(N):
            g = int(ids[r])
            if not (1 <= g <= ro.n):
                rec.violate("row_alignment", "observation_is_not_a_rollout_observation", site, row=r, leaf=str(key), head=a[r, :3].tolist())
                return None
            ai = ro.split(g)[0]
            lv = ro.leaves(ai)
            off, d = lv[key]
            if a.shape[1] != d or not np.array_equal(a[r], ro.leaf_vec(g, off, d)):
                rec.violate(
                    "row_alignment",
                    "observation_row_mixes_components_of_different_samples",
                    site,
                    row=r,
                    leaf=str(key),
                    got=a[r].tolist(),
                    want=ro.leaf_vec(g, off, d).tolist(),
                )
                return None
        if sid is None:
            sid = ids
        elif not np.array_equal(sid, ids):
            rec.violate(
                "row_alignment",
                "observation_leaves_of_different_samples_in_one_row",
                site,
                leaf=str(key),
                first=[ro.lab(int(x)) for x in sid][:16],
                this=[ro.lab(int(x)) for x in ids][:16],
            )
            return None
    # ---- actions
    a = _np(actions)
    if a.size % N:
        bad_rows("actions", actions)
        return None
    a = a.reshape(N, -1)
    if case["act"] == "discrete":
        aid = np.rint(a[:, 0]).astype(np.int64)
        comp_ok = a.shape[1] == 1
    else:
        aid = np.rint(a[:, 0] * 64.0).astype(np.int64)
        comp_ok = a.shape[1] == ro.adim() and all(
            np.array_equal(a[r].astype(np.float32), np.asarray(ro.act_of(int(aid[r])), dtype=np.float32).reshape(-1)) for r in range(N)
        )
    if not comp_ok:
        rec.violate("row_alignment", "action_row_mixes_components_of_different_samples", site, shape=_shape(actions), head=a[:4].tolist())
        return None
    # ---- log-probs, values (exact table look-up)
    v = _np(vals)
    if v.size != N:
        bad_rows("values", vals)
        return None
    lid = _decode_positions(ro, _np(lps).reshape(N), ro.dec_lp)
    vid = _decode_positions(ro, v.reshape(N), ro.dec_v)
    # ---- advantages / returns: which sample's estimate sits in this row?
    fa, fr = _np(advs), _np(rets)
    if fa.size != N or fr.size != N:
        bad_rows("advantages/returns", advs if fa.size != N else rets)
        return None
    fa, fr = fa.reshape(N), fr.reshape(N)
    adid = rid = None
    if adv_by_gid is not None:
        adid = np.zeros(N, dtype=np.int64)
        rid = np.zeros(N, dtype=np.int64)
        ret_by_gid = {g: a_ + float(ro.V[g]) for g, a_ in adv_by_gid.items()}
        for r in range(N):
            s = int(sid[r])
            for arr, table, out, rel in ((fa, adv_by_gid, adid, 1e-6), (fr, ret_by_gid, rid, 8e-6)):
                if s in table and _close(arr[r], table[s], rel):
                    out[r] = s
                else:
                    cand = [g for g, x in table.items() if _close(arr[r], x, rel)]
                    out[r] = cand[0] if len(cand) == 1 else (-1 if cand else 0)
    else:
        rec.hit("row_alignment_estimates_not_traceable")
    rec.hit("row_alignment_rows", N)
    rec.hit("row_alignment_groups")
    fields = {"actions": aid, "log_probs": lid, "values": vid}
    if adid is not None:
        fields["advantages"] = adid
        fields["returns"] = rid
    off = sorted(k for k, ids in fields.items() if not np.array_equal(ids, sid))
    if off:
        r0 = int(min(int(np.argwhere(fields[k] != sid)[0][0]) for k in off))
        perm = {"states": [ro.lab(int(x)) for x in sid][:24]}
        for k in off:
            perm[k] = [ro.lab(int(x)) for x in fields[k]][:24]
        agents = sorted(set(ro.split(int(x))[0] for x in sid))
        rec.violate(
            "row_alignment",
            "row_mixes_samples:" + "+".join(off),
            site,
            first_bad_row=r0,
            agents_in_group=len(agents),
            T=ro.T,
            envs=ro.E,
            order_observed=perm,
        )
    # ---- every sample of the group exactly once
    agents = sorted(set(ro.split(int(x))[0] for x in sid))
    groups = set(ro.group_of(ai) for ai in agents)
    want = []
    if len(groups) == 1:
        for ai in ro.group_agents(groups.pop()):
            want += [ro.gid(ai, e, t) for e in range(ro.E) for t in range(ro.T)]
    if sorted(int(x) for x in sid) != sorted(want):
        rec.violate(
            "row_alignment",
            "rows_are_not_each_sample_of_the_policy_group_once",
            site,
            rows=N,
            expected=len(want),
            agents_seen=agents,
        )
    return {"N": N, "sid": sid, "fa": fa, "fr": fr}


# ====================================================================== one case
def _site(case):
    return "PPO.learn" if case["algo"] == "PPO" else "IPPO._learn_individual"


def _run(case, rec: Recorder):
    from vf.refmodels.gae import gae_column

    site = _site(case)
    ro = Rollout(case)
    agent = _make_agent(case, ro, rec)
    hp = _current_hp(agent, case)
    if hp["how"] is not None:
        rec.extra["hp_at_learn_time"] = [hp["gamma"], hp["lam"]]
        if [hp["gamma"], hp["lam"]] != hp["ctor"]:
            rec.hit("hp_differs_from_constructor_at_learn_time")
    nv_ref = _critic_next_values(agent, case, ro)
    is_ppo = case["algo"] == "PPO"

    # information only: the literal non-vectorised loop format of train_on_policy
    if is_ppo and not case["vect"] and case["T"] > 1:
        rec.hit("info_nonvec_loop_format_probes")
        try:
            from agilerl.utils.algo_utils import stack_experiences

            stack_experiences(*ro.ppo_experiences(loop_format_flags=True))
        except Exception as e:
            rec.hit("info_nonvec_loop_format_cannot_be_stacked")
            rec.extra["nonvec_loop_format"] = f"{type(e).__name__}: {e}"[:160]

    exps = ro.ppo_experiences() if is_ppo else ro.ippo_experiences()
    groups = _tapped_learn(rec, agent, case, exps, "run 1")
    if groups is None:
        rec.nontrivial = rec.counters.get("learn_crashes", 0) > 0
        return
    n_before = len(rec.witnesses)
    adv1, pid1, rows1, nd_swapped = [], [], [], []
    for tapped in groups:
        w0 = len(rec.witnesses)
        a, p, rows = _analyse(rec, case, ro, site, tapped, nv_ref, hp)
        adv1.append(a)
        pid1.append(p)
        rows1.append(rows)
        nd_swapped.append(any(w["kind"] == "next_done_of_other_agent_env" for w in rec.witnesses[w0:]))

    # ------------------------------------------------------------------ end_to_end (safety net)
    if len(rec.witnesses) == n_before and all(r is not None for r in rows1):
        ref = {}
        for c in range(ro.ncol):
            gs = [c * ro.T + t + 1 for t in range(ro.T)]
            adv, _ret, scale = gae_column([ro.R[g] for g in gs], [ro.V[g] for g in gs], ro.flag[c], nv_ref[c], hp["gamma"], hp["lam"])
            for t, g in enumerate(gs):
                ref[g] = (adv[t], scale[t])
        for rows in rows1:
            rec.hit("end_to_end_rows", rows["N"])
            for r in range(rows["N"]):
                g = int(rows["sid"][r])
                want, scale = ref[g]
                tol = 6e-6 * ro.T * scale + 3e-5 * hp["gamma"] * (1.0 + abs(nv_ref[(g - 1) // ro.T])) + 1e-9
                if abs(rows["fa"][r] - want) > tol or abs(rows["fr"][r] - (want + float(ro.V[g]))) > tol + 4e-6 * abs(float(ro.V[g])):
                    rec.violate(
                        "end_to_end",
                        "estimate_paired_with_observation_differs_from_reference",
                        site,
                        sample=ro.lab(g),
                        adv=float(rows["fa"][r]),
                        ret=float(rows["fr"][r]),
                        want_adv=float(want),
                    )
                    break

    # ------------------------------------------------------------------ no_leak (metamorphic second run)
    cols = [c for c, b in enumerate(ro.first_boundary) if b is not None]
    if cols:
        ro2 = Rollout(case, perturb=True)
        exps2 = ro2.ppo_experiences() if is_ppo else ro2.ippo_experiences()
        groups2 = _tapped_learn(rec, agent, case, exps2, "run 2 (perturbed after episode starts)")
        if groups2 is not None:
            for gi, tapped in enumerate(groups2):
                if adv1[gi] is None:
                    rec.hit("no_leak_skipped_estimates_not_traceable")
                    continue
                can2 = _canon(Recorder(), site, tapped["gae"])  # shape problems were already reported in run 1
                if can2 is None or can2["advantages"].shape != pid1[gi].shape:
                    rec.hit("no_leak_skipped_estimates_not_traceable")
                    continue
                adv2 = {int(g): float(a) for g, a in zip(pid1[gi].reshape(-1), can2["advantages"].reshape(-1))}
                # unperturbed positions must still decode to the same samples (layout is shape-only)
                pid2 = _decode_positions(ro, can2["rewards"], ro.dec_r)
                keep = pid2 > 0
                if not np.array_equal(pid2[keep], pid1[gi][keep]):
                    rec.hit("no_leak_skipped_estimates_not_traceable")
                    continue
                for c in cols:
                    ai = c // ro.E
                    if (c * ro.T + 1) not in adv2:
                        continue  # column belongs to another policy group
                    b = ro.first_boundary[c]
                    rec.hit("no_leak_columns")
                    rec.hit("no_leak_steps", b)
                    for t in range(b):
                        g = c * ro.T + t + 1
                        if not _close(adv1[gi][g], adv2[g], 1e-6):
                            rec.violate(
                                "no_leak",
                                (
                                    # a leak across the final flag in a group whose next_done columns were seen swapped in
                                    # run 1 is the visible consequence of that mechanism, not a second one
                                    "estimate_depends_on_data_after_final_next_done"
                                    + (":group_uses_next_done_of_other_agent_env" if nd_swapped[gi] else "")
                                )
                                if b == ro.T
                                else "estimate_depends_on_data_after_recorded_done",
                                site,
                                column=f"a{ai}e{c % ro.E}",
                                step=t,
                                new_episode_starts_at=b,
                                T=ro.T,
                                flags_d1_to_dT=ro.flag[c],
                                adv_run1=adv1[gi][g],
                                adv_run2=adv2[g],
                                agents_in_group=len(ro.group_agents(ro.group_of(ai))),
                                envs=ro.E,
                            )
                            break
    else:
        rec.hit("cases_without_boundary")
    rec.nontrivial = rec.counters.get("gae_recursion_columns", 0) > 0 and rec.counters.get("row_alignment_rows", 0) > 0


def run_case(case):
    from vf.core import CaseTimeout

    rec = Recorder()
    try:
        if case.get("mode") == "loop":
            from vf.props.c17_loops import run_loop_case

            run_loop_case(case, rec)
        else:
            _run(case, rec)
    except CaseTimeout:
        raise
    except Exception as e:
        rec.crash(e, "crash_outside_learn", "driver / constructor")
        rec.nontrivial = True
    return rec.result()


def finalize(ctx):
    c = ctx["counters"]
    if c.get("tap_observability_lost", 0) > 0:
        ex = []
        for r in ctx["results"].values():
            ex += (r.get("extra") or {}).get("tap_problems", [])
            if len(ex) >= 3:
                break
        ctx["inconclusive"].append(f"frame taps lost observability in {int(c['tap_observability_lost'])} learn call(s): {ex[:3]}")
    # exhaustive coverage of done placements of column 0 actually executed
    seen = {}
    for idx, case in enumerate(ctx["cases"]):
        r = ctx["results"].get(idx)
        if r is None or r.get("status") != "ok":
            continue
        if case.get("mode") == "loop":
            continue
        if case["T"] <= 5:
            seen.setdefault((case["algo"], case["T"]), set()).add(case["flags"][0])
    if c.get("loop_monitor_errors", 0) > 0 or c.get("loop_observability_lost", 0) > 0:
        ex = []
        for r in ctx["results"].values():
            ex += (r.get("extra") or {}).get("loop_monitor_errors", [])
        ctx["inconclusive"].append(f"loop workload: {int(c.get('loop_monitor_errors', 0))} monitor errors, "
                                   f"{int(c.get('loop_observability_lost', 0))} learn calls without a ground-truth log: {ex[:2]}")
    cov = {f"{a}:T={t}": f"{len(s)}/{2 ** t}" for (a, t), s in sorted(seen.items())}
    return {"column0_done_patterns_executed": cov, "learn_calls": int(c.get("learn_calls", 0))}
