"""C05 - tournament selection keeps the fittest and builds a well-formed generation.

The random draws are *recorded* by interposing `np.random.randint` as seen from agilerl.hpo.tournament
(module-attribute interposition); the reference picks, for each recorded draw vector, the set of drawn agents
with maximal mean of the last eval_loop fitness entries.  Parent identity of every child is read off by
leaf-wise comparison with every old agent (faithful copy per C01, target re-sync allowed, index ignored).
"""

from __future__ import annotations

import os

import numpy as np

from vf.core import CaseTimeout, Recorder

PROPERTY = "C05"
LEVEL = "exploration"
RULE = (
    "case = (algorithm, population size 1..8, configured population_size (equal or different), tournament size "
    "1..pop+2, eval window 1..5, elitism flag, fitness assignment pattern incl. ties / negatives / unequal lengths, "
    "non-contiguous indices, G consecutive generations, seed); each select() call is one evaluation of the oracle. "
    "Non-trivial = population >= 2 AND at least one recorded tournament had two different drawn agents with different "
    "mean fitness AND every member was matched to a parent; distinct = distinct case descriptions"
)
ASSUMPTIONS = [
    "ties in mean fitness: any maximal agent is accepted as elite / tournament winner",
    "identical old agents (siblings from an earlier generation) are interchangeable as parents",
    "faithful copy = C01's structural comparison with the target re-sync exception, ignoring the index; algorithms with "
    "share_encoders are built with share_encoders=False here so that the C01 known finding cannot mask anything",
    "draws are observed through agilerl.hpo.tournament's `np` name; a tree that draws differently is reported as "
    "'draws not recorded' and the parent oracle falls back to 'child is a copy of SOME old agent'",
]
REQUIRED_COUNTERS = ["select_calls", "tournament_draws_recorded", "children_matched_to_parent", "old_population_untouched_checks"]
CASE_TIMEOUT_S = 1500


def preload():
    import agilerl.algorithms  # noqa
    import agilerl.hpo.tournament  # noqa
    from vf.core import quiet_torch

    quiet_torch()


def cases(tier, seed):
    rng = np.random.default_rng(5100 + seed)
    out = []
    n = 70 if tier == "quick" else 1200
    algos = ["DQN"] * 6 + ["RainbowDQN", "CQN", "DDPG", "TD3", "PPO", "NeuralUCB", "NeuralTS", "MADDPG", "MATD3", "IPPO"]
    patterns = ["distinct", "ties", "all_equal", "negative", "unequal_len", "random"]
    for i in range(n):
        pop = int(rng.integers(1, 9)) if i >= 8 else [1, 1, 2, 2, 3, 8, 8, 5][i]
        algo = algos[int(rng.integers(len(algos)))] if i >= 12 else "DQN"
        if algo in ("MADDPG", "MATD3", "IPPO"):
            pop = min(pop, 3)
        out.append(
            {
                "algo": algo,
                "pop": pop,
                "cfg_size": pop if rng.random() < 0.7 else int(rng.integers(1, 9)),
                "tsize": int(rng.integers(1, pop + 3)),
                "eval_loop": int(rng.integers(1, 6)),
                "elitism": bool(rng.random() < 0.6),
                "pattern": patterns[i % len(patterns)],
                "sparse_index": bool(rng.random() < 0.4),
                "gens": int(rng.integers(1, 5 if tier == "quick" else 21)) if algo == "DQN" else int(rng.integers(1, 3)),
                "seed": int(rng.integers(1 << 30)),
            }
        )
    return out


class _RandomProxy:
    def __init__(self, real, log):
        self._real = real
        self._log = log

    def randint(self, *a, **kw):
        out = self._real.randint(*a, **kw)
        self._log.append(np.array(out).reshape(-1).tolist())
        return out

    def __getattr__(self, name):
        return getattr(self._real, name)


class _NpProxy:
    def __init__(self, real, log):
        self._real = real
        self.random = _RandomProxy(real.random, log)

    def __getattr__(self, name):
        return getattr(self._real, name)


def _mean_fit(agent, eval_loop):
    from vf import zoo

    f = zoo.unwrap(agent).fitness[-eval_loop:]
    return float(np.mean(f))


def _assign_fitness(pop, pattern, rng, gen):
    from vf import zoo

    n = len(pop)
    for i, a in enumerate(pop):
        u = zoo.unwrap(a)
        if pattern == "distinct":
            new = [float(rng.permutation(n)[i] if False else (i * 7 + gen * 3) % (n + 3))]
        elif pattern == "ties":
            new = [float((i // 2) + gen % 2)]
        elif pattern == "all_equal":
            new = [1.5]
        elif pattern == "negative":
            new = [float(-rng.integers(0, 5)) - 0.5 * (i % 2)]
        elif pattern == "unequal_len":
            new = [float(rng.integers(-3, 4)) for _ in range(1 + (i + gen) % 4)]
        else:
            new = [float(rng.normal())]
        u.fitness = list(u.fitness) + new


def run_case(case):
    import agilerl.hpo.tournament as T
    from agilerl.hpo.tournament import TournamentSelection

    from vf import agentops, walk, zoo

    rec = Recorder()
    rng = np.random.default_rng(case["seed"])
    algo = case["algo"]
    kw = {}
    if algo in zoo.HAS_SHARE_ENCODERS:
        kw["share_encoders"] = False
    agentops.seed_all(case["seed"])
    try:
        obs_kind = "vector" if rng.random() < 0.8 or algo in ("NeuralUCB", "NeuralTS") else "image"
        pop = []
        idx = 0
        for i in range(case["pop"]):
            idx = idx + (int(rng.integers(1, 4)) if case["sparse_index"] else 1) if i else int(rng.integers(0, 3)) * int(case["sparse_index"])
            pop.append(zoo.make_agent(algo, obs_kind, index=idx, **kw))
        # make optimizer moments non-zero on some members so that copies must carry them
        for a in pop[::2]:
            zoo.learn(a, batch_seed=case["seed"] % 1000)
    except CaseTimeout:
        raise
    except Exception as e:
        rec.hit("setup_failed")
        rec.extra["setup_failed"] = f"{type(e).__name__}: {str(e)[:100]}"
        return rec.result()

    ts = TournamentSelection(case["tsize"], case["elitism"], case["cfg_size"], case["eval_loop"])
    all_matched = True
    informative = False
    for gen in range(case["gens"]):
        if case["seed"] % 2 and len(pop) > 1:
            # populations are lists the caller may have re-ordered (ranked by fitness, re-assembled from checkpoints ...):
            # nothing in the statement depends on where an agent sits in the list
            pop = [pop[int(j)] for j in rng.permutation(len(pop))]
            rec.hit("shuffled_populations")
        _assign_fitness(pop, case["pattern"], rng, gen)
        old_leaves = [walk.agent_leaves(a) for a in pop]
        old_fp = [walk.fingerprint_map(L) for L in old_leaves]
        means = [_mean_fit(a, case["eval_loop"]) for a in pop]
        best = max(means)
        elite_ok = {i for i, m in enumerate(means) if m == best}
        old_idx = [zoo.unwrap(a).index for a in pop]
        log = []
        real_np = T.np
        T.np = _NpProxy(real_np, log)
        agentops.seed_all(case["seed"] + gen)
        try:
            try:
                elite, new_pop = ts.select(pop)
            finally:
                T.np = real_np
        except CaseTimeout:
            raise
        except Exception as e:
            rec.crash(e, "select_raises", "TournamentSelection.select", algo=algo, case_gen=gen)
            rec.nontrivial = True
            return rec.result()
        rec.hit("select_calls")
        site = "TournamentSelection.select"

        # ---- old population untouched
        rec.hit("old_population_untouched_checks")
        for i, a in enumerate(pop):
            ch = agentops.changed_paths(old_fp[i], walk.fingerprint_map(walk.agent_leaves(a)))
            if ch:
                rec.violate("old_population", "selection_changed_an_old_agent", site, algo=algo, changed=ch[:5], member=i)

        # ---- size
        if len(new_pop) != case["cfg_size"]:
            rec.violate("population_size", "new_population_has_wrong_size", site, got=len(new_pop), want=case["cfg_size"], elitism=case["elitism"])

        # ---- who is each member a copy of?
        new_leaves = [walk.agent_leaves(a) for a in new_pop]
        LE = walk.agent_leaves(elite)

        def parents_of(L, agent):
            out = set()
            for j, LO in enumerate(old_leaves):
                d, _ = agentops.compare_copy(LO, L, agent, allow_target_resync=True, ignore=("_index",))
                if not d:
                    out.add(j)
            return out

        pe = parents_of(LE, elite)
        rec.hit("elite_checks")
        if not pe:
            rec.violate("elite", "elite_is_not_a_faithful_copy_of_any_old_agent", site, algo=algo)
        elif not (pe & elite_ok):
            rec.violate("elite", "elite_is_not_a_fittest_agent", site, algo=algo, copy_of=sorted(pe), fittest=sorted(elite_ok), means=means)

        n_tour = len(new_pop) - (1 if case["elitism"] else 0)
        draws_ok = len(log) == n_tour and all(len(d) == case["tsize"] for d in log)
        if draws_ok:
            rec.hit("tournament_draws_recorded", len(log))
        else:
            rec.hit("select_calls_without_recorded_draws")
            rec.extra["draws"] = {"recorded": len(log), "expected": n_tour}
        for k, (member, L) in enumerate(zip(new_pop, new_leaves)):
            ps = parents_of(L, member)
            if not ps:
                all_matched = False
                rec.violate("member_copy", "member_is_not_a_faithful_copy_of_any_old_agent", site, algo=algo, member=k, elitism=case["elitism"])
                continue
            rec.hit("children_matched_to_parent")
            if case["elitism"] and k == 0:
                if not (ps & elite_ok):
                    rec.violate("elitism", "first_member_is_not_the_elite", site, algo=algo, copy_of=sorted(ps), fittest=sorted(elite_ok))
                elif not (ps & pe):
                    rec.violate("elitism", "first_member_differs_from_returned_elite", site, algo=algo, copy_of=sorted(ps), elite_copy_of=sorted(pe))
                continue
            if draws_ok:
                d = log[k - (1 if case["elitism"] else 0)]
                if any(x < 0 or x >= len(pop) for x in d):
                    rec.violate("tournament", "drawn_index_outside_population", site, draw=d, pop=len(pop))
                    continue
                top = max(means[x] for x in d)
                accept = {x for x in d if means[x] == top}
                if len({means[x] for x in d}) > 1:
                    informative = True
                rec.hit("tournament_winner_checks")
                if not (ps & accept):
                    rec.violate(
                        "tournament",
                        "member_is_not_the_best_ranked_of_its_draw",
                        site,
                        algo=algo,
                        member=k,
                        draw=d,
                        means=means,
                        copy_of=sorted(ps),
                        accepted=sorted(accept),
                    )

        # ---- indices
        new_idx = [zoo.unwrap(a).index for a in new_pop]
        rec.hit("index_checks")
        if len(set(new_idx)) != len(new_idx):
            rec.violate("indices", "duplicate_index_in_new_population", site, indices=new_idx, old=old_idx, elitism=case["elitism"])
        fresh = new_idx[1:] if case["elitism"] else new_idx
        if any(i <= max(old_idx) for i in fresh):
            rec.violate("indices", "member_index_is_not_fresh", site, indices=new_idx, old=old_idx, elitism=case["elitism"])

        # ---- aliases between old and new, and among new
        groups = [("old", i, L) for i, L in enumerate(old_leaves)] + [("new", i, L) for i, L in enumerate(new_leaves)] + [("elite", 0, LE)]
        for x in range(len(groups)):
            for y in range(x + 1, len(groups)):
                if groups[x][0] == "old" and groups[y][0] == "old":
                    continue
                rec.hit("alias_pairs")
                named, _ = agentops.classify_aliases(walk.aliases(groups[x][2], groups[y][2]))
                if named:
                    a = named[0]
                    rec.violate(
                        "alias",
                        f"{a['kind']}:{a['category']}",
                        site,
                        algo=algo,
                        pair=[f"{groups[x][0]}{groups[x][1]}", f"{groups[y][0]}{groups[y][1]}"],
                        first=a["first"],
                        second=a["second"],
                    )
        pop = new_pop
    if algo not in zoo.MULTI and case["seed"] % 3 != 2:
        try:
            _wiring_check(rec, case, pop, ts, rng)
        except CaseTimeout:
            raise
        except Exception as e:
            rec.crash(e, "wiring", "tournament_selection_and_mutation workload", algo=algo)
    rec.nontrivial = case["pop"] >= 2 and informative and all_matched
    return rec.result()


def _wiring_check(rec, case, pop, ts, rng):
    """tournament_selection_and_mutation (the helper that wires selection and mutation in every training loop) with
    save_elite=True: the file holds a faithful copy of a fittest agent of the population that went in - whatever
    happens to the members of the new generation afterwards (every one of them gets a parameter mutation here)."""
    import contextlib
    import io
    import shutil
    import tempfile

    from agilerl.utils.utils import tournament_selection_and_mutation

    from vf import agentops, walk, zoo

    _assign_fitness(pop, case["pattern"], rng, 99)
    old_leaves = [walk.agent_leaves(a) for a in pop]
    means = [_mean_fit(a, case["eval_loop"]) for a in pop]
    best = max(means)
    elite_ok = {i for i, m in enumerate(means) if m == best}
    m = agentops.make_mutations("param", seed=case["seed"] % 100000)
    tmp = tempfile.mkdtemp(prefix="vf_c05_")
    try:
        path = os.path.join(tmp, "elite.pt")
        agentops.seed_all(case["seed"] + 99)
        with contextlib.redirect_stdout(io.StringIO()):
            tournament_selection_and_mutation(pop, ts, m, "c05-env", algo=case["algo"], elite_path=path, save_elite=True)
        rec.hit("wiring_checks")
        if not os.path.exists(path):
            rec.violate("wiring", "elite_file_missing", "tournament_selection_and_mutation", algo=case["algo"])
            return
        saved = type(zoo.unwrap(pop[0])).load(path)
        L = walk.agent_leaves(saved)
        parents = set()
        for j, LO in enumerate(old_leaves):
            # DQN's target is not part of any checkpoint (known finding of C07): not the wiring's business
            extra = ("actor_target", "target_params") if case["algo"] == "DQN" else ()
            d, _ = agentops.compare_copy(LO, L, saved, allow_target_resync=True, ignore=("_index", "index", "/lr_attr") + extra)
            if not d:
                parents.add(j)
        if not parents:
            rec.violate("wiring", "saved_elite_is_not_a_faithful_copy_of_any_agent_of_the_population_that_went_in",
                        "tournament_selection_and_mutation", algo=case["algo"], elitism=case["elitism"])
        elif not (parents & elite_ok):
            rec.violate("wiring", "saved_elite_is_not_a_fittest_agent", "tournament_selection_and_mutation", algo=case["algo"],
                        copy_of=sorted(parents), fittest=sorted(elite_ok), elitism=case["elitism"])
    finally:
        shutil.rmtree(tmp, ignore_errors=True)
