"""C03 - architecture mutations keep every network valid, bounded and rebuildable.

Every edge of a clone-and-mutate chain is executed on the real classes exactly the way
``Mutations.architecture_mutate`` does it (``child = m.clone()``, a name taken from the child's own
``mutation_methods`` / ``sample_mutation_method``, ``getattr(child, name)(**args)``, ``last_mutation_attr``
read back) and is then judged by five monitors:

  forward   child(x) for batches of size 1..3: finite, declared shape, no exception
  bounds    every size field inside its declared min/max (vf/refmodels/archwalk.py: BOUNDS, conv arithmetic)
  rebuild   type(child)(**child.init_dict) builds, describes the same architecture and
            load_state_dict(child.state_dict(), strict=True) succeeds; child.clone() works
  effect    the method reported by last_mutation_attr did to the constructor description what it advertises
            (expected post-state recomputed from the PRE-state by the bound model), nothing else changed,
            a fall-back was only taken when the called method was stopped by its bound
  call      the advertised method itself does not raise

Workloads: exhaustive BFS of small-bound architecture graphs (all numpy draws inside the methods enumerated by a
scripted numpy.random, all explicit argument choices) and seeded random walks with the default bounds.
Pattern B (two mutations on one object without cloning) is driven on throw-away branches; its witnesses are
reported under extra, never as violations (DESIGN C03 "chain semantics").
"""

from __future__ import annotations

import copy

import numpy as np

from vf.core import Recorder, crash_witness, witness
from vf.refmodels.archwalk import MODULE_SUBJECTS, bfs_subjects, network_subjects

PROPERTY = "C03"
LEVEL = "exploration"
RULE = (
    "case = (mode bfs|walk, subject = building block or network x observation space x options, seed, steps). "
    "bfs: breadth-first exploration of the whole architecture graph reachable under shrunk bounds by really "
    "calling every advertised method on clones, without arguments (every numpy.random draw inside the method "
    "enumerated) and with every explicit argument choice the HPO path can pass on; exhaustive for that sub-space "
    "(coverage key exhaustive_subspaces lists states/edges). walk: seeded chain of clone-and-mutate steps with "
    "default bounds, names drawn with sample_mutation_method or uniformly, 40% of the calls with explicit "
    "arguments; every walk starts with a star (each advertised method once from the initial configuration, "
    "without and with explicit arguments). A case is non-trivial when at least one edge really changed the architecture AND at least one "
    "edge was stopped by a bound (or fell back), and all five monitors judged them; distinct = distinct case "
    "descriptions"
    " Added: 12 % of the walk edges first call a method of the clone's nested modules (or of a plain module) with arguments it rejects (keyword of another module type / layer index that does not exist); only if the call raised and left the description unchanged does the real mutation follow on the same object"
)
ASSUMPTIONS = [
    "verdict on pattern A only (clone, then exactly one advertised method on the fresh clone); pattern B "
    "observations are informational",
    "'stopped by a bound' = the step would pass the declared limit it moves towards (maximum for add, minimum for "
    "remove); a step that lands exactly on that limit is inside the declared range, so refusing it is a witness "
    "of its own kind (refused_although_result_equals_declared_bound; BOUNDARY_STRICT=False makes it informational)",
    "EvolvableCNN.add_layer is stopped when the layer maximum is reached, the last feature map is <= 2 or the "
    "declared kernel limit (a quarter of the feature map, 1..9) admits no kernel >= 2 (library's declared rule)",
    "change_kernel that re-draws the current size counts as applied; EvolvableCNN.remove_channel that reports 0 "
    "removed channels after a random draw cannot be judged (amount unknown) and is skipped",
    "size fields that are outside their declared range already in the initial configuration (library defaults: "
    "CNN encoder channels 16 < min_channel_size 32) are reported as information; only values an edge produced "
    "are judged",
    "explicit arguments are restricted to what architecture_mutate can pass on (the dictionary the same method "
    "returned on a network of the same architecture); valid observation batch = float tensors of the space's "
    "shape, Discrete one-hot encoded",
    "finite outputs are checked with the library's own initialisation (no weight randomisation in C03)",
]
REQUIRED_COUNTERS = ["edges", "forward_checks", "bound_checks", "rebuild_checks", "effect_checks"]
CASE_TIMEOUT_S = 3600  # generous watchdog: the exhaustive graphs are single cases (30-100 s CPU each)

BOUNDARY_STRICT = True  # False: refusing a step that lands exactly on the declared limit is informational
BATCH_SIZES = (1, 2, 3)


def preload():
    import torch  # noqa
    import gymnasium  # noqa
    import agilerl.modules  # noqa
    import agilerl.networks.actors  # noqa
    import agilerl.networks.q_networks  # noqa
    import agilerl.networks.value_networks  # noqa
    from vf.core import quiet_torch

    quiet_torch()


# ------------------------------------------------------------------ case lists (subjects shared with C04)
def cases(tier, seed):
    rng = np.random.default_rng(3000 + seed)
    out = []
    for sub in bfs_subjects(tier):
        out.append({"mode": "bfs", "subject": sub, "max_states": 3000 if tier == "quick" else 6000})
    steps_mod = 50 if tier == "quick" else 300
    steps_net = 50 if tier == "quick" else 200
    reps = 1 if tier == "quick" else 6
    for r in range(reps):
        for sub in MODULE_SUBJECTS:
            heavy = sub["kind"] in ("CNN2d", "CNN3d", "ResNet", "MultiInput")
            out.append({"mode": "walk", "subject": sub, "steps": (steps_mod // 2 if heavy and tier != "quick" else steps_mod),
                        "seed": int(rng.integers(1 << 30))})
        for sub in network_subjects():
            heavy = sub.get("obs") in ("image", "dict", "tuple", "resnet", "image_cfg")
            out.append({"mode": "walk", "subject": sub, "steps": (steps_net // 2 if heavy else steps_net),
                        "seed": int(rng.integers(1 << 30))})
    return out


# ------------------------------------------------------------------ witness sink (pattern A verdict / B info)
class Sink:
    def __init__(self, rec: Recorder, verdict: bool):
        self.rec, self.verdict = rec, verdict

    def hit(self, name, n=1):
        self.rec.hit(name if self.verdict else name + "(patternB)", n)

    def violate(self, monitor, kind, site, **detail):
        if self.verdict:
            self.rec.violate(monitor, kind, site, **detail)
        else:
            self._info(witness(monitor, kind, site, **detail))

    def crash(self, exc, monitor, where, **detail):
        from vf.refmodels.archwalk import reraise_watchdog

        reraise_watchdog(exc)
        if self.verdict:
            self.rec.crash(exc, monitor, where, **detail)
        else:
            self._info(crash_witness(exc, monitor, where, **detail))

    def _info(self, w):
        self.rec.hit("patternB_observations(info)")
        lst = self.rec.extra.setdefault("pattern_B", [])
        sig = (w["monitor"], w["kind"], w["site"])
        if len(lst) < 6 and all((x["monitor"], x["kind"], x["site"]) != sig for x in lst):
            lst.append(w)

    def info(self, name, **detail):
        self.rec.hit(name + "(info)")
        lst = self.rec.extra.setdefault("info", {})
        if name not in lst:
            lst[name] = {k: (v if isinstance(v, (int, str, bool, type(None))) else repr(v)[:200]) for k, v in detail.items()}


# ------------------------------------------------------------------ monitors
def monitor_effect(sink: Sink, e) -> str:
    """Returns 'changed' | 'stopped' | 'other' for the non-triviality rule."""
    from vf.refmodels import archwalk as aw

    sink.hit("effect_checks")
    cpath, cmeth = aw.split_method(e.pre_fams, e.called)
    csite = aw.site_of(e, e.called)
    if e.applied is None:
        sink.violate("effect", "advertised_method_did_nothing_last_mutation_attr_None", csite,
                     unchanged=(e.pre_flat == e.post_flat), **e.describe())
        return "other"
    apath, ameth = aw.split_method(e.pre_fams, e.applied)
    if apath != cpath or apath not in e.pre_fams:
        sink.violate("effect", "reported_method_belongs_to_another_component", csite, **e.describe())
        return "other"
    fam = e.pre_fams[apath][0]
    pre_c = aw.comp_view(e.pre_flat, apath)
    ret = aw.norm(e.ret) if isinstance(e.ret, dict) else {}
    args = aw.norm(e.args)

    # fall-back chain from the called to the reported method
    cur, hops = cmeth, 0
    while cur != ameth and hops < 4:
        st = aw.expected_effect(fam, pre_c, cur, ret, args)["status"]
        if cur != cmeth and cur not in e.pre_fams[apath][3]:
            st = "stopped"  # an intermediate fall-back that is disabled on this component (encoder layer methods)
        nxt = aw.FALLBACKS.get((fam, cur))
        if nxt is None:
            sink.violate("effect", "reported_method_is_no_documented_fallback", csite, **e.describe())
            return "other"
        if st != "stopped":
            sink.violate("effect", "fell_back_although_not_stopped_by_a_bound", csite, model_status=st, **e.describe())
            return "other"
        cur, hops = nxt, hops + 1
        sink.hit("fallback_edges")
    if cur != ameth:
        sink.violate("effect", "reported_method_is_no_documented_fallback", csite, **e.describe())
        return "other"

    asite = aw.site_of(e, e.applied)
    exp = aw.expected_effect(fam, pre_c, ameth, ret, args if ameth == cmeth else None)
    status = exp["status"]
    diff = {k for k in set(e.pre_flat) | set(e.post_flat) if e.pre_flat.get(k) != e.post_flat.get(k)}
    pfx = apath + aw.SEP
    allowed = {}
    if status in ("change", "boundary"):
        allowed = {pfx + k: v for k, v in exp["expect"].items()}
        allowed.update(aw.derived_changes(e.pre_flat, e.pre_fams, apath, exp["expect"]))
    free = {pfx + k: v for k, v in exp.get("free", {}).items() if not k.startswith("_")}
    free[pfx + "_kernel_full"] = None  # follows kernel_size
    if status == "unknown":
        sink.info("effect_not_judged", note=exp.get("note"), method=e.applied)
        return "other"
    if status == "stopped" and ameth == cmeth and (fam, cmeth) in aw.FALLBACKS and not diff:
        sink.info("documented_fallback_not_taken", method=e.applied, site=asite)

    changed_anything = bool(diff)
    # 1. the advertised change
    if status in ("change", "boundary"):
        missing = {k: v for k, v in allowed.items() if e.post_flat.get(k) != v}
        if missing:
            if not diff:
                if status == "boundary":
                    if BOUNDARY_STRICT:
                        sink.violate("effect", "refused_although_result_equals_declared_bound", asite,
                                     expected={k: v for k, v in exp["expect"].items()}, **e.describe())
                    else:
                        sink.info("refused_at_declared_bound", site=asite)
                else:
                    sink.violate("effect", "no_effect_although_not_stopped_by_a_bound", asite,
                                 expected=exp["expect"], pre={k: pre_c.get(k) for k in exp["expect"]}, **e.describe())
            else:
                sink.violate("effect", "changed_differently_than_advertised", asite, expected=missing,
                             got={k: e.post_flat.get(k) for k in missing}, pre={k: e.pre_flat.get(k) for k in missing},
                             **e.describe())
        # free fields (random parts of CNN.add_layer): appended value inside the advertised range
        for k, spec in free.items():
            if spec is None:
                continue
            _, lo, hi = spec
            pre_v, post_v = e.pre_flat.get(k), e.post_flat.get(k)
            ok = isinstance(post_v, list) and post_v[:-1] == pre_v and len(post_v) == len(pre_v) + 1 and lo <= post_v[-1] <= hi
            if not ok:
                sink.violate("effect", "new_layer_outside_advertised_range", asite, field=k, pre=pre_v, post=post_v,
                             range=[lo, hi], **e.describe())
    elif status == "same_value":
        sink.hit("change_kernel_redrew_current_size(info)")
    # declared kernel limit for a random change_kernel
    lim = exp.get("free", {}).get("_kernel_limit")
    if lim is not None and not e.args:
        L, mk = lim
        post_k = e.post_flat.get(pfx + "kernel_size")
        if isinstance(post_k, list) and L < len(post_k) and not (1 <= post_k[L] <= mk):
            sink.violate("effect", "drawn_kernel_outside_declared_limit", asite, layer=L, kernel=post_k[L], limit=mk, **e.describe())
    # 2. nothing else
    extra = sorted(k for k in diff if k not in allowed and k not in free)
    if extra:
        kind = "changed_although_stopped_by_a_bound" if status == "stopped" else "changed_a_field_other_than_advertised"
        sink.violate("effect", kind, asite, fields=extra[:8], pre={k: e.pre_flat.get(k) for k in extra[:4]},
                     post={k: e.post_flat.get(k) for k in extra[:4]}, **e.describe())
    if status in ("change", "boundary") and changed_anything:
        return "changed"
    if status == "stopped" or (status == "boundary" and not changed_anything):
        return "stopped"
    return "other"


def monitor_bounds(sink: Sink, e):
    from vf.refmodels import archwalk as aw

    sink.hit("bound_checks")
    post = aw.bound_problems(e.post_flat, e.post_fams)
    if not post:
        return
    # values that were outside their range before the edge (library defaults start some fields there): the edge
    # is only blamed for a value that it moved (further) outside
    worst = {}
    for p in aw.bound_problems(e.pre_flat, e.pre_fams):
        if isinstance(p["value"], (int, float)):
            key = (p["path"], p["field"], p["kind"], p["index"] == "len")
            worst[key] = min(worst.get(key, p["value"]), p["value"]) if p["kind"].startswith("below") else max(worst.get(key, p["value"]), p["value"])
    for p in post:
        key = (p["path"], p["field"], p["kind"], p["index"] == "len")
        chain = e.post_fams.get(p["path"], ("?", "?"))[1]
        if key in worst and isinstance(p["value"], (int, float)):
            inherited = p["value"] >= worst[key] if p["kind"].startswith("below") else p["value"] <= worst[key]
            if inherited:
                sink.hit("inherited_out_of_range_values(info)")
                continue
        sink.violate("bounds", p["kind"], f"{chain}.{p['field']}", value=p["value"], declared=[p["min"], p["max"]],
                     index=p["index"], path=p["path"], **e.describe())


def monitor_forward(sink: Sink, e):
    from vf.refmodels import archwalk as aw

    for n in BATCH_SIZES:
        sink.hit("forward_checks")
        x = e.subject.batch(n, 100 + n)
        try:
            out = aw.forward(e.subject, e.child, x, train=True)
        except Exception as exc:
            sink.crash(exc, "forward", f"batch of {n} after {e.applied}", **e.describe())
            return
        probs = e.subject.output_problems(out, n)
        if probs:
            kind = "nonfinite_output" if any("nonfinite" in p for p in probs) else "output_shape_differs_from_declared"
            sink.violate("forward", kind, type(e.child).__name__, problems=probs, batch=n, **e.describe())
            return


def monitor_rebuild(sink: Sink, e):
    from vf.refmodels import archwalk as aw

    sink.hit("rebuild_checks")
    m = e.child
    try:
        init = m.init_dict
    except Exception as exc:
        sink.crash(exc, "rebuild", "init_dict", **e.describe())
        return
    npy = aw.py_type_problems(init)
    if npy:
        sink.hit("numpy_scalars_in_init_dict(info)")
    try:
        twin = type(m)(**copy.deepcopy(init))
    except Exception as exc:
        sink.crash(exc, "rebuild", "type(m)(**m.init_dict)", numpy_scalars=npy[:4], **e.describe())
        return
    try:
        tflat, _ = aw.flat_state(twin)
        if tflat != e.post_flat:
            d = sorted(k for k in set(tflat) | set(e.post_flat) if tflat.get(k) != e.post_flat.get(k))
            sink.violate("rebuild", "rebuilt_architecture_differs_from_described", type(m).__name__, fields=d[:8],
                         mutated={k: e.post_flat.get(k) for k in d[:4]}, rebuilt={k: tflat.get(k) for k in d[:4]}, **e.describe())
    except Exception as exc:
        sink.crash(exc, "rebuild", "init_dict of the rebuilt module", **e.describe())
    try:
        res = twin.load_state_dict(m.state_dict(), strict=True)
        if getattr(res, "missing_keys", None) or getattr(res, "unexpected_keys", None):
            sink.violate("rebuild", "state_dict_keys_differ", type(m).__name__, missing=list(res.missing_keys)[:6],
                         unexpected=list(res.unexpected_keys)[:6], **e.describe())
    except Exception as exc:
        sink.crash(exc, "rebuild", "load_state_dict(strict=True)", **e.describe())
    # the chain continues with clone(): it must work on the mutated child as well
    try:
        m.clone()
    except Exception as exc:
        sink.crash(exc, "rebuild", "mutated.clone()", **e.describe())


def judge(rec: Recorder, e, verdict: bool, tally):
    from vf.core import CaseTimeout

    sink = Sink(rec, verdict)
    sink.hit("edges")
    if e.clone_exc is not None:
        sink.crash(e.clone_exc, "rebuild", "parent.clone()", **e.describe())
        return
    if e.state_exc is not None:
        sink.crash(e.state_exc, "rebuild", "init_dict", **e.describe())
        return
    if e.call_exc is not None:
        if isinstance(e.call_exc, CaseTimeout):
            raise e.call_exc
        from vf.refmodels import archwalk as aw

        sink.crash(e.call_exc, "call", aw.site_of(e, e.called) + ("(explicit arguments)" if e.args else "()"), **e.describe())
        return
    try:
        outcome = monitor_effect(sink, e)
        if verdict:
            tally[outcome] = tally.get(outcome, 0) + 1
        monitor_bounds(sink, e)
    except CaseTimeout:
        raise
    except Exception as exc:  # a bug of the bound model must not be reported as a defect of the library
        from vf.refmodels.archwalk import reraise_watchdog

        reraise_watchdog(exc)
        rec.hit("harness_errors")
        rec.extra.setdefault("harness_errors", []).append(repr(exc)[:300] + " @ " + str(e.describe())[:300])
    monitor_forward(sink, e)
    monitor_rebuild(sink, e)
    ch = getattr(e, "parent_changed", None)
    if ch is not None:
        sink.hit("parent_untouched_checks")
        if ch:
            from vf.refmodels import archwalk as aw

            sink.violate("rebuild", "mutating_the_clone_changed_the_parents_constructor_description", aw.site_of(e, e.applied or e.called),
                         fields=ch[:6], **e.describe())


def run_case(case):
    from vf.refmodels import archwalk as aw

    rec = Recorder()
    subject = aw.Subject(case["subject"])
    tally = {}

    def on_edge(e):
        if getattr(e, "rejected", None):
            oc = str(e.rejected.get("outcome"))
            if oc.startswith("raised") and "+" not in oc:
                rec.hit("edges_on_a_module_that_rejected_a_call_before")
            else:
                rec.hit("rejected_call_accepted_or_changed_state(info)")
        judge(rec, e, True, tally)

    def on_edge_b(e):
        judge(rec, e, False, tally)

    def on_state(m, e):
        if e is None:  # initial configuration
            flat, fams = aw.flat_state(m)
            probs = aw.bound_problems(flat, fams)
            if probs:
                rec.hit("initial_values_outside_declared_range(info)", len(probs))
                rec.extra["initial_out_of_range"] = [f"{p['path']}|{p['field']}={p['value']} declared [{p['min']},{p['max']}]" for p in probs[:4]]
            rec.hit("declared_bound_checks")
            for mm in aw.declared_bound_mismatches(subject.opts, flat):
                rec.violate("bounds", "declared_bound_not_taken_over", f"{type(m).__name__}.{mm['argument']}",
                            subject=case["subject"], **mm)
            un = aw.unmodelled_bounds(flat, fams)
            if un:
                rec.hit("unmodelled_bound_arguments(info)", len(un))
                rec.extra["unmodelled_bounds"] = un[:6]

    if case["mode"] == "bfs":
        stats = aw.bfs(subject, on_edge, max_states=case.get("max_states", 3000), on_state=on_state)
        rec.extra["bfs"] = {"subject": case["subject"], **stats}
        rec.hit("bfs_states", stats["states"])
        rec.hit("bfs_edges", stats["edges"])
        if stats["truncated"]:
            rec.hit("bfs_truncated")
    else:
        stats = aw.random_walk(subject, case["steps"], case["seed"], on_edge, on_edge_b=on_edge_b, on_state=on_state)
        rec.hit("walk_steps", stats["steps"])
        rec.hit("star_edges_from_initial_configuration", stats["star_edges"])
        rec.hit("walk_explicit_argument_calls", stats["explicit"])
        rec.hit("walk_distinct_architectures", stats["distinct_states"])
        rec.extra["walk"] = {"methods": stats["methods"], "aborted": stats["aborted"]}
    rec.hit("edges_changed", tally.get("changed", 0))
    rec.hit("edges_stopped_by_bound", tally.get("stopped", 0))
    rec.nontrivial = tally.get("changed", 0) > 0 and (tally.get("stopped", 0) > 0 or rec.counters.get("fallback_edges", 0) > 0)
    return rec.result()


def finalize(ctx):
    sub = []
    harness = 0
    info = {}
    pattern_b = []
    for idx, r in ctx["results"].items():
        ex = r.get("extra") or {}
        if "bfs" in ex:
            b = ex["bfs"]
            sub.append({"subject": b["subject"], "states": b["states"], "edges": b["edges"],
                        "draw_sequences_enumerated": b["draw_sequences"], "complete": not b["truncated"]})
        harness += len(ex.get("harness_errors", []))
        for k, v in (ex.get("info") or {}).items():
            info.setdefault(k, v)
        for w in ex.get("pattern_B", []):
            sig = (w["monitor"], w["kind"], w["site"])
            if all((x["monitor"], x["kind"], x["site"]) != sig for x in pattern_b) and len(pattern_b) < 12:
                pattern_b.append(w)
    if harness:
        first = next((r["extra"]["harness_errors"][0] for r in ctx["results"].values() if (r.get("extra") or {}).get("harness_errors")), "")
        ctx["inconclusive"].append(f"{harness} edges could not be judged (bound model error): {first[:200]}")
    return {
        "exhaustive_subspaces": sub,
        "exhaustive": False,  # only the sub-spaces listed above are enumerated completely
        "states": sum(x["states"] for x in sub),
        "transitions": sum(x["edges"] for x in sub),
        "extra_observations": {"pattern_B": pattern_b, "info": info},
    }
