"""C20 - training loops compose end to end and keep step and population accounting right.

The six real train_* functions are run to completion on instrumented *counting* environments with real
agents, real buffers, real TournamentSelection / Mutations and real checkpoints.  Passive wrappers (record,
never raise) sit on get_action / learn / test / clone / save_checkpoint of the algorithm classes, on
TournamentSelection.select and Mutations.mutation, and on the environments' step / reset.

Monitors
  crash:<loop>       a train_* call raises for a supported (loop, algorithm, memory, env mode) combination;
                     the witness is classified by loop, exception type and the innermost repository frame
  step_accounting    agent.steps[-1] == environment steps (vector step calls x num_envs) really taken by this
                     agent, following clones (a clone inherits its parent's count); for train_offline the unit
                     is one learn() call
  budget             the loop stops in the first generation in which the documented budget is met (some agent
                     reached max_steps; summed over the population for train_multi_agent_on_policy) and not
                     before - unless the documented early stop (target) fired
  fitness            every agent is evaluated once per generation and its fitness list grows by exactly one;
                     the returned fitness history has one row per generation, one entry per agent
  population         returned / selected / mutated population has the given size and distinct indices
  elitism            with TournamentSelection(elitism=True) and Mutations(mutate_elite=False) member 0 of the next
                     generation equals (leaf by leaf) the best agent of the generation (ties accepted)
  checkpoint         population checkpoints exist under the documented names, cover the whole population and
                     load back with the same index / step counter
"""

from __future__ import annotations

import contextlib
import functools
import io
import os
import re
import shutil
import tempfile
import traceback

import numpy as np

from vf.core import CaseTimeout, Recorder

PROPERTY = "C20"
LEVEL = "exploration"
RULE = (
    "case = (loop, algorithm, observation/action family, env mode single|vec|sync-vec|async-vec with num_envs "
    "<,=,> learn_step, memory kind uniform|n-step|PER|n-step+PER, HPO off | tournament+mutation (mutation mix, "
    "elitism), checkpoint on/off, population 2-3, budget crossing 2-4 generations incl. evo_steps not a multiple of "
    "num_envs, unequal resumed step counters, early-stop target, learning delay, seed); non-trivial = the real loop "
    "either returned after >= 2 generations with step accounting, budget and fitness oracles evaluated, or raised "
    "(crash witness); distinct = distinct case descriptions"
    " Added: tournaments rank by a window of 1-3 evaluations (tourn_window), directed 5-6 generation cases with window 3 and protected elite"
)
ASSUMPTIONS = [
    "CPU only, accelerator=None, wb=False; swap_channels=False (channels-first counting environments)",
    "an environment step = one step() call on the (vector) environment x num_envs; for train_offline the step unit is "
    "one learn() call (the loop has no environment interaction while training)",
    "steps are attributed to the agent whose get_action() was called last outside agent.test(); steps taken inside "
    "agent.test() are evaluation steps and are not counted",
    "per-agent budget is read from the loop condition/docstring as: stop once some agent has reached max_steps "
    "(train_multi_agent_on_policy: once the sum over the population has); the budget oracle uses the agents' own "
    "counters, the step_accounting monitor ties those counters to the environment",
    "elitism: leaves of target/shared networks that equal the elite's own online network are accepted (Mutations."
    "mutation re-initialises every target from its online network; same exception as C01); the attribute 'mut' and, "
    "for share_encoders=True, the critic's detached encoder copy (known C01 mechanism) are ignored",
    "n-step / prioritised memories are only demanded for RainbowDQN (the only learner whose learn() accepts "
    "n_experiences / per); other (algorithm, memory) pairs run as informational probes",
    "multi-agent environments are reset once before the loop is called, as the documentation does",
    "evo_steps >= num_envs (a generation with zero environment steps never terminates; treated as misuse)",
    "learn progress (off-policy, on-policy, bandit loops): once the buffer could serve a batch before a step and the learning delay is over (on-policy: always), the acting agent reaches a learn() call within 2*max(learn_step, num_envs)+num_envs environment steps; the documented frequency leaves at most max(learn_step, num_envs) between two calls",
]
REQUIRED_COUNTERS = [
    "runs_completed",
    "step_accounting_checks",
    "budget_checks",
    "fitness_growth_checks",
    "population_checks",
    "elitism_checks",
    "checkpoint_checks",
]
CASE_TIMEOUT_S = 1800  # tiny runs (0.1-7 s); generous because the machine is shared and can stall for minutes
GEN_CAP = 40  # generations; every generated budget is met after <= 6

LOOP_FN = {
    "off": "train_off_policy",
    "on": "train_on_policy",
    "offline": "train_offline",
    "bandit": "train_bandits",
    "ma_off": "train_multi_agent_off_policy",
    "ma_on": "train_multi_agent_on_policy",
}
LOOP_ALGOS = {
    "off": ["DQN", "RainbowDQN", "DDPG", "TD3"],
    "on": ["PPO"],
    "offline": ["CQN"],
    "bandit": ["NeuralUCB", "NeuralTS"],
    "ma_off": ["MADDPG", "MATD3"],
    "ma_on": ["IPPO"],
}
MA_IDS = ["agent_0", "agent_1", "other_0"]


def preload():
    import gymnasium  # noqa
    import pandas  # noqa
    import pettingzoo  # noqa
    import agilerl.algorithms  # noqa
    import agilerl.components  # noqa
    import agilerl.components.multi_agent_replay_buffer  # noqa
    import agilerl.hpo.mutation  # noqa
    import agilerl.hpo.tournament  # noqa
    import agilerl.training.train_bandits  # noqa
    import agilerl.training.train_multi_agent_off_policy  # noqa
    import agilerl.training.train_multi_agent_on_policy  # noqa
    import agilerl.training.train_off_policy  # noqa
    import agilerl.training.train_offline  # noqa
    import agilerl.training.train_on_policy  # noqa
    import agilerl.vector.pz_async_vec_env  # noqa
    import agilerl.wrappers.learning  # noqa
    from vf.core import quiet_torch

    quiet_torch()


# =====================================================================================================
# the monitor state shared between wrappers and counting environments (one per case, one case at a time)
# =====================================================================================================
_MON = None


class _Runaway(Exception):
    """Raised by the counting environments to abort a loop that ran far beyond its budget."""


class Mon:
    def __init__(self, rec: Recorder, case, n_pop: int):
        self.rec = rec
        self.case = case
        self.loop = case["loop"]
        self.fn = LOOP_FN[self.loop]
        self.n_pop = n_pop
        self.in_test = 0
        self.cur = None
        self.true = {}  # id(agent) -> steps really taken (lineage followed through clones)
        self.keep = []  # every agent object ever seen (ids stay unique)
        self.cur_pop = None
        self.gen = 0
        self.gen_tests = []
        self.gen_start_fit = {}
        self.pre = []  # per generation: steps[-1] of the evaluated population
        self.post = []  # per generation: steps[-1] of the population that enters the next loop check
        self.early = []  # per generation: documented early-stop condition held
        self.pending_elite = None
        self.ckpt = []
        self.env_steps_train = 0
        self.env_steps_test = 0
        self.env_resets = 0
        self.unattributed = 0
        self.learn_calls = 0
        self.memory = None  # the 1-step replay memory handed to the off-policy loops
        self.learning_delay = 0
        self.starved = {}  # id(agent) -> environment steps taken with a ready buffer since its last learn() call
        self.starvation_reported = False
        self.bandit_obs_shapes = set()
        self.select_calls = 0
        self.abort = False

    # ------------------------------------------------------------------ plumbing
    def guard(self, fn, *a):
        try:
            return fn(*a)
        except CaseTimeout:
            raise
        except Exception as e:  # a bug of the harness must never look like a verdict
            self.rec.hit("monitor_internal_error")
            errs = self.rec.extra.setdefault("monitor_errors", [])
            if len(errs) < 3:
                errs.append(f"{fn.__name__}: {type(e).__name__}: {str(e)[:160]} | " + " < ".join(
                    f"{os.path.basename(f.filename)}:{f.lineno}" for f in traceback.extract_tb(e.__traceback__)[-3:]))
            return None

    def detail(self, **kw):
        c = self.case
        d = {
            "loop": self.fn,
            "algo": c["algo"],
            "mem": c.get("mem", "uniform"),
            "env_mode": c.get("env_mode"),
            "num_envs": c.get("num_envs"),
            "hpo": bool(c.get("hpo")),
            "gen": self.gen,
        }
        d.update(kw)
        return d

    def see(self, a):
        if id(a) not in self.true:
            self.keep.append(a)
            self.true[id(a)] = int(a.steps[-1])
            return False
        return True

    def register_pop(self, pop):
        for a in pop:
            self.see(a)
            self.gen_start_fit[id(a)] = len(a.fitness)
        self.cur_pop = list(pop)

    # ------------------------------------------------------------------ events
    def on_env_step(self, n):
        if self.abort:
            raise _Runaway()
        if self.in_test:
            self.env_steps_test += n
            return
        self.env_steps_train += n
        a = self.cur
        if a is None:
            self.unattributed += n
            return
        self.see(a)
        self.true[id(a)] += n
        if (self.loop in ("off", "ma_off", "bandit") and self.memory is not None) or self.loop in ("on", "ma_on"):
            self.guard(self._learn_progress, a, n)

    def _learn_progress(self, a, n):
        """Bounded progress of 'rollout -> buffer -> sampler -> learn()': once the buffer could serve a batch (and the learning
        delay is over) already BEFORE this step, the documented learning frequency (every learn_step environment steps; several
        updates per vector step when there are more sub-environments than that) leaves at most max(learn_step, num_envs)
        environment steps between two learn() calls of the acting agent. Twice that plus one vector step is allowed."""
        ls = int(getattr(a, "learn_step", 1))
        if self.loop in ("on", "ma_on"):
            # on-policy: a rollout of ceil(learn_step / num_envs) vector steps, then learn(); nothing to wait for
            have = None
            ready = True
        else:
            have = len(self.memory)
            ready = have >= int(getattr(a, "batch_size", 1)) + n and have > self.learning_delay + n
        if ready:
            self.starved[id(a)] = self.starved.get(id(a), 0) + n
            self.rec.hit("learn_progress_checks")
            if self.starved[id(a)] > 2 * max(ls, n) + n and not self.starvation_reported:
                self.starvation_reported = True
                self.rec.violate("learn_progress", "no_learn_call_although_the_buffer_can_serve_batches", self.fn, **self.detail(
                    agent_index=a.index, learn_step=ls, env_steps_without_learn=self.starved[id(a)], buffer_len=have,
                    batch_size=int(getattr(a, "batch_size", 1)), learning_delay=self.learning_delay, learn_calls_so_far=self.learn_calls))

    def on_env_reset(self):
        self.env_resets += 1

    def on_get_action(self, agent):
        if not self.in_test:
            if not self.see(agent):
                self.rec.hit("unknown_lineage(info)")
            self.cur = agent

    def on_learn(self, agent, experiences):
        self.learn_calls += 1
        self.starved[id(agent)] = 0
        if self.loop == "offline" and not self.in_test:
            self.see(agent)
            self.true[id(agent)] += 1
        if self.loop == "bandit":
            try:
                self.bandit_obs_shapes.add(tuple(experiences["obs"].shape[1:]))
            except Exception:
                pass

    def on_clone(self, parent, clone):
        self.see(parent)
        self.keep.append(clone)
        self.true[id(clone)] = self.true[id(parent)]
        self.rec.hit("clones_followed")

    def on_test_done(self, agent, before):
        self.gen_tests.append((agent, before, len(agent.fitness)))
        if self.cur_pop is not None and len(self.gen_tests) >= len(self.cur_pop):
            self.end_generation()

    def end_generation(self):
        rec = self.rec
        pop = self.cur_pop
        self.gen += 1
        rec.hit("generations")
        if self.gen > GEN_CAP:
            self.abort = True
        tested = sorted(id(t[0]) for t in self.gen_tests)
        if tested != sorted(id(a) for a in pop):
            rec.violate("fitness", "evaluation_not_once_per_agent", self.fn, **self.detail(
                tested=[getattr(t[0], "index", None) for t in self.gen_tests], population=[a.index for a in pop]))
        for a in pop:
            rec.hit("fitness_growth_checks")
            start = self.gen_start_fit.get(id(a))
            if start is None:
                continue
            grew = len(a.fitness) - start
            if grew != 1:
                rec.violate("fitness", "fitness_entries_per_generation_not_one", self.fn, **self.detail(
                    agent_index=a.index, grew=grew))
        self.check_steps(pop, "generation_end")
        self.pre.append([int(a.steps[-1]) for a in pop])
        self.post.append(list(self.pre[-1]))
        tgt = self.case.get("target")
        if tgt is not None:
            try:
                cond = all(float(np.mean(a.fitness[-10:])) > tgt for a in pop) and (len(pop[0].steps) + 1) >= 100
            except Exception:
                cond = False
            self.early.append(bool(cond))
        else:
            self.early.append(False)
        self.gen_tests = []
        for a in pop:
            self.gen_start_fit[id(a)] = len(a.fitness)

    def check_steps(self, pop, when):
        rec = self.rec
        for a in pop:
            rec.hit("step_accounting_checks")
            want = self.true.get(id(a))
            got = int(a.steps[-1])
            if want is None:
                rec.hit("unknown_lineage(info)")
                continue
            if got != want:
                rec.violate("step_accounting", "steps_counter_differs_from_steps_taken", self.fn, **self.detail(
                    when=when, agent_index=a.index, counter=got, taken=want, steps_list=[int(s) for s in a.steps[-6:]],
                    evo_steps=self.case.get("evo_steps"), learn_step=getattr(a, "learn_step", None)))

    # ------------------------------------------------------------------ selection / mutation
    def before_select(self, tourn, population):
        from vf import walk

        for a in population:
            self.see(a)
        snap = {"cands": [], "n": len(population)}
        if not tourn.elitism:
            return snap
        try:
            fits = [float(np.mean(a.fitness[-tourn.eval_loop:])) for a in population]
        except Exception:
            return snap  # per-agent fitness vectors (sum_scores=False): no scalar ranking to check against
        if any(f != f for f in fits):
            return snap
        best = max(fits)
        for a, f in zip(population, fits):
            if f == best:
                L = walk.agent_leaves(a)
                snap["cands"].append((a, L, walk.fingerprint_map(L)))
        snap["fits"] = fits
        return snap

    def after_select(self, tourn, population, out, snap):
        rec = self.rec
        elite, new_pop = out
        self.select_calls += 1
        rec.hit("population_checks")
        if tourn.population_size == len(population) and len(new_pop) != len(population):
            rec.violate("population", "selection_changes_population_size", "TournamentSelection.select", **self.detail(
                given=len(population), got=len(new_pop)))
        idx = [a.index for a in new_pop]
        if len(set(idx)) != len(idx):
            rec.violate("population", "duplicate_indices_after_selection", "TournamentSelection.select", **self.detail(
                indices=idx, parents=[a.index for a in population]))
        for a in new_pop:
            if not self.see(a):
                rec.hit("unknown_lineage(info)")
        self.pending_elite = snap if (snap and snap.get("cands") and tourn.elitism) else None

    def after_mutation(self, mut, population, out, pre_training):
        from vf import agentops, walk

        rec = self.rec
        rec.hit("population_checks")
        if len(out) != len(population):
            rec.violate("population", "mutation_changes_population_size", "Mutations.mutation", **self.detail(
                given=len(population), got=len(out)))
        idx = [a.index for a in out]
        if len(set(idx)) != len(idx):
            rec.violate("population", "duplicate_indices_after_mutation", "Mutations.mutation", **self.detail(indices=idx))
        for a in out:
            if not self.see(a):
                rec.hit("unknown_lineage(info)")
        pe, self.pending_elite = self.pending_elite, None
        if pe is not None and not pre_training and not mut.mutate_elite and len(out) > 0:
            rec.hit("elitism_checks")
            new0 = out[0]
            LB = walk.agent_leaves(new0)
            best = None
            for cand, LA, fpA in pe["cands"]:
                if walk.fingerprint_map(LA) != fpA:
                    rec.hit("elite_parent_changed_during_selection(info)")
                diffs, used = agentops.compare_copy(LA, LB, new0, allow_target_resync=True)
                rec.hit("elitism_target_resync_exceptions(info)", used)
                diffs = [d for d in diffs if not self.excused(d["path"])]
                if best is None or len(diffs) < len(best):
                    best = diffs
            if best:
                cats = sorted({_leaf_category(d["path"]) for d in best})
                rec.violate(
                    "elitism",
                    "elite_not_carried_unchanged:" + cats[0],
                    "tournament_selection_and_mutation",
                    **self.detail(
                        categories=cats,
                        n_diffs=len(best),
                        paths=[d["path"] for d in best[:6]],
                        first={k: v for k, v in best[0].items() if k != "path"},
                        elite_index=getattr(new0, "index", None),
                        fits=pe.get("fits"),
                    ),
                )
        if not pre_training and self.post:
            self.post[-1] = [int(a.steps[-1]) for a in out]
        self.cur_pop = list(out)
        for a in out:
            self.gen_start_fit[id(a)] = len(a.fitness)

    def excused(self, path: str) -> bool:
        root = path.split("/")[0].split("[")[0].split("(")[0]
        if root in ("mut", "_mut"):
            return True
        if self.case.get("share_encoders") and re.match(r"^critic[^/]*/encoder\.", path):
            self.rec.hit("elitism_shared_encoder_copy_ignored(info)")
            return True
        return False

    def on_checkpoint(self, agent, path):
        self.ckpt.append((str(path), int(getattr(agent, "index", -1)), int(agent.steps[-1]), self.gen))


def _leaf_category(path: str) -> str:
    root = path.split("/")[0].split("[")[0].split("(")[0].split(".")[0]
    if "/state[" in path or "/group[" in path:
        return "optimizer"
    if "/init_dict" in path:
        return "architecture"
    if "/" in path:
        return "weights:" + root
    return "attribute:" + root


# =====================================================================================================
# wrappers on the real classes (installed per case, removed afterwards)
# =====================================================================================================
@contextlib.contextmanager
def _patched(mon: Mon, algo_cls):
    from agilerl.algorithms.core.base import EvolvableAlgorithm
    from agilerl.hpo.mutation import Mutations
    from agilerl.hpo.tournament import TournamentSelection

    global _MON
    saved = []

    def patch(cls, name, make):
        own = name in cls.__dict__
        orig = getattr(cls, name)
        saved.append((cls, name, own, cls.__dict__.get(name)))
        setattr(cls, name, make(orig))

    def mk_get_action(orig):
        @functools.wraps(orig)
        def get_action(self, *a, **k):
            m = _MON
            if m is not None:
                m.guard(m.on_get_action, self)
            return orig(self, *a, **k)

        return get_action

    def mk_learn(orig):
        @functools.wraps(orig)
        def learn(self, experiences, *a, **k):
            m = _MON
            if m is not None:
                m.guard(m.on_learn, self, experiences)
            return orig(self, experiences, *a, **k)

        return learn

    def mk_test(orig):
        @functools.wraps(orig)
        def test(self, *a, **k):
            m = _MON
            if m is None:
                return orig(self, *a, **k)
            before = len(self.fitness)
            m.in_test += 1
            ok = False
            try:
                out = orig(self, *a, **k)
                ok = True
                return out
            finally:
                m.in_test -= 1
                if ok:
                    m.guard(m.on_test_done, self, before)

        return test

    def mk_clone(orig):
        @functools.wraps(orig)
        def clone(self, *a, **k):
            out = orig(self, *a, **k)
            m = _MON
            if m is not None:
                m.guard(m.on_clone, self, out)
            return out

        return clone

    def mk_save(orig):
        @functools.wraps(orig)
        def save_checkpoint(self, path, *a, **k):
            out = orig(self, path, *a, **k)
            m = _MON
            if m is not None:
                m.guard(m.on_checkpoint, self, path)
            return out

        return save_checkpoint

    def mk_select(orig):
        @functools.wraps(orig)
        def select(self, population):
            m = _MON
            snap = m.guard(m.before_select, self, population) if m is not None else None
            out = orig(self, population)
            if m is not None:
                m.guard(m.after_select, self, population, out, snap)
            return out

        return select

    def mk_mutation(orig):
        @functools.wraps(orig)
        def mutation(self, population, pre_training_mut=False):
            out = orig(self, population, pre_training_mut)
            m = _MON
            if m is not None:
                m.guard(m.after_mutation, self, population, out, pre_training_mut)
            return out

        return mutation

    try:
        patch(algo_cls, "get_action", mk_get_action)
        patch(algo_cls, "learn", mk_learn)
        patch(algo_cls, "test", mk_test)
        patch(EvolvableAlgorithm, "clone", mk_clone)
        patch(EvolvableAlgorithm, "save_checkpoint", mk_save)
        patch(TournamentSelection, "select", mk_select)
        patch(Mutations, "mutation", mk_mutation)
        _MON = mon
        yield
    finally:
        _MON = None
        for cls, name, own, orig in reversed(saved):
            if own:
                setattr(cls, name, orig)
            else:
                try:
                    delattr(cls, name)
                except AttributeError:
                    pass


# =====================================================================================================
# counting environments
# =====================================================================================================
def _spaces(obs_kind, act_kind):
    from vf import zoo

    return zoo.obs_space(obs_kind), zoo.act_space(act_kind)


def _det_obs(space, *key):
    from vf import zoo

    h = 1469598103
    for k in key:
        h = (h * 1000003 + int(k) + 11) % (2**31 - 1)
    return zoo.sample_obs(space, None, np.random.default_rng(h))


def _act_code(action) -> int:
    try:
        flat = np.asarray(action, dtype=np.float64).reshape(-1)
        return int(abs(float(flat.sum())) * 4) % 5
    except Exception:
        return 0


def _make_count_env_cls():
    import gymnasium as gym

    class CountEnv(gym.Env):
        """Tiny deterministic episodic environment; counts its own step()/reset() calls."""

        metadata = {"render_modes": []}

        def __init__(self, obs_kind="vector", act_kind="discrete", ep_len=4, end="term", salt=0, report=False):
            self.observation_space, self.action_space = _spaces(obs_kind, act_kind)
            self.ep_len = int(ep_len)
            self.end = end
            self.salt = int(salt)
            self.report = report
            self.t = 0
            self.episode = -1
            self.nsteps = 0
            self.nresets = 0

        def reset(self, *, seed=None, options=None):
            self.episode += 1
            self.t = 0
            self.nresets += 1
            if self.report and _MON is not None:
                _MON.on_env_reset()
            return _det_obs(self.observation_space, self.salt, self.episode, 0), {}

        def step(self, action):
            self.t += 1
            self.nsteps += 1
            if self.report and _MON is not None:
                _MON.on_env_step(1)
            done = self.t >= self.ep_len
            term = bool(done and (self.end == "term" or (self.end == "mixed" and self.episode % 2 == 0)))
            trunc = bool(done and not term)
            reward = float((self.t + _act_code(action) + self.salt) % 3) - 1.0
            return _det_obs(self.observation_space, self.salt, self.episode, self.t), reward, term, trunc, {}

    return CountEnv


def _make_count_vec_cls():
    import gymnasium as gym

    class CountVec(gym.vector.SyncVectorEnv):
        """gymnasium SyncVectorEnv that reports every step()/reset() call to the monitor."""

        def step(self, actions):
            if _MON is not None:
                _MON.on_env_step(self.num_envs)
            return super().step(actions)

        def reset(self, *, seed=None, options=None):
            if _MON is not None:
                _MON.on_env_reset()
            return super().reset(seed=seed, options=options)

    return CountVec


_CLS = {}


def _cls(name):
    if not _CLS:
        _CLS["CountEnv"] = _make_count_env_cls()
        _CLS["CountVec"] = _make_count_vec_cls()
        _CLS["CountParallelEnv"] = _make_pz_cls()
    if name == "CountAsyncPZVec" and name not in _CLS:
        _CLS[name] = _make_async_cls()
    return _CLS[name]


def _mk_count_env(obs_kind, act_kind, ep_len, end, salt, report=False):
    return _cls("CountEnv")(obs_kind, act_kind, ep_len, end, salt, report)


def _make_pz_cls():
    from pettingzoo import ParallelEnv

    class CountParallelEnv(ParallelEnv):
        """Tiny deterministic PettingZoo parallel environment (all agents end together)."""

        metadata = {"render_modes": [], "name": "count_pz_v0"}

        def __init__(self, obs_kind="vector", act_kind="box", ep_len=4, end="term", salt=0, report=False, ids=None):
            self.possible_agents = list(ids or MA_IDS)
            self.agents = self.possible_agents[:]
            self._os, self._as = _spaces(obs_kind, act_kind)
            self.ep_len = int(ep_len)
            self.end = end
            self.salt = int(salt)
            self.report = report
            self.render_mode = None
            self.t = 0
            self.episode = -1
            self.nsteps = 0
            self.nresets = 0

        def observation_space(self, agent):
            return self._os

        def action_space(self, agent):
            return self._as

        def close(self):
            pass

        def render(self):
            return None

        def _obs(self):
            return {a: _det_obs(self._os, self.salt, i, self.episode, self.t) for i, a in enumerate(self.possible_agents)}

        def reset(self, seed=None, options=None):
            self.episode += 1
            self.t = 0
            self.nresets += 1
            self.agents = self.possible_agents[:]
            if self.report and _MON is not None:
                _MON.on_env_reset()
            return self._obs(), {a: {} for a in self.possible_agents}

        def step(self, actions):
            self.t += 1
            self.nsteps += 1
            if self.report and _MON is not None:
                _MON.on_env_step(1)
            done = self.t >= self.ep_len
            term = bool(done and (self.end == "term" or (self.end == "mixed" and self.episode % 2 == 0)))
            trunc = bool(done and not term)
            rew = {
                a: float((self.t + _act_code(actions.get(a)) + i + self.salt) % 3) - 1.0
                for i, a in enumerate(self.possible_agents)
            }
            obs = self._obs()
            if done:
                self.agents = []
            return (
                obs,
                rew,
                {a: term for a in self.possible_agents},
                {a: trunc for a in self.possible_agents},
                {a: {} for a in self.possible_agents},
            )

    return CountParallelEnv


def _mk_pz_env(obs_kind, act_kind, ep_len, end, salt, report=False):
    return _cls("CountParallelEnv")(obs_kind, act_kind, ep_len, end, salt, report)


def _stack(xs):
    x0 = xs[0]
    if isinstance(x0, dict):
        return {k: _stack([x[k] for x in xs]) for k in x0}
    if isinstance(x0, tuple):
        return tuple(_stack([x[i] for x in xs]) for i in range(len(x0)))
    return np.stack([np.asarray(x) for x in xs])


class CountPZVec:
    """In-process vectorised PettingZoo environment (same-step auto-reset when all agents are done)."""

    def __init__(self, env_fns):
        from gymnasium.vector.utils import batch_space

        self.envs = [f() for f in env_fns]
        self.num_envs = len(self.envs)
        e0 = self.envs[0]
        self.possible_agents = list(e0.possible_agents)
        self.agents = list(self.possible_agents)
        self.num_agents = len(self.agents)
        self._sos = {a: e0.observation_space(a) for a in self.agents}
        self._sas = {a: e0.action_space(a) for a in self.agents}
        self._os = {a: batch_space(s, self.num_envs) for a, s in self._sos.items()}
        self._as = {a: batch_space(s, self.num_envs) for a, s in self._sas.items()}
        self.metadata = {}
        self.render_mode = None
        self.closed = False

    def observation_space(self, agent):
        return self._os[agent]

    def action_space(self, agent):
        return self._as[agent]

    def single_observation_space(self, agent):
        return self._sos[agent]

    def single_action_space(self, agent):
        return self._sas[agent]

    def reset(self, seed=None, options=None):
        if _MON is not None:
            _MON.on_env_reset()
        obs = [e.reset()[0] for e in self.envs]
        return {a: _stack([o[a] for o in obs]) for a in self.agents}, {a: {} for a in self.agents}

    def step(self, actions):
        if _MON is not None:
            _MON.on_env_step(self.num_envs)
        obs, rew, term, trunc = [], [], [], []
        for i, e in enumerate(self.envs):
            o, r, te, tr, _ = e.step({a: np.asarray(actions[a])[i] for a in self.agents})
            if all(bool(te[a]) or bool(tr[a]) for a in self.agents):
                o, _ = e.reset()
            obs.append(o)
            rew.append(r)
            term.append(te)
            trunc.append(tr)
        return (
            {a: _stack([o[a] for o in obs]) for a in self.agents},
            {a: np.asarray([r[a] for r in rew], dtype=np.float32) for a in self.agents},
            {a: np.asarray([t[a] for t in term], dtype=bool) for a in self.agents},
            {a: np.asarray([t[a] for t in trunc], dtype=bool) for a in self.agents},
            {a: {} for a in self.agents},
        )

    def close(self, **kw):
        self.closed = True


def _make_async_cls():
    from agilerl.vector.pz_async_vec_env import AsyncPettingZooVecEnv

    class CountAsyncPZVec(AsyncPettingZooVecEnv):
        """The real AsyncPettingZooVecEnv; step()/reset() calls of the client are reported to the monitor."""

        def step(self, actions):
            if _MON is not None:
                _MON.on_env_step(self.num_envs)
            return super().step(actions)

        def reset(self, *a, **k):
            if _MON is not None:
                _MON.on_env_reset()
            return super().reset(*a, **k)

    return CountAsyncPZVec


def _make_bandit_env(case):
    import pandas as pd
    from agilerl.wrappers.learning import BanditEnv

    class CountBanditEnv(BanditEnv):
        def step(self, k):
            if _MON is not None:
                _MON.on_env_step(1)
            return super().step(k)

        def reset(self):
            if _MON is not None:
                _MON.on_env_reset()
            return super().reset()

    class CountBanditEnvF32(CountBanditEnv):
        """Same environment, contexts handed out as float32 (what the networks compute in)."""

        def _new_state_and_target_action(self):
            st, tgt = super()._new_state_and_target_action()
            return st.astype(np.float32), tgt

    rng = np.random.default_rng(case["seed"] % 100003)
    arms, d, n = int(case.get("arms", 3)), int(case.get("feat", 2)), 12
    feats = pd.DataFrame(rng.normal(size=(n, d)).astype(np.float32))
    labels = np.arange(n) % arms
    targets = pd.DataFrame(labels)
    cls = CountBanditEnvF32 if case.get("env_mode") == "bandit_f32" else CountBanditEnv
    return cls(feats, targets), arms, d


# =====================================================================================================
# workload
# =====================================================================================================
def _default_act(algo):
    if algo in ("DQN", "RainbowDQN", "CQN"):
        return "discrete"
    if algo in ("DDPG", "TD3", "MADDPG", "MATD3"):
        return "box"
    return "discrete"


def _per_gen(c) -> int:
    """Steps one agent takes per generation with its initial hyper-parameters."""
    loop = c["loop"]
    n = 1 if c.get("env_mode") == "single" else int(c.get("num_envs", 1))
    if loop in ("off", "ma_off"):
        return (c["evo_steps"] // n) * n
    if loop in ("on", "ma_on"):
        ls = c["learn_step"]
        return -(c["evo_steps"] // -ls) * -(ls // -n) * n
    if loop == "offline":
        return c["evo_steps"]
    return c["episode_steps"]


def _case(loop, algo, seed, gens=3, edge="inside", **kw):
    c = {
        "loop": loop,
        "algo": algo,
        "obs": "vector",
        "act": _default_act(algo),
        "env_mode": "vec",
        "num_envs": 2,
        "learn_step": 2,
        "batch": 4,
        "mem": "uniform",
        "hpo": False,
        "pop": 2,
        "evo_steps": 8,
        "eval_steps": None,
        "eval_loop": 1,
        "ep_len": 4,
        "end": "term",
        "seed": int(seed),
    }
    if loop == "bandit":
        c.update(env_mode="bandit", num_envs=1, episode_steps=6, evo_steps=6, eval_steps=3, obs="context", act="arm")
    if loop == "offline":
        c.update(evo_steps=4)
    if loop in ("ma_off", "ma_on"):
        c.update(env_mode="syncvec")
    if loop in ("on", "ma_on"):
        c.update(learn_step=4)
    c.update(kw)
    if c["env_mode"] == "single":
        c["num_envs"] = 1
    if "max_steps" not in c:
        per = max(1, _per_gen(c))
        total = per * (c["pop"] if loop == "ma_on" else 1)
        base = max(c.get("init_steps") or [0]) if loop != "ma_on" else sum(c.get("init_steps") or [0])
        # 'exact': the budget is met exactly at the end of generation `gens`; 'inside': one step earlier it was not
        c["max_steps"] = base + total * gens - (0 if edge == "exact" else total - 1)
    return c


def _hpo(c, mut="mixed", elitism=True, mutate_elite=False, **kw):
    c = dict(c)
    c.update(hpo=True, mut=mut, elitism=elitism, mutate_elite=mutate_elite)
    # the tournament ranks by the mean of the last `tourn_window` fitness entries (its own eval_loop argument): with a
    # window > 1 the best-ranked agent is regularly not the one with the best latest evaluation
    c.setdefault("tourn_window", 1 + (int(c.get("seed", 0)) % 3))
    c.update(kw)
    return c


def _ck(c, overwrite=False, save_elite=False):
    c = dict(c)
    per = max(1, _per_gen(c))
    c.update(ckpt=int(per), overwrite=overwrite, save_elite=save_elite)
    return c


def cases(tier, seed):
    rng = np.random.default_rng(2000 + seed)

    def s():
        return int(rng.integers(1 << 30))

    out = []
    # ------------------------------------------------------------ corners, every loop x algorithm (quick)
    for algo in LOOP_ALGOS["off"]:
        out.append(_case("off", algo, s(), num_envs=2, learn_step=2))  # num_envs = learn_step
        out.append(_ck(_hpo(_case("off", algo, s(), num_envs=4, learn_step=2, evo_steps=10, pop=3))))  # >, evo % n != 0
        out.append(_hpo(_case("off", algo, s(), num_envs=2, learn_step=4, evo_steps=9, gens=2, edge="exact",
                              obs="image" if algo in ("DQN", "DDPG") else "dict"), mut="rl_hp"))  # <
        out.append(_case("off", algo, s(), env_mode="single", evo_steps=6, gens=2))  # un-vectorised
    out.append(_case("off", "DQN", s(), num_envs=1, learn_step=1, learning_delay=10, evo_steps=7, init_steps=[0, 7], gens=3))
    out.append(_hpo(_case("off", "DDPG", s(), num_envs=8, learn_step=2, evo_steps=16, init_steps=[16, 0], gens=2,
                          share_encoders=True), mut="param"))
    out.append(_case("off", "DQN", s(), num_envs=2, evo_steps=4, target=-1e9, steps_len=97, gens=6, batch=8))
    for mem in ("nstep", "per", "nstep_per"):
        out.append(_case("off", "RainbowDQN", s(), mem=mem, num_envs=2, learn_step=4, evo_steps=12))
        out.append(_ck(_hpo(_case("off", "RainbowDQN", s(), mem=mem, num_envs=4, learn_step=2, evo_steps=12, gens=2)),
                       overwrite=True))
    for act in ("discrete", "box"):
        out.append(_case("on", "PPO", s(), act=act, num_envs=2, learn_step=4, evo_steps=8))  # <
        out.append(_ck(_hpo(_case("on", "PPO", s(), act=act, num_envs=4, learn_step=4, evo_steps=10, pop=3), mut="rl_hp")))  # =
        out.append(_hpo(_case("on", "PPO", s(), act=act, num_envs=8, learn_step=4, evo_steps=8, gens=2,
                              obs="dict" if act == "box" else "image")))  # >
    out.append(_case("on", "PPO", s(), env_mode="single", learn_step=3, evo_steps=6, gens=2))
    out.append(_case("on", "PPO", s(), env_mode="single", learn_step=1, evo_steps=3, gens=2))
    out.append(_hpo(_case("on", "PPO", s(), num_envs=2, learn_step=3, evo_steps=7, init_steps=[0, 12], gens=3,
                          share_encoders=True), mut="none"))
    out.append(_case("on", "PPO", s(), act="multidiscrete", num_envs=2, learn_step=4, evo_steps=8, gens=2))
    for obs in ("vector", "image"):
        out.append(_case("offline", "CQN", s(), obs=obs))
        out.append(_ck(_hpo(_case("offline", "CQN", s(), obs=obs, pop=3, evo_steps=3))))
    out.append(_hpo(_case("offline", "CQN", s(), obs="dict", init_steps=[0, 4], gens=2), mut="rl_hp"))
    out.append(_case("offline", "DQN", s(), info_only=True))
    # the documented early stop in every loop that has one: a resumed population (>= 100 generations on record after a
    # few more) whose fitness is above the target, so the early-return path is really taken
    # resumed (already trained) populations in the loops that had no directed case: the budget is counted on the agents'
    # own step counters, not on what this call adds
    out.append(_case("ma_on", "IPPO", s(), num_envs=2, learn_step=4, evo_steps=8, init_steps=[16, 8], gens=2))
    out.append(_hpo(_case("ma_on", "IPPO", s(), num_envs=4, learn_step=4, evo_steps=8, init_steps=[24, 24, 24], pop=3, gens=2)))
    out.append(_case("bandit", "NeuralUCB", s(), env_mode="bandit_f32", init_steps=[12, 0], gens=2))
    # resumed populations with long histories under tournament + mutation: the early stop still needs len(steps) >= 100
    out.append(_hpo(_case("off", "DQN", s(), num_envs=2, evo_steps=4, target=-1e9, steps_len=97, fitness_len=96, gens=6, batch=8, pop=3)))
    out.append(_hpo(_case("on", "PPO", s(), num_envs=2, learn_step=4, evo_steps=4, target=-1e9, steps_len=98, fitness_len=97, gens=5, pop=3)))
    out.append(_hpo(_case("offline", "CQN", s(), evo_steps=3, steps_len=60, fitness_len=59, gens=3, pop=3), mut="none"))
    out.append(_case("offline", "CQN", s(), target=-1e9, steps_len=97, gens=6, evo_steps=3))
    out.append(_case("on", "PPO", s(), num_envs=2, learn_step=4, evo_steps=4, target=-1e9, steps_len=98, gens=5))
    out.append(_case("ma_off", "MADDPG", s(), num_envs=2, learn_step=2, evo_steps=4, target=-1e9, steps_len=97, gens=6))
    out.append(_case("ma_on", "IPPO", s(), num_envs=2, learn_step=4, evo_steps=4, target=-1e9, steps_len=98, gens=5))
    for algo in LOOP_ALGOS["bandit"]:
        out.append(_case("bandit", algo, s()))  # the real BanditEnv (float64 contexts)
        out.append(_case("bandit", algo, s(), env_mode="bandit_f32"))
        out.append(_ck(_hpo(_case("bandit", algo, s(), env_mode="bandit_f32", pop=3, episode_steps=5, evo_steps=5))))
        out.append(_hpo(_case("bandit", algo, s(), env_mode="bandit_f32", episode_steps=4, evo_steps=8, gens=4, learn_step=1),
                        mut="param"))
    for algo in LOOP_ALGOS["ma_off"]:
        out.append(_case("ma_off", algo, s(), env_mode="single", evo_steps=6))
        out.append(_case("ma_off", algo, s(), num_envs=2, learn_step=2))
        out.append(_ck(_hpo(_case("ma_off", algo, s(), num_envs=4, learn_step=2, evo_steps=10, pop=3))))
        out.append(_hpo(_case("ma_off", algo, s(), num_envs=2, learn_step=4, evo_steps=9, act="discrete", obs="image",
                              gens=2, edge="exact"), mut="rl_hp"))
        out.append(_case("ma_off", algo, s(), env_mode="asyncvec", num_envs=2, learn_step=1, evo_steps=6, gens=2))
    out.append(_case("ma_off", "MADDPG", s(), num_envs=2, learn_step=2, learning_delay=12, init_steps=[8, 0], gens=2, obs="dict"))
    for act in ("discrete", "box"):
        out.append(_case("ma_on", "IPPO", s(), act=act, env_mode="single", learn_step=3, evo_steps=6))
        out.append(_case("ma_on", "IPPO", s(), act=act, num_envs=2, learn_step=4, evo_steps=8))
        out.append(_ck(_hpo(_case("ma_on", "IPPO", s(), act=act, num_envs=4, learn_step=4, evo_steps=10, pop=3), mut="rl_hp")))
        out.append(_hpo(_case("ma_on", "IPPO", s(), act=act, num_envs=8, learn_step=4, evo_steps=8, gens=2,
                              obs="image" if act == "box" else "dict")))
    out.append(_case("ma_on", "IPPO", s(), env_mode="asyncvec", num_envs=2, learn_step=4, evo_steps=8, gens=2))
    out.append(_hpo(_case("ma_on", "IPPO", s(), num_envs=2, learn_step=4, evo_steps=8, gens=2, sum_scores=False)))
    out.append(_hpo(_case("ma_off", "MATD3", s(), num_envs=2, learn_step=2, evo_steps=8, gens=2, sum_scores=False)))
    out.append(_case("on", "PPO", s(), num_envs=2, learn_step=4, evo_steps=4, target=1e9, steps_len=99, gens=3))
    # informational probes: memories the learner has no arguments for
    out.append(_case("off", "DQN", s(), mem="per", info_only=True, gens=2))
    out.append(_case("off", "DDPG", s(), mem="nstep", info_only=True, gens=2))

    # directed: tournaments that rank by a 3-evaluation window, protected elite, parameter mutations, >= 5 generations
    out.append(_hpo(_case("off", "DQN", s(), num_envs=2, learn_step=2, evo_steps=8, gens=6, pop=4), mut="param", tourn_window=3))
    out.append(_hpo(_case("on", "PPO", s(), num_envs=2, learn_step=4, evo_steps=8, gens=6, pop=4), mut="param", tourn_window=3))
    out.append(_hpo(_case("ma_off", "MADDPG", s(), num_envs=2, learn_step=2, evo_steps=8, gens=5, pop=3), mut="param", tourn_window=2))

    # ------------------------------------------------------------ seeded random product
    nrand = 30 if tier == "quick" else 640
    loops = ["off"] * 6 + ["on"] * 3 + ["offline"] * 2 + ["bandit"] * 2 + ["ma_off"] * 4 + ["ma_on"] * 3
    for _ in range(nrand):
        loop = loops[int(rng.integers(len(loops)))]
        algo = LOOP_ALGOS[loop][int(rng.integers(len(LOOP_ALGOS[loop])))]
        kw = {"pop": int(rng.integers(2, 4)), "gens": int(rng.integers(2, 5)), "edge": "exact" if rng.random() < 0.4 else "inside",
              "ep_len": int(rng.integers(3, 8)), "end": ["term", "trunc", "mixed"][int(rng.integers(3))],
              "batch": int(rng.choice([4, 8])), "eval_loop": int(rng.integers(1, 3))}
        if loop not in ("bandit",):
            kw["obs"] = ["vector", "vector", "image", "dict"][int(rng.integers(4))]
            kw["eval_steps"] = None if rng.random() < 0.5 else int(rng.integers(2, 6))
        if loop in ("off", "on", "ma_off", "ma_on"):
            n = int(rng.choice([1, 2, 4, 8]))
            ls = int(rng.choice([1, 2, 4] if loop in ("off", "ma_off") else [2, 3, 4, 6]))
            kw.update(num_envs=n, learn_step=ls, evo_steps=int(rng.integers(max(n, 4), 3 * max(n, 4) + 1)))
            if loop in ("ma_off", "ma_on"):
                r = rng.random()
                kw["env_mode"] = "single" if r < 0.2 else ("asyncvec" if r < 0.3 else "syncvec")
                if kw["env_mode"] == "asyncvec":
                    kw["num_envs"] = int(rng.choice([2, 3]))
                    kw["evo_steps"] = max(kw["evo_steps"], kw["num_envs"])
            elif rng.random() < 0.12:
                kw["env_mode"] = "single"
            if loop in ("off", "ma_off") and rng.random() < 0.3:
                kw["learning_delay"] = int(rng.integers(1, 20))
        if loop == "off" and algo == "RainbowDQN":
            kw["mem"] = ["uniform", "nstep", "per", "nstep_per"][int(rng.integers(4))]
        if loop == "on":
            kw["act"] = ["discrete", "box", "multidiscrete", "multibinary"][int(rng.integers(4))]
        if loop == "ma_on":
            kw["act"] = ["discrete", "box"][int(rng.integers(2))]
        if loop == "ma_off":
            kw["act"] = ["box", "box", "discrete"][int(rng.integers(3))]
        if loop in ("ma_off", "ma_on") and rng.random() < 0.25:
            kw["sum_scores"] = False
        if loop != "bandit" and rng.random() < 0.06:
            # documented early stop: needs >= 100 generations on record (a resumed population) and fitness above target
            kw.update(steps_len=int(rng.integers(96, 100)), gens=int(rng.integers(3, 6)))
            kw["target"] = -1e9 if rng.random() < 0.7 else 1e9
        if loop == "offline":
            kw["evo_steps"] = int(rng.integers(2, 6))
        if loop == "bandit":
            es = int(rng.integers(3, 8))
            kw.update(episode_steps=es, evo_steps=es * int(rng.integers(1, 3)), learn_step=int(rng.integers(1, 3)),
                      env_mode="bandit" if rng.random() < 0.25 else "bandit_f32")
        if algo in ("DDPG", "TD3", "PPO") and rng.random() < 0.3:
            kw["share_encoders"] = True
        if rng.random() < 0.3 and loop != "ma_on":
            per = max(1, _per_gen(_case(loop, algo, 0, **{k: v for k, v in kw.items() if k not in ("gens", "edge")})))
            kw["init_steps"] = [int(per * int(rng.integers(0, 3))) for _ in range(kw["pop"])]
        c = _case(loop, algo, s(), **kw)
        if rng.random() < 0.6:
            c = _hpo(c, mut=["mixed", "rl_hp", "param", "arch", "act", "none"][int(rng.integers(6))],
                     elitism=bool(rng.random() < 0.8), mutate_elite=bool(rng.random() < 0.2),
                     tournament_size=int(rng.integers(1, 4)))
        if rng.random() < 0.4:
            c = _ck(c, overwrite=bool(rng.random() < 0.5), save_elite=bool(c.get("hpo") and rng.random() < 0.5))
        out.append(c)
    return out


# =====================================================================================================
# building one run
# =====================================================================================================
def _make_pop(case, num_envs):
    from vf import zoo

    algo, loop = case["algo"], case["loop"]
    kw = {"batch_size": int(case["batch"]), "learn_step": int(case["learn_step"])}
    hp = zoo.tiny_hp_config(algo) if case.get("hpo") else None
    if algo in ("DDPG", "TD3", "MADDPG", "MATD3"):
        kw["vect_noise_dim"] = int(num_envs)
    if algo in ("DDPG", "TD3", "PPO"):
        kw["share_encoders"] = bool(case.get("share_encoders", False))
    if algo in ("PPO", "IPPO"):
        kw["update_epochs"] = 1
    pop = []
    for i in range(int(case["pop"])):
        if loop == "bandit":
            from gymnasium import spaces

            arms, d = int(case.get("arms", 3)), int(case.get("feat", 2))
            cls = zoo.algo_cls(algo)
            a = cls(spaces.Box(-10.0, 10.0, (arms * d,), np.float32), spaces.Discrete(arms), index=i, hp_config=hp, **kw)
        elif loop in ("ma_off", "ma_on"):
            a = zoo.make_agent(algo, case["obs"], case["act"], index=i, hp_config=hp, agent_ids=list(MA_IDS), **kw)
        else:
            a = zoo.make_agent(algo, case["obs"], case["act"], index=i, hp_config=hp, **kw)
        pop.append(a)
    init = case.get("init_steps")
    if init:
        for a, s0 in zip(pop, init):
            a.steps = [int(s0)]
    if case.get("steps_len"):
        # a resumed population: one entry per earlier generation (the early-stop rule reads len(steps))
        for a in pop:
            a.steps = [int(a.steps[-1])] * int(case["steps_len"])
    if case.get("fitness_len"):
        # ... with the fitness history of those generations
        for i, a in enumerate(pop):
            a.fitness = [float((j * 7 + i) % 5) for j in range(int(case["fitness_len"]))]
    return pop


def _make_env(case):
    """-> (env, num_envs)"""
    loop = case["loop"]
    mode = case["env_mode"]
    salt = case["seed"] % 97
    n = int(case["num_envs"])
    if loop == "bandit":
        env, _, _ = _make_bandit_env(case)
        return env, 1
    if loop in ("ma_off", "ma_on"):
        mk = [functools.partial(_mk_pz_env, case["obs"], case["act"], case["ep_len"] + (i % 2), case["end"], salt + i)
              for i in range(n)]
        if mode == "single":
            env = _mk_pz_env(case["obs"], case["act"], case["ep_len"], case["end"], salt, report=True)
            return env, 1
        if mode == "asyncvec":
            return _cls("CountAsyncPZVec")(mk, context="fork"), n
        return CountPZVec(mk), n
    # single-agent gymnasium environments (also the evaluation environment of train_offline)
    if mode == "single":
        return _mk_count_env(case["obs"], case["act"], case["ep_len"], case["end"], salt, report=True), 1
    mk = [functools.partial(_mk_count_env, case["obs"], case["act"], case["ep_len"] + (i % 2), case["end"], salt + i)
          for i in range(n)]
    return _cls("CountVec")(mk), n


def _make_dataset(case):
    from vf import zoo

    rng = np.random.default_rng(case["seed"] % 7919)
    osp, asp = _spaces(case["obs"], case["act"])
    n = 24
    obs = zoo.sample_obs(osp, n, rng)
    if isinstance(obs, dict):
        observations = _DictRows(obs)
    else:
        observations = obs
    return {
        "observations": observations,
        "actions": rng.integers(0, asp.n, size=n).astype(np.int32),
        "rewards": rng.normal(size=n).astype(np.float32),
        "terminals": (np.arange(n) % 5 == 4).astype(np.float32),
    }


class _DictRows:
    """Row-indexable view of a dict observation batch (h5py group-like: dataset['observations'][i])."""

    def __init__(self, d):
        self.d = d

    def __getitem__(self, i):
        return {k: v[i] for k, v in self.d.items()}


def _make_hpo(case, n_pop):
    from agilerl.hpo.tournament import TournamentSelection
    from vf import agentops

    if not case.get("hpo"):
        return None, None
    probs = {
        "mixed": [0.2, 0.2, 0.2, 0.2, 0.2],
        "rl_hp": [0.0, 0.0, 0.0, 0.0, 1.0],
        "param": [0.0, 0.0, 1.0, 0.0, 0.0],
        "arch": [0.0, 1.0, 0.0, 0.0, 0.0],
        "act": [0.0, 0.0, 0.0, 1.0, 0.0],
        "none": [1.0, 0.0, 0.0, 0.0, 0.0],
    }[case.get("mut", "mixed")]
    mut = agentops.make_mutations(probs=probs, seed=case["seed"] % 100000, mutate_elite=bool(case.get("mutate_elite", False)))
    tourn = TournamentSelection(
        tournament_size=int(case.get("tournament_size", 2)),
        elitism=bool(case.get("elitism", True)),
        population_size=n_pop,
        eval_loop=int(case.get("tourn_window", case.get("eval_loop", 1))),
    )
    return tourn, mut


def _make_memory(case):
    from agilerl.components import MultiStepReplayBuffer, PrioritizedReplayBuffer, ReplayBuffer
    from agilerl.components.multi_agent_replay_buffer import MultiAgentReplayBuffer

    size = int(case.get("mem_size", 64))
    loop, mem = case["loop"], case.get("mem", "uniform")
    if loop in ("ma_off",):
        return {"memory": MultiAgentReplayBuffer(size, field_names=["state", "action", "reward", "next_state", "done"],
                                                 agent_ids=list(MA_IDS))}
    if loop in ("offline", "bandit"):
        return {"memory": ReplayBuffer(max_size=size)}
    if mem == "uniform":
        return {"memory": ReplayBuffer(max_size=size)}
    if mem == "nstep":
        return {"memory": ReplayBuffer(max_size=size), "n_step_memory": MultiStepReplayBuffer(max_size=size, n_step=3, gamma=0.99),
                "n_step": True}
    if mem == "per":
        return {"memory": PrioritizedReplayBuffer(max_size=size, alpha=0.6), "per": True}
    if mem == "nstep_per":
        return {"memory": PrioritizedReplayBuffer(max_size=size, alpha=0.6),
                "n_step_memory": MultiStepReplayBuffer(max_size=size, n_step=3, gamma=0.99), "n_step": True, "per": True}
    raise ValueError(mem)


def _train_fn(loop):
    import importlib

    name = LOOP_FN[loop]
    return getattr(importlib.import_module(f"agilerl.training.{name}"), name)


# =====================================================================================================
# one case
# =====================================================================================================
def run_case(case):
    from vf import agentops, zoo

    rec = Recorder()
    loop, algo = case["loop"], case["algo"]
    agentops.seed_all(case["seed"])
    tmp = tempfile.mkdtemp(prefix="c20_")
    env = None
    sink = io.StringIO()
    try:
        with contextlib.redirect_stdout(sink), contextlib.redirect_stderr(sink):
            env, num_envs = _make_env(case)
            pop = _make_pop(case, num_envs)
            n_pop = len(pop)
            tourn, mut = _make_hpo(case, n_pop)
            kw = dict(_make_memory(case)) if loop in ("off", "offline", "bandit", "ma_off") else {}
            kw.update(
                max_steps=int(case["max_steps"]),
                evo_steps=int(case["evo_steps"]),
                eval_loop=int(case["eval_loop"]),
                tournament=tourn,
                mutation=mut,
                wb=False,
                verbose=bool(case["seed"] % 2),
            )
            kw["eval_steps"] = case["eval_steps"]
            if case.get("target") is not None:
                kw["target"] = float(case["target"])
            if case.get("learning_delay") and loop in ("off", "ma_off"):
                kw["learning_delay"] = int(case["learning_delay"])
            if loop == "bandit":
                kw["episode_steps"] = int(case["episode_steps"])
            if loop in ("ma_off", "ma_on") and "sum_scores" in case:
                kw["sum_scores"] = bool(case["sum_scores"])
            if case.get("ckpt"):
                kw.update(checkpoint=int(case["ckpt"]), checkpoint_path=os.path.join(tmp, "ck.pt"),
                          overwrite_checkpoints=bool(case.get("overwrite")))
                if case.get("save_elite") and tourn is not None:
                    kw.update(save_elite=True, elite_path=os.path.join(tmp, "elite.pt"))
            if loop == "offline":
                args = (env, "count-env", _make_dataset(case), algo, pop)
            else:
                args = (env, "count-env", algo, pop)
            if loop in ("ma_off", "ma_on"):
                env.reset()  # as the documentation does before building the population
            fn = _train_fn(loop)
            mon = Mon(rec, case, n_pop)
            mon.memory = kw.get("memory")
            mon.learning_delay = int(kw.get("learning_delay", 0) or 0)
            mon.register_pop(pop)
            given_ids = [a.index for a in pop]
            crashed = None
            ret = None
            with _patched(mon, zoo.algo_cls(algo)):
                try:
                    ret = fn(*args, **kw)
                except CaseTimeout:
                    raise
                except _Runaway:
                    crashed = "runaway"
                except Exception as e:
                    crashed = e
            if crashed == "runaway":
                rec.hit("budget_checks")
                rec.violate("budget", "ran_a_generation_after_budget_met", mon.fn, **mon.detail(
                    runaway=True, generations=mon.gen, steps_after_generation=mon.post[-1] if mon.post else None,
                    max_steps=int(case["max_steps"])))
                mon.guard(mon.check_steps, mon.cur_pop or [], "runaway_abort")
            elif crashed is not None:
                _report_crash(rec, mon, case, crashed)
            else:
                rec.hit("runs_completed")
                mon.guard(_final_checks, rec, mon, case, ret, n_pop, given_ids, tmp, kw)
            rec.hit("env_steps_train", mon.env_steps_train)
            rec.hit("env_steps_eval", mon.env_steps_test)
            rec.hit("learn_calls", mon.learn_calls)
            if mon.unattributed:
                rec.hit("env_steps_unattributed(info)", mon.unattributed)
            if loop == "bandit" and mon.bandit_obs_shapes:
                arms, d = int(case.get("arms", 3)), int(case.get("feat", 2))
                if any(len(s) == 2 and s[0] == arms for s in mon.bandit_obs_shapes):
                    rec.hit("bandit_transition_holds_whole_context_matrix(info)")
            rec.extra["generations"] = mon.gen
            rec.nontrivial = bool(crashed is not None or (mon.gen >= 2 and rec.counters.get("step_accounting_checks", 0) > 0))
    finally:
        try:
            if env is not None and hasattr(env, "close"):
                with contextlib.redirect_stdout(sink), contextlib.redirect_stderr(sink):
                    env.close()
        except CaseTimeout:
            raise
        except Exception:
            rec.hit("env_close_failed(info)")
        shutil.rmtree(tmp, ignore_errors=True)
    return rec.result()


def _report_crash(rec, mon, case, e):
    loop = case["loop"]
    if case.get("info_only"):
        rec.hit("unsupported_combination_probe_raised(info)")
        rec.extra["info_probe"] = f"{LOOP_FN[loop]}/{case['algo']}/{case.get('mem', 'uniform')}: {type(e).__name__}: {str(e)[:120]}"
        return
    files = [os.path.basename(os.path.dirname(f.filename)) + "/" + os.path.basename(f.filename)
             for f in traceback.extract_tb(e.__traceback__)]
    kind = "crash"
    if "hpo/mutation.py" in files:
        kind = "crash_in_mutation"  # the mutation itself failed (C02/C03 mechanisms), not the glue around it
    elif "hpo/tournament.py" in files:
        kind = "crash_in_selection"
    rec.crash(
        e,
        monitor=kind + ":" + LOOP_FN[loop],
        where=LOOP_FN[loop],
        algo=case["algo"],
        mem=case.get("mem", "uniform"),
        env_mode=case.get("env_mode"),
        obs=case.get("obs"),
        act=case.get("act"),
        hpo=bool(case.get("hpo")),
        mut=case.get("mut"),
        gen=mon.gen,
        num_envs=case.get("num_envs"),
        learn_step=case.get("learn_step"),
    )
    # two different statements of one function are two mechanisms: name the failing statement (text, no line number)
    from vf.core import repo_root

    root = repo_root() + os.sep
    for fr in reversed(traceback.extract_tb(e.__traceback__)):
        if os.path.abspath(fr.filename).startswith(root):
            stmt = re.sub(r"\s+", " ", (fr.line or "").strip())[:70]
            w = rec.witnesses[-1]
            w["statement"] = stmt
            w["site"] = f"{w['site']}@{stmt}"
            break


def _met(loop, steps, max_steps):
    if loop == "ma_on":
        return int(np.sum(steps)) >= max_steps
    return bool(np.any(np.asarray(steps) >= max_steps))


def _final_checks(rec, mon, case, ret, n_pop, given_ids, tmp, kw):
    loop = case["loop"]
    fn = mon.fn
    ok_shape = isinstance(ret, tuple) and len(ret) == 2
    if not ok_shape:
        rec.violate("population", "return_value_not_population_and_fitnesses", fn, **mon.detail(type=type(ret).__name__))
        return
    pop, fits = ret
    # ------------------------------------------------ population
    rec.hit("population_checks")
    if len(pop) != n_pop:
        rec.violate("population", "returned_population_size_differs", fn, **mon.detail(given=n_pop, got=len(pop)))
    idx = [a.index for a in pop]
    if len(set(idx)) != len(idx):
        rec.violate("population", "returned_indices_not_distinct", fn, **mon.detail(indices=idx, given=given_ids))
    if mon.cur_pop is not None and [id(a) for a in pop] != [id(a) for a in mon.cur_pop]:
        rec.hit("returned_population_is_not_last_generation(info)")
    # ------------------------------------------------ steps
    mon.check_steps(pop, "return")
    # ------------------------------------------------ generations / budget
    G = mon.gen
    if mon.gen_tests:
        rec.violate("fitness", "returned_in_the_middle_of_an_evaluation_round", fn, **mon.detail(tested=len(mon.gen_tests)))
    max_steps = int(case["max_steps"])
    rec.hit("budget_checks")
    early_at = next((g for g, e in enumerate(mon.early, 1) if e), None)
    for g in range(1, G):
        if early_at is not None and g >= early_at:
            rec.violate("budget", "ran_on_after_early_stop_condition", fn, **mon.detail(at=g, generations=G))
            break
        if _met(loop, mon.post[g - 1], max_steps):
            rec.violate("budget", "ran_a_generation_after_budget_met", fn, **mon.detail(
                at=g, generations=G, steps_after_generation=mon.post[g - 1], max_steps=max_steps))
            break
    if G == 0:
        init = [int(a.steps[-1]) for a in pop]
        if not _met(loop, init, max_steps):
            rec.violate("budget", "stopped_before_budget_met", fn, **mon.detail(generations=0, steps=init, max_steps=max_steps))
    else:
        final = [int(a.steps[-1]) for a in pop]
        if not _met(loop, final, max_steps) and not (early_at is not None and early_at == G):
            rec.violate("budget", "stopped_before_budget_met", fn, **mon.detail(
                generations=G, steps=final, max_steps=max_steps))
        if early_at is not None and early_at == G:
            rec.hit("early_stops_observed")
    # ------------------------------------------------ fitness history
    rec.hit("fitness_history_checks")
    try:
        rows = len(fits)
    except Exception:
        rows = -1
    if rows != G:
        lead = 0
        for row in fits:
            if isinstance(row, dict):
                lead += 1
        rec.violate("fitness", "fitness_history_rows_differ_from_generations", fn, **mon.detail(
            rows=rows, generations=G, leading_non_fitness_rows=lead))
    else:
        for row in fits:
            try:
                k = len(row)
            except Exception:
                k = -1
            if k != n_pop:
                rec.violate("fitness", "fitness_history_row_not_one_entry_per_agent", fn, **mon.detail(row_len=k, pop=n_pop))
                break
    # ------------------------------------------------ per-agent histories: one fitness entry per agent and generation, whatever
    # selection / mutation do in between (a clone inherits its parent's history, and all parents have equally long ones)
    L0 = int(case.get("fitness_len") or 0)
    rec.hit("agent_history_checks")
    for a in pop:
        try:
            got = len(a.fitness)
        except Exception:
            got = -1
        if got != L0 + G:
            rec.violate("fitness", "agent_fitness_history_not_one_entry_per_generation", fn, **mon.detail(
                agent_index=getattr(a, "index", None), length=got, started_with=L0, generations=G))
            break
    # ------------------------------------------------ checkpoints
    if case.get("ckpt"):
        _checkpoint_checks(rec, mon, case, pop, n_pop, tmp)
    if case.get("save_elite") and case.get("hpo") and G >= 1:
        rec.hit("elite_file_checks")
        if mon.select_calls > 0 and not os.path.exists(os.path.join(tmp, "elite.pt")):
            rec.violate("checkpoint", "elite_file_missing", "tournament_selection_and_mutation", **mon.detail())


def _checkpoint_checks(rec, mon, case, pop, n_pop, tmp):
    from vf import zoo

    fn = mon.fn
    rec.hit("checkpoint_checks")
    ck = int(case["ckpt"])
    # population checkpoints only (the elite file goes through the same method)
    saves = [s for s in mon.ckpt if os.path.basename(s[0]).startswith("ck_")]
    # the documented early stop returns straight from the evaluation: that generation writes no checkpoint
    early_at = next((g for g, e in enumerate(mon.early, 1) if e), None)
    due = any(p and p[0] >= ck for g, p in enumerate(mon.post, 1) if g != early_at)
    if due and not saves:
        rec.violate("checkpoint", "no_checkpoint_although_frequency_reached", fn, **mon.detail(
            checkpoint=ck, first_member_steps=[p[0] for p in mon.post]))
        return
    events = {}
    for path, index, steps, gen in saves:
        events.setdefault(gen, []).append(path)
    for gen, paths in sorted(events.items()):
        rec.hit("checkpoint_events")
        if len(paths) != n_pop or len(set(paths)) != n_pop:
            rec.violate("checkpoint", "checkpoint_does_not_cover_population", fn, **mon.detail(
                at=gen, files=[os.path.basename(p) for p in paths], pop=n_pop))
            break
    missing = [os.path.basename(p) for p, _, _, _ in saves if not os.path.exists(p)]
    if missing:
        rec.violate("checkpoint", "checkpoint_file_missing", fn, **mon.detail(missing=missing[:4]))
    for path, index, steps, gen in saves:
        base = os.path.basename(path)
        want = r"^ck_\d+\.pt$" if case.get("overwrite") else rf"^ck_\d+_{steps}\.pt$"
        if not re.match(want, base):
            rec.violate("checkpoint", "checkpoint_name_not_as_documented", fn, **mon.detail(name=base, steps=steps))
            break
    # load the last one back
    if saves and os.path.exists(saves[-1][0]):
        path, index, steps, gen = saves[-1]
        rec.hit("checkpoint_loads")
        try:
            loaded = zoo.algo_cls(case["algo"]).load(path)
        except CaseTimeout:
            raise
        except Exception as e:
            rec.crash(e, monitor="checkpoint_load", where="Algo.load(checkpoint written by " + fn + ")", algo=case["algo"],
                      obs=case.get("obs"), hpo=bool(case.get("hpo")), mut=case.get("mut"))
            return
        if int(loaded.index) != index or int(loaded.steps[-1]) != steps:
            rec.violate("checkpoint", "loaded_checkpoint_has_other_index_or_steps", fn, **mon.detail(
                saved=[index, steps], loaded=[int(loaded.index), int(loaded.steps[-1])]))


def finalize(ctx):
    c = ctx["counters"]
    if c.get("monitor_internal_error", 0) > 0:
        ctx["inconclusive"].append(f"monitor_internal_error x{int(c['monitor_internal_error'])} (harness bug, see extras)")
    by_loop = {}
    for idx, case in enumerate(ctx["cases"]):
        r = ctx["results"].get(idx)
        if r is None:
            continue
        key = f"{LOOP_FN[case['loop']]}/{case['algo']}"
        d = by_loop.setdefault(key, {"runs": 0, "completed": 0, "generations": 0})
        d["runs"] += 1
        d["completed"] += int(r.get("counters", {}).get("runs_completed", 0))
        d["generations"] += int(r.get("counters", {}).get("generations", 0))
    return {"runs_by_loop_and_algorithm": by_loop}
