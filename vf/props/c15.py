"""C15 - observation handling is value-correct and batch-, agent- and env-consistent.

Boundary monitors + a small numpy reference model of the *documented* transformations:

  prepare            preprocess_observation (free function, RLAlgorithm method, MultiAgentRLAlgorithm
                     method, IPPO method, and - passively - every call the algorithms make themselves):
                     float32 tensor, shape (rows, *network input shape), value == reference
                     (one-hot / concatenated one-hots / identity / (x-low)/(high-low)), member by member.
  batch_vs_single    rows of a prepared batch == what preparing each element alone gives (real vs real).
  vect_dim           get_vect_dim == true number of environments.
  consequence_*      greedy action / Q / value / entropy reported for ONE observation of ONE agent in ONE
                     environment is the same whatever else shares the call: single-agent DQN/DDPG/TD3/PPO,
                     shared-policy IPPO (env subsets, env order, agent order in the dict), MADDPG/MATD3
                     actors and centralised critics fed through stack_critic_observations.
  critic_stack       layout of stack_critic_observations == concatenation in agent_ids order (also tapped
                     inside learn()).
  homogeneous_roundtrip   disassemble(assemble(x)) == x, assembled rows agent-major.
  shared_inputs      IPPO.assemble_shared_inputs routes every agent's observation list to its own key.
"""

from __future__ import annotations

import itertools
from collections import namedtuple

import numpy as np

from vf.core import CaseTimeout, Recorder, crash_witness

PROPERTY = "C15"
LEVEL = "exploration"
RULE = (
    "case families: prep = (space spec, normalisation on/off, seed): B seeded observations (bounds hit exactly) are "
    "presented unbatched / batch-of-one / batch B / (step,env) as numpy, torch, TensorDict, numpy scalars and Python "
    "numbers to the free function and to the RLAlgorithm / MultiAgentRLAlgorithm / IPPO methods, each result compared "
    "with the numpy reference, each batch row with the element prepared alone, get_vect_dim with the true width; "
    "algo = (DQN|DDPG|TD3|PPO, space, seed): outputs for each observation alone vs embedded in permuted / partial / "
    "duplicated batches; ippo / mac = (space, E, seed): per (agent, env) value, entropy, greedy action and centralised "
    "critic value vs every env subset/order and agent order of the dict. non-trivial = at least two observations with "
    "different reference rows (outputs differing by > 1e-3 for the consequence families) were compared; distinct = "
    "distinct case descriptions"
    " Added: Dict observations presented with their members in reversed / rotated key order (dict and TensorDict) in the consequence family, a Dict space with two image members, signed-integer image spaces whose range overflows their dtype, dark / binary frames (30 % of the image samples)"
)
ASSUMPTIONS = [
    "batch dimensions are inferred from the rank only, as the statement's input list implies: rank(space) = one "
    "observation, +1 = batch, +2 = (step, env) flattened row-major; no other shapes are fed",
    "network input shape: Box -> space.shape (a rank-0 Box row may be (rows,) or (rows,1)), Discrete -> (n,), "
    "MultiDiscrete -> (sum(nvec),), MultiBinary(n:int) -> (n,); multi-dimensional MultiBinary / MultiDiscrete and "
    "Discrete(start != 0) are not fed (the library nowhere claims them)",
    "image = Box of rank 3 (the library's is_image_space); with an infinite bound min-max scaling is undefined, the "
    "oracle accepts identity (documented bypass) or element-wise scaling where both bounds are finite; high == low is "
    "not fed",
    "float tolerance: identity / one-hot exact, normalisation 2e-6 + 1e-5*|x|, network outputs 1e-5 + 1e-5*|x| "
    "(batched matmul may reorder sums); greedy DQN actions only compared where the Q margin exceeds 1e-4",
    "the reference output for one observation is the real network applied to the real free-function preparation of "
    "that observation alone (validated separately by the prepare monitor)",
    "multi-agent calls always contain every agent (the training loops never drop agents); constructor limits of the "
    "multi-agent classes (rank-0 Box, MultiBinary for MADDPG/MATD3) are counted as info, not as verdicts",
    "get_vect_dim on a bare Python number is counted as info only (its signature documents array observations)",
    "stochastic PPO/IPPO actions are not compared, only value, entropy and (DQN/DDPG/TD3/MADDPG/MATD3) greedy outputs",
]
REQUIRED_COUNTERS = [
    "value_checks",
    "row_vs_single_checks",
    "vect_dim_checks",
    "consequence_single_checks",
    "consequence_shared_policy_checks",
    "consequence_ma_actor_checks",
    "consequence_central_critic_checks",
    "critic_stack_checks",
    "roundtrip_checks",
    "shared_input_checks",
    "boundary_prepare_calls",
]
CASE_TIMEOUT_S = 180

AGENTS = ["agent_0", "agent_1", "other_0"]
TOL_A, TOL_R = 1e-5, 1e-5


def preload():
    import torch  # noqa
    import tensordict  # noqa
    import gymnasium  # noqa
    import agilerl.utils.algo_utils  # noqa
    import agilerl.algorithms.core.base  # noqa
    import agilerl.algorithms.dqn  # noqa
    import agilerl.algorithms.ddpg  # noqa
    import agilerl.algorithms.td3  # noqa
    import agilerl.algorithms.ppo  # noqa
    import agilerl.algorithms.ippo  # noqa
    import agilerl.algorithms.maddpg  # noqa
    import agilerl.algorithms.matd3  # noqa
    from vf.core import quiet_torch

    quiet_torch()


# ====================================================================== space specs
def _box(shape, dtype="float32", bounds="sym"):
    return {"t": "box", "shape": list(shape), "dtype": dtype, "bounds": bounds}


def _disc(n):
    return {"t": "disc", "n": int(n)}


def _md(*nvec):
    return {"t": "md", "nvec": [int(n) for n in nvec]}


def _mb(n):
    return {"t": "mb", "n": int(n)}


def _dict(**m):
    return {"t": "dict", "m": m}


def _tuple(*m):
    return {"t": "tuple", "m": list(m)}


def _bounds(kind, shape, dtype):
    signed = not np.issubdtype(dtype, np.unsignedinteger)
    n = int(np.prod(shape)) if len(shape) else 1
    idx = np.arange(n).reshape(shape) if len(shape) else np.asarray(0)
    if kind == "255":
        lo, hi = 0, 255
    elif kind == "01":
        lo, hi = 0, 1
    elif kind == "sym":
        lo, hi = (-1, 1) if signed else (0, 3)
    elif kind == "asym":
        lo, hi = (-2, 6) if signed else (16, 240)
    elif kind == "perchan":
        lo = (-(1 + idx % 3)) if signed else (idx % 3)
        hi = lo + 2 + (idx % 5) * 3
    elif kind == "full":
        # the whole range of an integer dtype (int8 [-128, 127], int16 [-32768, 32767], uint8 [0, 255]): high - low does
        # not fit the dtype itself
        info = np.iinfo(dtype)
        lo, hi = int(info.min), int(info.max)
    elif kind == "wide":
        lo, hi = (-100, 100) if signed else (5, 250)  # int8: high - low = 200 > 127
    elif kind == "inf":
        lo, hi = -np.inf, np.inf
    elif kind == "halfinf":
        lo, hi = 0.0, np.inf
    elif kind == "mixinf":
        lo = np.zeros(shape)
        hi = np.full(shape, 10.0)
        hi.reshape(-1)[0] = np.inf
    else:
        raise ValueError(kind)
    lo = np.broadcast_to(np.asarray(lo, dtype=np.float64), shape).astype(dtype)
    hi = np.broadcast_to(np.asarray(hi, dtype=np.float64), shape).astype(dtype)
    return lo, hi


def mk_space(s):
    from gymnasium import spaces

    t = s["t"]
    if t == "box":
        shape = tuple(s["shape"])
        dtype = np.dtype(s["dtype"])
        lo, hi = _bounds(s["bounds"], shape, dtype)
        return spaces.Box(low=lo, high=hi, shape=shape, dtype=dtype)
    if t == "disc":
        return spaces.Discrete(s["n"])
    if t == "md":
        return spaces.MultiDiscrete(s["nvec"])
    if t == "mb":
        return spaces.MultiBinary(s["n"])
    if t == "dict":
        return spaces.Dict({k: mk_space(v) for k, v in s["m"].items()})
    if t == "tuple":
        return spaces.Tuple(tuple(mk_space(v) for v in s["m"]))
    raise ValueError(t)


def _is_container(space):
    from gymnasium import spaces

    return isinstance(space, (spaces.Dict, spaces.Tuple))


def _leaf_kind(space):
    from gymnasium import spaces

    if isinstance(space, spaces.Box):
        return f"Box{len(space.shape)}"
    return type(space).__name__


def _first_leaf_kind(space):
    """Kind of the first leaf (what get_vect_dim and the default encoders look at)."""
    from gymnasium import spaces

    if isinstance(space, spaces.Dict):
        return _first_leaf_kind(next(iter(space.spaces.values())))
    if isinstance(space, spaces.Tuple):
        return _first_leaf_kind(space.spaces[0])
    return _leaf_kind(space)


def _first_leaf_shape(space):
    from gymnasium import spaces

    while isinstance(space, (spaces.Dict, spaces.Tuple)):
        space = next(iter(space.spaces.values())) if isinstance(space, spaces.Dict) else space.spaces[0]
    return tuple(space.shape)


def _container_kind(space):
    from gymnasium import spaces

    return "Dict" if isinstance(space, spaces.Dict) else ("Tuple" if isinstance(space, spaces.Tuple) else "plain")


def _blame_member(obs, space, norm):
    """For an exception raised while preparing a Dict/Tuple observation: kind of the first member whose own
    preparation raises (so that the witness names the mechanism, not the container)."""
    from gymnasium import spaces

    import agilerl.utils.algo_utils as au

    try:
        if isinstance(space, spaces.Dict):
            members = [(obs[k], space[k]) for k in obs.keys()]
        elif isinstance(space, spaces.Tuple):
            members = list(zip(obs, space.spaces))
        else:
            return _leaf_kind(space)
    except Exception:
        return _first_leaf_kind(space)
    for o, sp in members:
        try:
            au.preprocess_observation(o, sp, "cpu", norm)
        except CaseTimeout:
            raise
        except Exception:
            return _leaf_kind(sp)
    return _first_leaf_kind(space)


def _raw_shape(space):
    from gymnasium import spaces

    if isinstance(space, spaces.Box):
        return tuple(space.shape)
    if isinstance(space, spaces.Discrete):
        return ()
    if isinstance(space, spaces.MultiDiscrete):
        return (len(space.nvec),)
    if isinstance(space, spaces.MultiBinary):
        return (int(space.n),)
    raise TypeError(type(space))


def _in_shape(space):
    """Shape of one prepared row = the network's input shape."""
    from gymnasium import spaces

    if isinstance(space, spaces.Box):
        return tuple(space.shape)
    if isinstance(space, spaces.Discrete):
        return (int(space.n),)
    if isinstance(space, spaces.MultiDiscrete):
        return (int(np.sum(space.nvec)),)
    if isinstance(space, spaces.MultiBinary):
        return (int(space.n),)
    raise TypeError(type(space))


# ====================================================================== reference model (the property, not the code)
def ref_leaf(x, space, norm):
    """x: (R, *raw shape) numpy rows of one leaf space.  Returns a list of candidate (R, *input shape)
    float64 arrays; a prepared value is right when element-wise it equals one of the candidates."""
    from gymnasium import spaces

    R = x.shape[0]
    if isinstance(space, spaces.Discrete):
        out = np.zeros((R, int(space.n)))
        for r in range(R):
            out[r, int(x[r])] = 1.0
        return [out]
    if isinstance(space, spaces.MultiDiscrete):
        nvec = [int(n) for n in space.nvec]
        out = np.zeros((R, sum(nvec)))
        off = 0
        for j, n in enumerate(nvec):
            for r in range(R):
                out[r, off + int(x[r, j])] = 1.0
            off += n
        return [out]
    if isinstance(space, spaces.MultiBinary):
        return [x.astype(np.float32).astype(np.float64)]
    if isinstance(space, spaces.Box):
        ident = x.astype(np.float32).astype(np.float64)
        if not (norm and len(space.shape) == 3):
            return [ident]
        lo = np.asarray(space.low, dtype=np.float64)
        hi = np.asarray(space.high, dtype=np.float64)
        fin = np.isfinite(lo) & np.isfinite(hi)
        with np.errstate(all="ignore"):
            scaled = np.where(fin, (ident - lo) / (hi - lo), ident)
        if fin.all():
            return [scaled]
        return [ident, scaled]  # min-max scaling with an infinite bound is undefined: documented bypass accepted
    raise TypeError(type(space))


_Leaf = namedtuple("_Leaf", "cands rows in_shape kind space path")


class _OracleSkip(Exception):
    pass


def _to_np(x):
    import torch

    if isinstance(x, torch.Tensor):
        return x.detach().cpu().numpy()
    return np.asarray(x)


def oracle(obs, space, norm, path=""):
    """Expected preparation of a raw observation, batch dimensions inferred from the rank only."""
    from gymnasium import spaces

    if isinstance(space, spaces.Dict):
        return {k: oracle(obs[k], space[k], norm, f"{path}/{k}") for k in obs.keys()}
    if isinstance(space, spaces.Tuple):
        return tuple(oracle(o, s, norm, f"{path}/{i}") for i, (o, s) in enumerate(zip(obs, space.spaces)))
    x = _to_np(obs)
    raw = _raw_shape(space)
    nlead = x.ndim - len(raw)
    if nlead < 0 or nlead > 2 or tuple(x.shape[nlead:]) != raw:
        raise _OracleSkip(f"shape {x.shape} for raw {raw}")
    rows = x.reshape((-1,) + raw)
    return _Leaf(ref_leaf(rows, space, norm), rows.shape[0], _in_shape(space), _leaf_kind(space), space, path)


def _cat_wants(wants):
    """Row-wise concatenation of expectations (IPPO groups homogeneous agents agent-major)."""
    w0 = wants[0]
    if isinstance(w0, dict):
        return {k: _cat_wants([w[k] for w in wants]) for k in w0}
    if isinstance(w0, tuple) and not isinstance(w0, _Leaf):
        return tuple(_cat_wants([w[i] for w in wants]) for i in range(len(w0)))
    ncand = max(len(w.cands) for w in wants)
    cands = [np.concatenate([w.cands[min(c, len(w.cands) - 1)] for w in wants], axis=0) for c in range(ncand)]
    return _Leaf(cands, sum(w.rows for w in wants), w0.in_shape, w0.kind, w0.space, w0.path)


def _value_kind(leaf, norm):
    if leaf.kind in ("Discrete", "MultiDiscrete"):
        return "wrong_value:onehot"
    if leaf.kind == "Box3" and norm:
        return "wrong_value:normalisation"
    return "wrong_value:identity"


def _close_any(got, cands, atol, rtol):
    ok = np.zeros(got.shape, dtype=bool)
    for c in cands:
        with np.errstate(all="ignore"):
            ok |= np.abs(got - c) <= atol + rtol * np.abs(c)
    return ok


def check_prepared(rec: Recorder, entry, want, got, norm, ctx):
    """Monitor 1: type, shape and value of one prepared observation against the reference."""
    import torch

    if isinstance(want, dict):
        if not hasattr(got, "keys") or set(got.keys()) != set(want.keys()):
            rec.violate("prepare", "dict_members_not_handled_member_by_member", f"{entry}:Dict", got=repr(type(got)), **ctx)
            return False
        return all([check_prepared(rec, entry, want[k], got[k], norm, ctx) for k in want])
    if isinstance(want, tuple) and not isinstance(want, _Leaf):
        if not isinstance(got, tuple) or len(got) != len(want):
            rec.violate("prepare", "tuple_members_not_handled_member_by_member", f"{entry}:Tuple", got=repr(type(got)), **ctx)
            return False
        return all([check_prepared(rec, entry, w, g, norm, ctx) for w, g in zip(want, got)])
    rec.hit("value_checks")
    site = f"{entry}:{want.kind}"
    if not isinstance(got, torch.Tensor) or got.dtype != torch.float32:
        rec.violate("prepare", "not_float32_tensor", site, got=repr(getattr(got, "dtype", type(got))), member=want.path, **ctx)
        return False
    full = (want.rows,) + want.in_shape
    shapes_ok = [full] + ([(want.rows, 1)] if want.kind == "Box0" else [])
    if tuple(got.shape) not in shapes_ok:
        rec.violate("prepare", "wrong_shape", site, got_shape=list(got.shape), want_shape=list(full), member=want.path, **ctx)
        return False
    g = got.detach().cpu().numpy().astype(np.float64).reshape(full)
    exact = _value_kind(want, norm) != "wrong_value:normalisation"
    ok = _close_any(g, want.cands, 0.0 if exact else 2e-6, 0.0 if exact else 1e-5)
    if not ok.all():
        bad = np.argwhere(~ok)[0]
        rec.violate(
            "prepare",
            _value_kind(want, norm),
            site,
            member=want.path,
            at=bad.tolist(),
            got=float(g[tuple(bad)]),
            want=[float(c[tuple(bad)]) for c in want.cands],
            **ctx,
        )
        return False
    return True


def _leaves(x):
    if isinstance(x, dict) or (hasattr(x, "keys") and not hasattr(x, "shape")):
        out = []
        for k in sorted(x.keys()):
            out += [(f"/{k}{p}", v) for p, v in _leaves(x[k])]
        return out
    if isinstance(x, tuple) and not isinstance(x, _Leaf):
        out = []
        for i, v in enumerate(x):
            out += [(f"/{i}{p}", v) for p, v in _leaves(v)]
        return out
    return [("", x)]


def _nontrivial_rows(want):
    for _, leaf in _leaves(want):
        c = leaf.cands[0]
        if c.shape[0] >= 2 and np.any(np.abs(c - c[:1]) > 0):
            return True
    return False


# ====================================================================== workload helpers
def _sample(space, rng):
    from gymnasium import spaces

    if isinstance(space, spaces.Dict):
        return {k: _sample(s, rng) for k, s in space.spaces.items()}
    if isinstance(space, spaces.Tuple):
        return tuple(_sample(s, rng) for s in space.spaces)
    if isinstance(space, spaces.Discrete):
        n = int(space.n)
        r = rng.random()
        return 0 if r < 0.2 else (n - 1 if r < 0.4 else int(rng.integers(n)))
    if isinstance(space, spaces.MultiDiscrete):
        nvec = np.asarray(space.nvec)
        v = rng.integers(0, nvec)
        edge = rng.random(nvec.shape)
        v = np.where(edge < 0.2, 0, np.where(edge < 0.4, nvec - 1, v))
        return v.astype(np.int64)
    if isinstance(space, spaces.MultiBinary):
        return rng.integers(0, 2, size=(int(space.n),)).astype(np.int8)
    if isinstance(space, spaces.Box):
        lo = np.where(np.isfinite(space.low), space.low, -10.0).astype(np.float64)
        hi = np.where(np.isfinite(space.high), space.high, 10.0).astype(np.float64)
        x = lo + (hi - lo) * rng.random(space.shape)
        edge = rng.random(space.shape)
        x = np.where(edge < 0.12, lo, np.where(edge < 0.24, hi, x))
        if len(space.shape) == 3 and rng.random() < 0.3:
            # a dark / binary frame: every pixel within one unit of the lower bound (raw values that happen to lie in [0, 1]
            # when the space starts at 0) - it is scaled like any other frame
            x = lo + np.minimum(hi - lo, 1.0) * (rng.random(space.shape) < 0.5)
        if np.issubdtype(space.dtype, np.integer):
            x = np.rint(x)
        return np.asarray(x).astype(space.dtype).reshape(space.shape)
    raise TypeError(type(space))


def _distinct_samples(space, rng, B):
    return [_sample(space, rng) for _ in range(B)]


def _leaf_stack(space, singles):
    from gymnasium import spaces

    if isinstance(space, spaces.Discrete):
        return np.asarray([int(s) for s in singles], dtype=np.int64)
    return np.stack([np.asarray(s) for s in singles])


def _keys_in(space, key_order):
    """Members of a Dict space in the order an environment emits them: the space's own (sorted) order, reversed, or rotated."""
    items = list(space.spaces.items())
    if key_order == "reversed":
        items = items[::-1]
    elif key_order == "rotated":
        items = items[1:] + items[:1]
    return items


def present(space, singles, mode, container, T=1, alt=None, key_order=None):
    """Raw observation object holding `singles` (a list of single observations) in the given shape mode
    ('single' | 'b1' | 'batch' | 'step_env') and container ('numpy' | 'torch' | 'python' | 'npscalar' |
    'tensordict' | 'mixed')."""
    import torch
    from gymnasium import spaces

    if isinstance(space, spaces.Dict):
        if container == "tensordict":
            from tensordict import TensorDict

            inner = {k: present(s, [x[k] for x in singles], mode, "torch", T, alt) for k, s in _keys_in(space, key_order)}
            n = len(singles)
            bs = {"single": [], "b1": [1], "batch": [n], "step_env": [T, n // T]}[mode]
            return TensorDict(inner, batch_size=bs)
        out = {}
        for i, (k, s) in enumerate(_keys_in(space, key_order)):
            c = ["numpy", "torch", "python"][i % 3] if container == "mixed" else container
            out[k] = present(s, [x[k] for x in singles], mode, c, T, alt)
        return out
    if isinstance(space, spaces.Tuple):
        out = []
        for i, s in enumerate(space.spaces):
            c = ["torch", "python", "numpy"][i % 3] if container == "mixed" else container
            out.append(present(s, [x[i] for x in singles], mode, c, T, alt))
        return tuple(out)
    arr = _leaf_stack(space, singles)
    if alt is not None:
        arr = arr.astype(alt)
    if mode == "single":
        x = np.asarray(arr[0])
    elif mode == "b1":
        x = arr[:1]
    elif mode == "batch":
        x = arr
    elif mode == "step_env":
        x = arr.reshape((T, arr.shape[0] // T) + arr.shape[1:])
    else:
        raise ValueError(mode)
    if container in ("python", "npscalar") and x.ndim == 0:
        return x.item() if container == "python" else x[()]
    if container == "torch":
        return torch.as_tensor(np.ascontiguousarray(x))
    return np.array(x, copy=True)


def _is_timeout(e):
    if isinstance(e, CaseTimeout):
        raise e


def _crash(rec: Recorder, exc, monitor, where, **detail):
    """Record an exception of the code under observation (capped per mechanism and case)."""
    _is_timeout(exc)
    w = crash_witness(exc, monitor, where, **detail)
    key = (w["monitor"], w["kind"], w["site"], w.get("leaf"), w.get("mode"))
    rec.counters["witnesses_total"] += 1
    n = sum(1 for x in rec.witnesses if (x["monitor"], x["kind"], x["site"], x.get("leaf"), x.get("mode")) == key)
    if n < 2:
        rec.witnesses.append(w)


_BARE = {}


def _bare(base_name):
    """Network-free concrete subclass of an algorithm base class: the real __init__ and the real
    preprocess_observation run, only the registry check of the metaclass is bypassed."""
    if base_name not in _BARE:
        from agilerl.algorithms.core.base import MultiAgentRLAlgorithm, RLAlgorithm
        from agilerl.algorithms.ippo import IPPO

        base = {"RLAlgorithm": RLAlgorithm, "MultiAgentRLAlgorithm": MultiAgentRLAlgorithm, "IPPO": IPPO}[base_name]
        ns = {n: (lambda self, *a, **k: None) for n in getattr(base, "__abstractmethods__", ())}
        _BARE[base_name] = type("Bare" + base_name, (base,), ns)
    return _BARE[base_name]


def _bare_instance(base_name, *args, **kw):
    from agilerl.algorithms.core.base import MultiAgentRLAlgorithm, RLAlgorithm

    cls = _bare(base_name)
    inst = object.__new__(cls)
    (RLAlgorithm if base_name == "RLAlgorithm" else MultiAgentRLAlgorithm).__init__(inst, *args, **kw)
    return inst


# ====================================================================== family: prep
MODES_LEAF = [
    ("single", "numpy"),
    ("single", "torch"),
    ("single", "python"),
    ("single", "npscalar"),
    ("b1", "numpy"),
    ("b1", "torch"),
    ("batch", "numpy"),
    ("batch", "torch"),
    ("step_env", "numpy"),
    ("step_env", "torch"),
]
MODES_CONT = [
    ("single", "numpy"),
    ("single", "mixed"),
    ("single", "tensordict"),
    ("b1", "numpy"),
    ("b1", "tensordict"),
    ("batch", "numpy"),
    ("batch", "torch"),
    ("batch", "mixed"),
    ("batch", "tensordict"),
    ("step_env", "numpy"),
    ("step_env", "tensordict"),
]


def _alt_dtypes(space):
    from gymnasium import spaces

    if isinstance(space, (spaces.Discrete, spaces.MultiDiscrete)):
        return [None, "int32", "float32"]
    if isinstance(space, spaces.MultiBinary):
        return [None, "float32", "int64"]
    return [None]


def _run_prep(case, rec: Recorder):
    from gymnasium import spaces

    import agilerl.utils.algo_utils as au

    space = mk_space(case["space"])
    norm = bool(case["norm"])
    rng = np.random.default_rng(case["seed"])
    T, E = case["T"], case["E"]
    B = T * E
    singles = _distinct_samples(space, rng, B)
    cont = _is_container(space)
    modes = MODES_CONT if cont else MODES_LEAF
    spec = case["space"]

    def call_free(obs, i):
        if i % 2:
            return au.preprocess_observation(obs, space, "cpu", norm)
        return au.preprocess_observation(observation=obs, observation_space=space, device="cpu", normalize_images=norm)

    entries = {"free": call_free}
    try:
        rl = _bare_instance("RLAlgorithm", space, spaces.Discrete(2), index=0, normalize_images=norm)
        entries["RLAlgorithm"] = lambda obs, i: rl.preprocess_observation(obs)
    except Exception as e:
        _is_timeout(e)
        rec.hit("info_rl_base_constructor_rejects:" + _first_leaf_kind(space))

    # ---- single-space entry points: value, shape, rows-vs-singles
    for entry, fn in entries.items():
        alone = []  # each element prepared on its own (unbatched numpy)
        for i, s in enumerate(singles):
            obs = present(space, [s], "single", "numpy")
            ctx = {"mode": "single", "container": "numpy", "norm": norm, "space": spec, "leaf": _first_leaf_kind(space),
                   "in": _container_kind(space)}
            try:
                got = fn(obs, i)
            except Exception as e:
                _crash(rec, e, "prepare", entry, **dict(ctx, leaf=_blame_member(obs, space, norm)))
                alone.append(None)
                continue
            check_prepared(rec, entry, oracle(obs, space, norm), got, norm, ctx)
            alone.append(got)
        k = 0
        for mode, container in modes:
            if container == "tensordict" and not isinstance(space, spaces.Dict):
                continue
            for alt in _alt_dtypes(space) if (not cont and container in ("numpy", "torch")) else [None]:
                k += 1
                if mode in ("single", "b1"):
                    groups = [[j] for j in ([0, B - 1] if B > 1 else [0])]
                else:
                    groups = [list(range(B))]
                for idx in groups:
                    sub = [singles[j] for j in idx]
                    obs = present(space, sub, mode, container, T, alt)
                    ctx = {"mode": mode, "container": container, "norm": norm, "space": spec, "rows": len(idx),
                           "leaf": _first_leaf_kind(space), "in": _container_kind(space)}
                    if alt:
                        ctx["given_dtype"] = alt
                    if mode == "step_env":
                        ctx["T"] = T
                    try:
                        want = oracle(obs, space, norm)
                    except _OracleSkip:
                        rec.hit("harness_oracle_skipped")
                        continue
                    try:
                        got = fn(obs, k)
                    except Exception as e:
                        _crash(rec, e, "prepare", entry, **dict(ctx, leaf=_blame_member(obs, space, norm)))
                        continue
                    ok = check_prepared(rec, entry, want, got, norm, ctx)
                    if ok and len(idx) > 1 and _nontrivial_rows(want):
                        rec.nontrivial = True
                    # monitor 2: the batch row by row against each element prepared alone
                    _rows_vs_alone(rec, entry, got, [alone[j] for j in idx], ctx)

    # ---- the normalisation helper itself (numpy and tensor batches), values only
    if isinstance(space, spaces.Box) and len(space.shape) == 3:
        for container in ("numpy", "torch"):
            obs = present(space, singles, "batch", container)
            ctx = {"mode": "batch", "container": container, "norm": True, "space": spec, "rows": B, "leaf": "Box3", "in": "plain"}
            rec.hit("normalisation_helper_checks")
            try:
                got = au.apply_image_normalization(obs.float() if container == "torch" else obs, space)
            except Exception as e:
                _crash(rec, e, "prepare", "apply_image_normalization", **ctx)
                continue
            want = oracle(obs, space, True)
            g = _to_np(got).astype(np.float64)
            if g.shape != want.cands[0].shape or not _close_any(g, want.cands, 2e-6, 1e-5).all():
                rec.violate("prepare", "wrong_value:normalisation", "apply_image_normalization:Box3", got_shape=list(g.shape), **ctx)

    # ---- multi-agent entry points (every agent present; canonical dict order)
    _prep_multi_agent(rec, space, norm, singles, T, spec)

    # ---- monitor 3: vectorised observation recognised as such
    _vect_dim(rec, space, singles, spec)


def _rows_vs_alone(rec, entry, got_batch, alone, ctx):
    import torch

    if any(a is None for a in alone):
        return
    bl = _leaves(got_batch)
    for r, a in enumerate(alone):
        al = _leaves(a)
        if len(al) != len(bl):
            return
        for (p, gb), (_, ga) in zip(bl, al):
            if not isinstance(gb, torch.Tensor) or not isinstance(ga, torch.Tensor):
                return
            rec.hit("row_vs_single_checks")
            if gb.dim() == 0 or gb.shape[0] != len(alone):
                rec.violate("batch_vs_single", "row_count_differs", f"{entry}:{ctx['leaf']}", member=p,
                            got_shape=list(gb.shape), **ctx)
                return
            x, y = gb[r].reshape(-1), ga.reshape(-1)
            if x.shape != y.shape or not torch.allclose(x, y, rtol=0, atol=1e-7, equal_nan=False):
                rec.violate("batch_vs_single", "batch_row_differs_from_single", f"{entry}:{ctx['leaf']}", member=p, row=r,
                            batch_row=x[:8], single=y[:8], **ctx)
                return


def _prep_multi_agent(rec, space, norm, singles, T, spec):
    from gymnasium import spaces

    B = len(singles)
    leaf = _first_leaf_kind(space)
    per_agent = {"agent_0": singles, "agent_1": singles[::-1], "other_0": singles[1:] + singles[:1]}
    insts = {}
    for base in ("MultiAgentRLAlgorithm", "IPPO"):
        try:
            insts[base] = _bare_instance(base, [space] * 3, [spaces.Discrete(2)] * 3, list(AGENTS), index=0,
                                         normalize_images=norm)
        except Exception as e:
            _is_timeout(e)
            rec.hit(f"info_ma_base_constructor_rejects:{leaf}")
    for base, inst in insts.items():
        for mode, container in (("single", "numpy"), ("batch", "numpy"), ("batch", "torch"), ("b1", "numpy"),
                                ("step_env", "numpy")):
            idx = [0] if mode in ("single", "b1") else list(range(B))
            obs = {a: present(space, [per_agent[a][j] for j in idx], mode, container, T) for a in AGENTS}
            ctx = {"mode": mode, "container": container, "norm": norm, "space": spec, "leaf": leaf, "rows": len(idx),
                   "in": _container_kind(space)}
            try:
                got = inst.preprocess_observation(obs)
            except Exception as e:
                _crash(rec, e, "prepare", base, **dict(ctx, leaf=_blame_member(obs["agent_0"], space, norm)))
                continue
            wants = {a: oracle(obs[a], space, norm) for a in AGENTS}
            if base == "IPPO":
                want = {"agent": _cat_wants([wants["agent_0"], wants["agent_1"]]), "other": wants["other_0"]}
            else:
                want = wants
            if not hasattr(got, "keys") or set(got.keys()) != set(want.keys()):
                rec.violate("prepare", "agents_not_handled_agent_by_agent", f"{base}:{leaf}",
                            got=sorted(map(str, got.keys())) if hasattr(got, "keys") else repr(type(got)), **ctx)
                continue
            for a in want:
                check_prepared(rec, base, want[a], got[a], norm, dict(ctx, agent=a))


def _vect_dim(rec, space, singles, spec):
    from gymnasium import spaces

    import agilerl.utils.algo_utils as au

    B = len(singles)
    leaf = _first_leaf_kind(space)
    ma_space = spaces.Dict({a: space for a in AGENTS})
    for mode, idx, want in (("single", [0], 1), ("b1", [B - 1], 1), ("batch", list(range(B)), B)):
        for container in ("numpy", "torch"):
            for wrap in ("plain", "agents", "reversed_keys", "agents_mixed_rank"):
                obs = present(space, [singles[j] for j in idx], mode, container)
                sp = space
                if wrap == "agents":
                    obs, sp = {a: obs for a in AGENTS}, ma_space
                elif wrap == "reversed_keys":
                    # the observation dict in another key order than the (sorted) space
                    if not isinstance(space, spaces.Dict) or len(space.spaces) < 2:
                        continue
                    obs = dict(reversed(list(obs.items())))
                elif wrap == "agents_mixed_rank":
                    # agents whose spaces differ in rank, handed over in the environment's order (not sorted): the first
                    # observation must be judged against ITS OWN space
                    rank1 = len(_first_leaf_shape(space)) == 1
                    other = spaces.Box(0.0, 1.0, (2, 3, 3), np.float32) if rank1 else spaces.Box(-1.0, 1.0, (3,), np.float32)
                    o_obs = np.zeros(((want,) if mode != "single" else ()) + other.shape, np.float32)
                    if container == "torch":
                        import torch

                        o_obs = torch.from_numpy(o_obs)
                    sp = spaces.Dict({"abe_0": other, "zed_0": space})
                    obs = {"zed_0": obs, "abe_0": o_obs}
                rec.hit("vect_dim_checks")
                ctx = {"mode": mode, "container": container, "space": spec, "leaf": leaf, "wrapped": wrap,
                       "in": _container_kind(space)}
                try:
                    got = au.get_vect_dim(obs, sp)
                except Exception as e:
                    _crash(rec, e, "vect_dim", "get_vect_dim", **ctx)
                    continue
                if int(got) != want:
                    rec.violate("vect_dim", "wrong_vect_dim", f"get_vect_dim:{leaf}", got=int(got), want=want, **ctx)
    if not _is_container(space) and _raw_shape(space) == ():
        try:  # informational: a bare Python number is not an array observation
            got = au.get_vect_dim(present(space, singles[:1], "single", "python"), space)
            rec.hit("info_vect_dim_python_number_ok" if got == 1 else "info_vect_dim_python_number_wrong")
        except Exception as e:
            _is_timeout(e)
            rec.hit("info_vect_dim_python_number_rejected")


# ====================================================================== passive boundary wrapper
class _Boundary:
    """While active, every top-level preprocess_observation call made by the algorithms themselves
    (get_action, learn) is checked against the reference; results are returned unchanged."""

    def __init__(self, rec):
        self.rec = rec
        self.saved = []

    def __enter__(self):
        import agilerl.algorithms.core.base as base
        import agilerl.algorithms.ippo as ippo

        for mod in (base, ippo):
            orig = mod.preprocess_observation
            self.saved.append((mod, orig))
            mod.preprocess_observation = self._wrap(orig, mod.__name__.rsplit(".", 1)[-1])
        return self

    def __exit__(self, *a):
        for mod, orig in self.saved:
            mod.preprocess_observation = orig
        return False

    def _wrap(self, orig, where):
        rec = self.rec

        def monitored(*args, **kwargs):
            out = orig(*args, **kwargs)
            try:
                names = ["observation", "observation_space", "device", "normalize_images"]
                b = dict(zip(names, args))
                b.update(kwargs)
                norm = bool(b.get("normalize_images", True))
                want = oracle(b["observation"], b["observation_space"], norm)
                rec.hit("boundary_prepare_calls")
                check_prepared(rec, "boundary", want, out, norm,
                               {"caller_module": where, "norm": norm, "leaf": _first_leaf_kind(b["observation_space"]),
                                "in": _container_kind(b["observation_space"])})
            except CaseTimeout:
                raise
            except Exception:
                rec.hit("boundary_oracle_skipped")
            return out

        return monitored


# ====================================================================== networks
def _net_config(spec, batch_norm=False):
    """batch_norm: image encoders with batch norm (`layer_norm=True` of EvolvableCNN, the default of the library's own
    CNN configuration): in train mode its batch statistics couple the rows of a call."""
    head = {"hidden_size": [8], "init_layers": False}
    if spec["t"] in ("dict", "tuple"):
        return {
            "encoder_config": {"cnn_config": {"channel_size": [4], "kernel_size": [2], "stride_size": [1], "layer_norm": bool(batch_norm)}},
            "head_config": {"hidden_size": [8]},
        }
    if spec["t"] == "box" and len(spec["shape"]) == 3:
        return {
            "encoder_config": {"channel_size": [4], "kernel_size": [2], "stride_size": [1], "init_layers": False,
                               "layer_norm": bool(batch_norm)},
            "head_config": dict(head),
        }
    return {"encoder_config": {"hidden_size": [8], "init_layers": False}, "head_config": dict(head)}


def _rows(arr, n):
    a = np.asarray(arr, dtype=np.float64)
    if a.ndim == 0:
        a = a.reshape(1)
    if n == 0 or a.shape[0] != n:
        return None
    return a.reshape(n, -1)


def _differs(got, want):
    return bool(np.any(~(np.abs(got - want) <= TOL_A + TOL_R * np.abs(want))))


def _spread(ref_rows):
    """Largest difference between the reference outputs of two different observations."""
    r = np.asarray(ref_rows, dtype=np.float64)
    if r.shape[0] < 2:
        return 0.0
    return float(np.max(np.abs(r[:, None, :] - r[None, :, :])))


def _pick_container(ci, space):
    from gymnasium import spaces

    if ci % 3 == 1:
        return "torch"
    if ci % 3 == 2 and isinstance(space, spaces.Dict):
        return "tensordict"
    return "numpy"


def _compositions(rng, B):
    comps = [list(range(B)), list(range(B))[::-1], [int(i) for i in rng.permutation(B)]]
    comps += [[i] for i in range(B)]
    for _ in range(3):
        k = int(rng.integers(2, B + 1))
        comps.append([int(i) for i in rng.choice(B, size=k, replace=False)])
    comps.append([0, 0, B - 1])
    comps.append([B - 1, 0])
    return comps


# ====================================================================== family: algo (single agent)
def _make_single(algo, space, norm, spec, batch_norm=False):
    from gymnasium import spaces

    cfg = _net_config(spec, batch_norm=batch_norm)
    if algo == "DQN":
        from agilerl.algorithms.dqn import DQN

        return DQN(space, spaces.Discrete(3), net_config=cfg, normalize_images=norm)
    if algo == "DDPG":
        from agilerl.algorithms.ddpg import DDPG

        return DDPG(space, spaces.Box(-1, 1, shape=(2,)), net_config=cfg, normalize_images=norm)
    if algo == "TD3":
        from agilerl.algorithms.td3 import TD3

        return TD3(space, spaces.Box(-1, 1, shape=(2,)), net_config=cfg, normalize_images=norm)
    if algo == "PPO":
        from agilerl.algorithms.ppo import PPO

        return PPO(space, spaces.Discrete(3), net_config=cfg, normalize_images=norm)
    raise ValueError(algo)


def _single_outputs(agent, algo, obs, n, batch_norm=False):
    import torch

    if algo == "DQN":
        # EvolvableModule.__call__ bypasses torch forward hooks: interpose on the instance's forward instead
        cap = []
        orig = agent.actor.forward

        def tapped(*a, **k):
            out = orig(*a, **k)
            cap.append(out.detach().clone())
            return out

        agent.actor.forward = tapped
        try:
            act = agent.get_action(obs, epsilon=0.0)
        finally:
            del agent.actor.forward
        return {"q_values": cap[-1].cpu().numpy(), "greedy_action": np.asarray(act)}
    if algo in ("DDPG", "TD3"):
        return {"greedy_action": np.asarray(agent.get_action(obs, training=False))}
    _, _, ent, val = agent.get_action(obs)
    out = {"value": np.asarray(val), "entropy": np.asarray(ent)}
    if batch_norm:
        # evaluate_actions is the learn() path: it runs the networks in train mode, where batch norm uses (and moves) the
        # batch statistics on purpose; the consequence clause is about what the agent REPORTS when it acts
        return out
    with torch.no_grad():
        _, _, v2 = agent.evaluate_actions(obs, torch.zeros(n, dtype=torch.long))
    out["value_evaluate_actions"] = v2.detach().cpu().numpy()
    return out


def _run_algo(case, rec: Recorder):
    import torch

    algo, spec, norm = case["algo"], case["space"], bool(case["norm"])
    space = mk_space(spec)
    torch.manual_seed(case["seed"])
    rng = np.random.default_rng(case["seed"])
    leaf = _first_leaf_kind(space)
    try:
        agent = _make_single(algo, space, norm, spec, batch_norm=bool(case["seed"] % 2))
    except Exception as e:
        _is_timeout(e)
        rec.hit(f"info_constructor_failed:{algo}:{leaf}")
        rec.extra["constructor"] = f"{type(e).__name__}: {str(e)[:120]}"
        return
    B = case["B"]
    singles = _distinct_samples(space, rng, B)
    site = f"{algo}.get_action"
    base_ctx = {"algo": algo, "space": spec, "leaf": leaf, "in": _container_kind(space), "norm": norm}
    ref = []
    with _Boundary(rec):
        for s in singles:
            try:
                out = _single_outputs(agent, algo, present(space, [s], "single", "numpy"), 1, batch_norm=bool(case["seed"] % 2))
                ref.append({k: _rows(v, 1) for k, v in out.items()})
            except Exception as e:
                _crash(rec, e, "consequence_single", site, mode="single", rows=1, **base_ctx)
                ref.append(None)
        if any(r is None or any(v is None for v in r.values()) for r in ref):
            return
        names = list(ref[0].keys())
        spread = max(_spread(np.concatenate([r[k] for r in ref], axis=0)) for k in names if k != "greedy_action" or algo != "DQN")
        for ci, idx in enumerate(_compositions(rng, B)):
            container = _pick_container(ci, space)
            mode = "b1" if len(idx) == 1 else "batch"
            # an environment emits the members of a Dict observation in its own order (the space sorts its keys): the
            # same observation, whatever the order of its members and whatever the container
            key_order = [None, "reversed", "rotated"][(ci // 3 + ci) % 3] if _container_kind(space) == "Dict" else None
            ctx = dict(base_ctx, mode=mode, container=container, rows=len(idx), composition=idx, key_order=key_order)
            if key_order:
                rec.hit("consequence_single_calls_with_members_in_another_key_order")
            try:
                out = _single_outputs(agent, algo, present(space, [singles[i] for i in idx], mode, container, key_order=key_order),
                                      len(idx), batch_norm=bool(case["seed"] % 2))
            except Exception as e:
                _crash(rec, e, "consequence_single", site, **ctx)
                continue
            for name in names:
                rec.hit("consequence_single_checks")
                got = _rows(out[name], len(idx))
                want = np.concatenate([ref[i][name] for i in idx], axis=0)
                if got is None or got.shape != want.shape:
                    rec.violate("consequence_single", "row_count_differs", site, output=name,
                                got_shape=list(np.shape(out[name])), **ctx)
                    continue
                if algo == "DQN" and name == "greedy_action":
                    q = np.concatenate([ref[i]["q_values"] for i in idx], axis=0)
                    top2 = np.sort(q, axis=1)[:, -2:]
                    sure = (top2[:, 1] - top2[:, 0]) > 1e-4
                    if np.any(sure & (got[:, 0] != np.argmax(q, axis=1))):
                        rec.violate("consequence_single", "greedy_action_depends_on_batch_composition", site, output=name,
                                    got=got[:, 0], want=np.argmax(q, axis=1), **ctx)
                    continue
                if _differs(got, want):
                    r = int(np.argmax(np.max(np.abs(got - want), axis=1)))
                    rec.violate("consequence_single", "depends_on_batch_composition", site, output=name, row=r,
                                got=got[r][:6], alone=want[r][:6], **ctx)
            if len(idx) > 1 and spread > 1e-3:
                rec.nontrivial = True


# ====================================================================== family: ippo (shared policy)
def _agent_orders(rng):
    perms = [list(p) for p in itertools.permutations(AGENTS)][1:]
    pick = [perms[2], perms[-1], perms[int(rng.integers(len(perms)))]]  # agent_1 first; fully reversed; random
    out = []
    for p in pick:
        if p not in out:
            out.append(p)
    return out


def _env_compositions(rng, E):
    comps = [("batch", list(range(E)))]
    if E > 1:
        comps += [("batch", list(range(E))[::-1]), ("batch", [int(i) for i in rng.permutation(E)])]
        comps += [("batch", [int(i) for i in rng.choice(E, size=int(rng.integers(1, E)), replace=False)])]
    comps += [("single", [int(rng.integers(E))]), ("single", [E - 1]), ("b1", [0])]
    return comps


def _ma_obs(space, s, envs, mode, container, order):
    return {a: present(space, [s[a][e] for e in envs], mode, container) for a in order}


def _run_ippo(case, rec: Recorder):
    import torch
    from gymnasium import spaces

    import agilerl.utils.algo_utils as au
    from agilerl.algorithms.ippo import IPPO

    spec, norm, E = case["space"], bool(case["norm"]), case["E"]
    space = mk_space(spec)
    torch.manual_seed(case["seed"])
    rng = np.random.default_rng(case["seed"])
    leaf = _first_leaf_kind(space)
    try:
        agent = IPPO([space] * 3, [spaces.Discrete(3)] * 3, agent_ids=list(AGENTS),
                     net_config=_net_config(spec, batch_norm=bool(case["seed"] % 2)), normalize_images=norm)
    except Exception as e:
        _is_timeout(e)
        rec.hit(f"info_constructor_failed:IPPO:{leaf}")
        rec.extra["constructor"] = f"{type(e).__name__}: {str(e)[:120]}"
        return
    s = {a: _distinct_samples(space, rng, E) for a in AGENTS}
    base_ctx = {"algo": "IPPO", "space": spec, "leaf": leaf, "in": _container_kind(space), "norm": norm, "envs_total": E}
    site = "IPPO.get_action"

    _roundtrip(rec, agent, rng, E)
    _shared_inputs(rec, agent, space, s, rng, E)

    # reference: the agent's own policy/critic on its observation prepared alone
    ref = {a: {"value": [], "entropy": []} for a in AGENTS}
    try:
        for a in AGENTS:
            k = agent.shared_agent_ids.index(agent.get_homo_id(a))
            actor, critic = agent.actors[k], agent.critics[k]
            actor.eval()
            critic.eval()
            for e in range(E):
                prep = au.preprocess_observation(present(space, [s[a][e]], "single", "numpy"), space, "cpu", norm)
                with torch.no_grad():
                    ref[a]["value"].append(float(critic(prep).reshape(-1)[0]))
                    ref[a]["entropy"].append(float(actor(prep)[2].reshape(-1)[0]))
        # hand the networks back in the mode they are in after construction and after every learn(): whether batch
        # statistics (batch norm of image encoders) can couple the rows of a call is get_action's business
        for k in range(len(agent.actors)):
            agent.actors[k].train()
            agent.critics[k].train()
    except Exception as e:
        _crash(rec, e, "consequence_shared_policy", "reference: network on one prepared observation", mode="single", **base_ctx)
        return
    spread = max(_spread(np.asarray(sum((ref[a]["value"] for a in AGENTS), []))[:, None]), 0.0)

    def run(envs, mode, container, order, kind):
        ctx = dict(base_ctx, mode=mode, container=container, envs=envs, agent_order=order)
        try:
            out = agent.get_action(_ma_obs(space, s, envs, mode, container, order))
        except Exception as e:
            _crash(rec, e, "consequence_shared_policy", site, **ctx)
            return False
        ok = True
        for name, pos in (("value", 3), ("entropy", 2)):
            for a in AGENTS:
                rec.hit("consequence_shared_policy_checks")
                if a not in out[pos]:
                    rec.violate("consequence_shared_policy", "agent_missing_in_output", site, output=name, agent=a, **ctx)
                    ok = False
                    continue
                got = _rows(out[pos][a], len(envs))
                want = np.asarray([ref[a][name][e] for e in envs])[:, None]
                if got is None or got.shape != want.shape:
                    rec.violate("consequence_shared_policy", "row_count_differs", site, output=name, agent=a,
                                got_shape=list(np.shape(out[pos][a])), **ctx)
                    ok = False
                elif _differs(got, want):
                    rec.violate("consequence_shared_policy", kind, site, output=name, agent=a, got=got[:, 0], alone=want[:, 0], **ctx)
                    ok = False
        return ok

    with _Boundary(rec):
        orders = _agent_orders(rng)
        for ci, (mode, envs) in enumerate(_env_compositions(rng, E)):
            container = _pick_container(ci, space)
            if not run(envs, mode, container, list(AGENTS), "depends_on_env_composition"):
                continue
            if spread > 1e-3 and (len(envs) > 1 or E == 1):
                rec.nontrivial = True
            if ci in (0, 4):
                for order in orders:
                    run(envs, mode, container, order, "depends_on_agent_order_in_dict")


def _shared_inputs(rec, agent, space, s, rng, E):
    """IPPO.assemble_shared_inputs: every agent's list of per-step observations ends up, stacked step-major and
    otherwise untouched, under its own key of its own policy group."""
    steps = [list(range(E)), [int(i) for i in rng.permutation(E)]]
    for order in (list(AGENTS), list(AGENTS)[::-1]):
        rec.hit("shared_input_checks")
        ctx = {"E": E, "agent_order": order, "leaf": _first_leaf_kind(space)}
        inp = {a: [present(space, [s[a][e] for e in envs], "batch", "numpy") for envs in steps] for a in order}
        try:
            shared = agent.assemble_shared_inputs(inp)
        except Exception as e:
            _crash(rec, e, "shared_inputs", "IPPO.assemble_shared_inputs", **ctx)
            continue
        for a in AGENTS:
            grp = shared.get(agent.get_homo_id(a), {}) if hasattr(shared, "get") else {}
            if a not in grp:
                rec.violate("shared_inputs", "agent_missing_in_its_policy_group", "IPPO.assemble_shared_inputs", agent=a, **ctx)
                continue
            got = _leaves(grp[a])
            want = _leaves(present(space, [s[a][e] for envs in steps for e in envs], "step_env", "numpy", T=len(steps)))
            if len(got) != len(want) or any(
                np.shape(g) != np.shape(w) or not np.array_equal(_to_np(g), _to_np(w)) for (_, g), (_, w) in zip(got, want)
            ):
                rec.violate("shared_inputs", "agent_rows_misrouted_or_changed", "IPPO.assemble_shared_inputs", agent=a, **ctx)


def _roundtrip(rec, agent, rng, E):
    """assemble_homogeneous_outputs / disassemble_homogeneous_outputs keep every agent's own rows."""
    for width in (None, 2):
        outputs = {}
        for i, a in enumerate(AGENTS):
            code = (100.0 * (i + 1) + np.arange(E)).astype(np.float32)
            outputs[a] = code if width is None else np.stack([code, code + 0.5], axis=1)
        for order in (list(AGENTS), list(AGENTS)[::-1]):
            rec.hit("roundtrip_checks")
            ctx = {"E": E, "width": width or 1, "agent_order": order}
            try:
                homo = agent.assemble_homogeneous_outputs({a: outputs[a].copy() for a in order}, E)
                # agent-major, members in the order of agent_ids (the order in which their observations are batched)
                want = {uid: np.concatenate([outputs[a].reshape(E, -1) for a in AGENTS if a.startswith(uid + "_")], axis=0)
                        for uid in ("agent", "other")}
                for uid, w in want.items():
                    g = np.asarray(homo.get(uid))
                    if g.shape != w.shape or not np.array_equal(g, w):
                        rec.violate("homogeneous_roundtrip", "assembled_rows_not_agent_major",
                                    "MultiAgentRLAlgorithm.assemble_homogeneous_outputs", group=uid, got=g, want=w, **ctx)
                back = agent.disassemble_homogeneous_outputs({k: np.array(v) for k, v in homo.items()}, E)
                for a in AGENTS:
                    g = np.asarray(back.get(a))
                    w = outputs[a].reshape(E, -1)
                    if g.shape != w.shape or not np.array_equal(g, w):
                        rec.violate("homogeneous_roundtrip", "agent_gets_other_agents_rows",
                                    "MultiAgentRLAlgorithm.disassemble_homogeneous_outputs", agent=a, got=g, want=w, **ctx)
            except Exception as e:
                _crash(rec, e, "homogeneous_roundtrip", "assemble/disassemble", **ctx)


# ====================================================================== family: mac (MADDPG / MATD3)
def _stack_reference(prep, space, ids):
    """Critic input layout documented by the construction of the critic: agents in agent_ids order,
    vectors concatenated on the feature axis, images stacked on a new axis 2."""
    from gymnasium import spaces

    if isinstance(space, spaces.Dict):
        return {k: _stack_reference({a: prep[a][k] for a in ids}, space[k], ids) for k in space.spaces}
    if isinstance(space, spaces.Tuple):
        return tuple(_stack_reference({a: prep[a][i] for a in ids}, sp, ids) for i, sp in enumerate(space.spaces))
    arrs = [prep[a].detach().cpu().numpy() for a in ids]
    if isinstance(space, spaces.Box) and len(space.shape) == 3:
        return np.stack(arrs, axis=2)
    return np.concatenate(arrs, axis=1)


def _check_stack(rec, agent, space, prep, stacked, kind, ctx):
    import torch

    rec.hit("critic_stack_checks")
    site = "MultiAgentRLAlgorithm.stack_critic_observations"
    try:
        want = _stack_reference(prep, space, list(agent.agent_ids))
    except Exception as e:
        _is_timeout(e)
        rec.hit("critic_stack_reference_skipped")
        return True
    wl, gl = _leaves(want), _leaves(stacked)
    if len(wl) != len(gl):
        rec.violate("critic_stack", "members_not_stacked_member_by_member", site, **ctx)
        return False
    for (p, w), (_, g) in zip(wl, gl):
        g = g.detach().cpu().numpy() if isinstance(g, torch.Tensor) else np.asarray(g)
        if g.shape != w.shape:
            rec.violate("critic_stack", "wrong_shape", site, member=p, got_shape=list(g.shape), want_shape=list(w.shape), **ctx)
            return False
        if not np.array_equal(g, w):
            rec.violate("critic_stack", kind, site, member=p, **ctx)
            return False
    return True


def _run_mac(case, rec: Recorder):
    import torch
    from gymnasium import spaces

    import agilerl.utils.algo_utils as au

    algo, spec, norm, E = case["algo"], case["space"], bool(case["norm"]), case["E"]
    space = mk_space(spec)
    torch.manual_seed(case["seed"])
    rng = np.random.default_rng(case["seed"])
    leaf = _first_leaf_kind(space)
    if algo == "MADDPG":
        from agilerl.algorithms.maddpg import MADDPG as cls
    else:
        from agilerl.algorithms.matd3 import MATD3 as cls
    try:
        agent = cls([space] * 3, [spaces.Box(-1, 1, shape=(2,))] * 3, agent_ids=list(AGENTS),
                    net_config=_net_config(spec, batch_norm=bool(case["seed"] % 2)), normalize_images=norm)
    except Exception as e:
        _is_timeout(e)
        rec.hit(f"info_constructor_failed:{algo}:{leaf}")
        rec.extra["constructor"] = f"{type(e).__name__}: {str(e)[:120]}"
        return
    critics = [agent.critics[0], agent.critics[-1]] if algo == "MADDPG" else [agent.critics_1[0], agent.critics_2[-1]]
    s = {a: _distinct_samples(space, rng, E) for a in AGENTS}
    acts = torch.as_tensor(rng.uniform(-1, 1, size=(E, 6)).astype(np.float32))
    base_ctx = {"algo": algo, "space": spec, "leaf": leaf, "in": _container_kind(space), "norm": norm, "envs_total": E}
    site_a = f"{algo}.get_action"
    site_c = f"{algo}.critic(stack_critic_observations)"

    # ---- references: each actor on its own observation alone; critic on one joint observation alone
    ref_act = {a: [] for a in AGENTS}
    ref_q = []
    try:
        for i, a in enumerate(AGENTS):
            agent.actors[i].eval()
            for e in range(E):
                prep = au.preprocess_observation(present(space, [s[a][e]], "single", "numpy"), space, "cpu", norm)
                with torch.no_grad():
                    ref_act[a].append(agent.actors[i](prep).reshape(-1).numpy().astype(np.float64))
        for c in critics:
            c.eval()
        for e in range(E):
            prep = agent.preprocess_observation(_ma_obs(space, s, [e], "single", "numpy", list(AGENTS)))
            st = agent.stack_critic_observations(prep)
            with torch.no_grad():
                ref_q.append([float(c(st, acts[e : e + 1]).reshape(-1)[0]) for c in critics])
    except Exception as e:
        _crash(rec, e, "consequence_central_critic", "reference: networks on one joint observation", mode="single", **base_ctx)
        return
    spread_a = max(_spread(np.stack(ref_act[a])) for a in AGENTS)
    spread_q = _spread(np.asarray(ref_q))

    def run_actor(envs, mode, container, order, kind):
        ctx = dict(base_ctx, mode=mode, container=container, envs=envs, agent_order=order)
        try:
            out = agent.get_action(_ma_obs(space, s, envs, mode, container, order), training=False)[0]
        except Exception as e:
            _crash(rec, e, "consequence_ma_actor", site_a, **ctx)
            return False
        ok = True
        for a in AGENTS:
            rec.hit("consequence_ma_actor_checks")
            got = _rows(out.get(a), len(envs)) if a in out else None
            want = np.stack([ref_act[a][e] for e in envs])
            if got is None or got.shape != want.shape:
                rec.violate("consequence_ma_actor", "row_count_differs", site_a, agent=a,
                            got_shape=list(np.shape(out.get(a))), **ctx)
                ok = False
            elif _differs(got, want):
                rec.violate("consequence_ma_actor", kind, site_a, agent=a, got=got[0], alone=want[0], **ctx)
                ok = False
        return ok

    def run_critic(envs, mode, container, order, kind):
        ctx = dict(base_ctx, mode=mode, container=container, envs=envs, agent_order=order)
        try:
            prep = agent.preprocess_observation(_ma_obs(space, s, envs, mode, container, order))
            st = agent.stack_critic_observations(prep)
            canonical = list(order) == list(AGENTS)
            ok = _check_stack(rec, agent, space, prep, st, "layout_differs_from_agent_ids_order" if canonical else kind, ctx)
            with torch.no_grad():
                qs = [c(st, acts[envs]).reshape(-1).numpy().astype(np.float64) for c in critics]
        except Exception as e:
            _crash(rec, e, "consequence_central_critic", site_c, **ctx)
            return False
        for ci, q in enumerate(qs):
            rec.hit("consequence_central_critic_checks")
            want = np.asarray([ref_q[e][ci] for e in envs])
            if q.shape != want.shape:
                rec.violate("consequence_central_critic", "row_count_differs", site_c, critic=ci, got_shape=list(q.shape), **ctx)
                ok = False
            elif _differs(q, want):
                rec.violate("consequence_central_critic", kind, site_c, critic=ci, got=q, alone=want, **ctx)
                ok = False
        return ok

    with _Boundary(rec):
        orders = _agent_orders(rng)
        for ci, (mode, envs) in enumerate(_env_compositions(rng, E)):
            container = _pick_container(ci, space)
            ok_a = run_actor(envs, mode, container, list(AGENTS), "depends_on_env_composition")
            ok_c = run_critic(envs, mode, container, list(AGENTS), "depends_on_env_composition")
            if ok_a and ok_c and (len(envs) > 1 or E == 1) and spread_a > 1e-3 and spread_q > 1e-3:
                rec.nontrivial = True
            if ci in (0, 4):
                for order in orders:
                    if ok_a:
                        run_actor(envs, mode, container, order, "depends_on_agent_order_in_dict")
                    if ok_c:
                        run_critic(envs, mode, container, order, "depends_on_agent_order_in_dict")
        if case.get("learn") and E >= 2:
            _learn_tap(rec, agent, algo, space, s, rng, E, base_ctx)


def _learn_tap(rec, agent, algo, space, s, rng, E, base_ctx):
    """Run one real learn() step and check every stack_critic_observations call it makes."""
    import torch

    orig = agent.stack_critic_observations
    seen = []

    def tapped(obs):
        out = orig(obs)
        try:
            seen.append(1)
            _check_stack(rec, agent, space, obs, out, "layout_differs_from_agent_ids_order_in_learn",
                         dict(base_ctx, where=f"{algo}.learn"))
            rec.hit("learn_stack_taps")
        except CaseTimeout:
            raise
        except Exception:
            rec.hit("learn_tap_skipped")
        return out

    def tens(x):
        if isinstance(x, dict):
            return {k: tens(v) for k, v in x.items()}
        if isinstance(x, tuple):
            return tuple(tens(v) for v in x)
        return torch.as_tensor(x).float()

    perm = [int(i) for i in rng.permutation(E)]
    states = {a: tens(present(space, s[a], "batch", "numpy")) for a in AGENTS}
    nstates = {a: tens(present(space, [s[a][i] for i in perm], "batch", "numpy")) for a in AGENTS}
    actions = {a: torch.as_tensor(rng.uniform(-1, 1, size=(E, 2)).astype(np.float32)) for a in AGENTS}
    rewards = {a: torch.as_tensor(rng.normal(size=(E, 1)).astype(np.float32)) for a in AGENTS}
    dones = {a: torch.zeros(E, 1) for a in AGENTS}
    agent.stack_critic_observations = tapped
    try:
        agent.learn((states, actions, rewards, nstates, dones))
    except Exception as e:
        _is_timeout(e)
        w = crash_witness(e, "critic_stack", f"{algo}.learn")
        if any(t in w["site"] for t in ("stack_critic_observations", "preprocess_observation", "maybe_add_batch_dim",
                                        "apply_image_normalization", "obs_to_tensor")):
            _crash(rec, e, "critic_stack", f"{algo}.learn", **base_ctx)
        else:  # learn failed for a reason that is not observation handling: not this property's verdict
            rec.hit("info_learn_raised_elsewhere")
            rec.extra["learn"] = f"{w['kind']} at {w['site']}"
    finally:
        try:
            del agent.stack_critic_observations
        except AttributeError:
            pass


# ====================================================================== case generation
def _leaf_corner_specs():
    out = []
    # Box of every rank x dtype, trailing singleton dimensions, a dimension equal to the batch size
    shapes = [(), (1,), (3,), (4,), (2, 3), (3, 1), (1, 1), (3, 4, 4), (1, 3, 3), (2, 1, 1), (4, 2, 1), (2, 2, 2, 2), (1, 2, 1, 3)]
    dtypes = ["float32", "float64", "uint8", "int64"]
    for i, sh in enumerate(shapes):
        for j, dt in enumerate(dtypes):
            kinds = ["255", "asym"] if len(sh) == 3 else [["sym", "255", "asym", "perchan"][(i + j) % 4]]
            for b in kinds:
                out.append(_box(sh, dt, b))
    for sh in [(3, 4, 4), (1, 3, 3), (2, 1, 1)]:
        for b in ("01", "perchan", "inf", "halfinf", "mixinf"):
            out.append(_box(sh, "float32", b))
        out.append(_box(sh, "uint8", "01"))
        out.append(_box(sh, "uint8", "perchan"))
        out.append(_box(sh, "float64", "asym"))
        # signed-integer frames whose range overflows their own dtype
        out.append(_box(sh, "int8", "full"))
        out.append(_box(sh, "int8", "wide"))
        out.append(_box(sh, "int16", "full"))
        out.append(_box(sh, "uint8", "full"))
    out += [_box((), "float32", "inf"), _box((3,), "float32", "inf"), _box((2, 3), "float64", "halfinf")]
    out += [_disc(n) for n in (1, 2, 3, 4, 5)]
    out += [_md(3), _md(1), _md(2, 3), _md(1, 1), _md(1, 4, 1), _md(2, 2), _md(4, 3, 2), _md(5, 1)]
    out += [_mb(1), _mb(2), _mb(3), _mb(5)]
    return out


def _container_corner_specs():
    img = _box((3, 4, 4), "uint8", "255")
    return [
        _dict(a=_box((3,)), b=_disc(3)),
        _dict(a=_disc(1), b=_box(()), c=_mb(2)),
        _dict(img=img, v=_box((3,), "float64"), d=_md(2, 3)),
        _dict(b0=_box(()), d=_disc(4)),
        _dict(m=_md(1, 1), i=_box((1, 3, 3), "float32", "asym")),
        _dict(x=_box((2, 3), "int64", "255"), y=_box((2, 2, 2, 2))),
        _dict(only=_disc(2)),
        _tuple(_box((3,)), _disc(3)),
        _tuple(_disc(1), _box(()), _mb(3)),
        _tuple(img, _md(2, 2), _box((1,))),
        _tuple(_box((3, 4, 4), "float32", "perchan"), _box((3, 4, 4), "uint8", "255")),
        _tuple(_mb(1)),
    ]


def _rand_leaf(rng):
    r = rng.random()
    if r < 0.5:
        rank = int(rng.integers(0, 5))
        shape = tuple(int(rng.integers(1, 5)) for _ in range(rank))
        dt = ["float32", "float64", "uint8", "int64"][int(rng.integers(4))]
        kinds = ["255", "01", "sym", "asym", "perchan"]
        if dt.startswith("float"):
            kinds += ["inf", "halfinf", "mixinf"]
        return _box(shape, dt, kinds[int(rng.integers(len(kinds)))])
    if r < 0.65:
        return _disc(int(rng.integers(1, 6)))
    if r < 0.85:
        return _md(*[int(rng.integers(1, 5)) for _ in range(int(rng.integers(1, 4)))])
    return _mb(int(rng.integers(1, 5)))


def _rand_space(rng):
    r = rng.random()
    if r < 0.6:
        return _rand_leaf(rng)
    k = int(rng.integers(1, 4))
    if r < 0.8:
        return _dict(**{f"k{i}": _rand_leaf(rng) for i in range(k)})
    return _tuple(*[_rand_leaf(rng) for _ in range(k)])


SINGLE_SPECS = [
    _box(()),
    _box((3,)),
    _box((1,)),
    _box((4,), "float64", "asym"),
    _box((3,), "int64", "255"),
    _box((2, 3)),
    _box((3, 1)),
    _box((3, 4, 4), "uint8", "255"),
    _box((2, 4, 4), "float32", "asym"),
    _box((1, 3, 3), "uint8", "255"),
    _box((2, 2, 2, 2)),
    _disc(1),
    _disc(2),
    _disc(5),
    _md(2, 3),
    _md(3),
    _md(1, 1, 4),
    _mb(1),
    _mb(3),
    _dict(a=_box((3,)), b=_disc(3)),
    _dict(a=_box(()), b=_md(2, 2)),
    _dict(img=_box((3, 4, 4), "uint8", "255"), v=_box((3,))),
    # two image members (two feature extractors whose outputs are concatenated) around a vector member
    _dict(rgb=_box((3, 4, 4), "uint8", "255"), pos=_box((3,)), depth=_box((1, 4, 4), "float32", "asym")),
    _tuple(_box((3,)), _disc(3)),
    _tuple(_box((2, 4, 4), "float32", "asym"), _md(2, 3), _box(())),
]
MA_SPECS = [
    _box((3,)),
    _box((1,)),
    _box((2, 3)),
    _box((3, 4, 4), "uint8", "255"),
    _box((2, 4, 4), "float32", "asym"),
    _disc(1),
    _disc(3),
    _md(2, 3),
    _mb(3),
    _dict(a=_box((3,)), b=_disc(3)),
    _dict(img=_box((3, 4, 4), "uint8", "255"), v=_box((3,))),
    _tuple(_box((3,)), _md(2, 2)),
    _box(()),
]


def cases(tier, seed):
    import os

    rng = np.random.default_rng(1500 + seed)
    quick = tier == "quick"
    # development knob only (monitor validation sweeps on a loaded machine); the registered tiers use 1.0
    scale = float(os.environ.get("VERIF_C15_SCALE", "1.0"))
    out = []

    def sd():
        return int(rng.integers(1 << 30))

    # ---- prep: hostile corners first
    for spec in _leaf_corner_specs() + _container_corner_specs():
        is_img = spec["t"] == "box" and len(spec["shape"]) == 3
        has_img = is_img or (spec["t"] in ("dict", "tuple"))
        for norm in (True, False) if has_img else (bool(rng.integers(2)),):
            T, E = [(2, 3), (1, 1), (3, 1), (1, 4), (2, 2)][int(rng.integers(5))]
            out.append({"fam": "prep", "space": spec, "norm": norm, "T": T, "E": E, "seed": sd()})
    # batch-of-one and width = a dimension of the space for everything small
    for spec in [_box((3,)), _box(()), _disc(1), _disc(3), _md(2, 3), _mb(3), _box((3, 4, 4), "uint8", "255"), _box((3, 3))]:
        for T, E in ((1, 1), (1, 3), (3, 1), (3, 3)):
            out.append({"fam": "prep", "space": spec, "norm": True, "T": T, "E": E, "seed": sd()})
    for _ in range(400 if quick else max(400, int(200000 * scale))):
        T, E = int(rng.integers(1, 4)), int(rng.integers(1, 5))
        out.append({"fam": "prep", "space": _rand_space(rng), "norm": bool(rng.integers(2)), "T": T, "E": E, "seed": sd()})

    # ---- consequence clause
    reps = 2 if quick else max(2, int(700 * scale))
    for rep in range(reps):
        for spec in SINGLE_SPECS:
            for algo in ("DQN", "DDPG", "TD3", "PPO"):
                if quick and algo == "TD3" and spec["t"] != "box":
                    continue
                out.append({"fam": "algo", "algo": algo, "space": spec, "norm": bool((rep + len(out)) % 2 == 0),
                            "B": int(rng.integers(3, 7)), "seed": sd()})
        for spec in MA_SPECS:
            for E in ((4, 1) if rep == 0 else (int(rng.integers(1, 7)),)):
                out.append({"fam": "ippo", "space": spec, "norm": bool(rng.integers(2)), "E": E, "seed": sd()})
            for algo in ("MADDPG", "MATD3"):
                for E in ((4, 1) if rep == 0 else (int(rng.integers(1, 7)),)):
                    out.append({"fam": "mac", "algo": algo, "space": spec, "norm": bool(rng.integers(2)), "E": E,
                                "learn": bool(E >= 2 and (rep % 4 == 0)), "seed": sd()})
    if quick:
        # interleave so that the expensive families are spread over the shards
        heavy = [c for c in out if c["fam"] != "prep"]
        light = [c for c in out if c["fam"] == "prep"]
        out = heavy + light
    return out


AGENT_ID_STYLES = (
    ["agent_0", "agent_1", "other_0"],
    ["agent_1", "other_0", "agent_0"],  # a shared-policy group declared in non-sorted order, interleaved with another group
    ["agent_9", "agent_10", "other_0"],  # "agent_10" sorts before "agent_9"
)


def run_case(case):
    global AGENTS
    rec = Recorder()
    fam = case["fam"]
    # the agent ids of the multi-agent families (every helper reads the module-level list when it is called)
    AGENTS = list(AGENT_ID_STYLES[int(case.get("seed", 0)) % 3 if fam in ("ippo", "mac") else 0])
    try:
        if fam == "prep":
            _run_prep(case, rec)
        elif fam == "algo":
            _run_algo(case, rec)
        elif fam == "ippo":
            _run_ippo(case, rec)
        elif fam == "mac":
            _run_mac(case, rec)
        else:
            raise ValueError(fam)
    except CaseTimeout:
        raise
    return rec.result()


def finalize(ctx):
    fams = {}
    for c in ctx["cases"]:
        fams[c["fam"]] = fams.get(c["fam"], 0) + 1
    info = {k: int(v) for k, v in ctx["counters"].items() if k.startswith("info_")}
    return {"cases_per_family": fams, "informational_observations": info}


# ====================================================================== for the lead (not used at run time)
# Mechanism-level matchers of the six deviations observed on the unchanged tree (see the report); each was
# verified to be hit only by witnesses of its own mechanism (quick seeds 0-3, thorough sweep).
PROPOSED_KNOWN_FINDINGS = [
    {"property": "C15", "key": "c15-get-vect-dim-multibinary", "status": "known",
     "what": "get_vect_dim compares len(shape) with the shape tuple for MultiBinary: TypeError for every MultiBinary "
             "observation (also reached through IPPO.get_action)",
     "match": {"kind": "exception:TypeError", "site": "agilerl/utils/algo_utils.py:get_vect_dim", "leaf": "MultiBinary"}},
    {"property": "C15", "key": "c15-multidiscrete-step-env", "status": "known",
     "what": "preprocess_observation reshapes a (step, env, k) MultiDiscrete observation with the one-hot width "
             "sum(nvec) instead of k: RuntimeError/IndexError",
     "match": {"monitor": "prepare", "kind": "re:^exception:(RuntimeError|IndexError)$", "leaf": "MultiDiscrete",
               "mode": "step_env"}},
    {"property": "C15", "key": "c15-box0-batched-mlp", "status": "known",
     "what": "a batch of rank-0 Box observations is prepared as (B,) and the MLP encoder unsqueezes it to (1,B): "
             "matmul error for B>1 in every single-agent get_action",
     "match": {"monitor": "consequence_single", "kind": "exception:RuntimeError", "site": "agilerl/modules/mlp.py:forward",
               "leaf": "Box0", "mode": "batch"}},
    {"property": "C15", "key": "c15-ippo-agent-order", "status": "known",
     "what": "IPPO groups observations in dict order but labels outputs in agent_ids order: homogeneous agents get each "
             "other's values/actions when the dict order differs from agent_ids",
     "match": {"monitor": "consequence_shared_policy", "kind": "depends_on_agent_order_in_dict", "site": "IPPO.get_action"}},
    {"property": "C15", "key": "c15-ma-actor-agent-order", "status": "known",
     "what": "MADDPG/MATD3.get_action zip agent_ids with the observation dict's values: observations reach other agents' "
             "actors when the dict order differs from agent_ids",
     "match": {"monitor": "consequence_ma_actor", "kind": "depends_on_agent_order_in_dict",
               "site": ["MADDPG.get_action", "MATD3.get_action"]}},
    {"property": "C15", "key": "c15-critic-stack-agent-order", "status": "known",
     "what": "stack_critic_observations stacks in dict order, not agent_ids order: the centralised critic's value depends "
             "on the key order of the observation dict",
     "match": {"monitor": ["critic_stack", "consequence_central_critic"], "kind": "depends_on_agent_order_in_dict"}},
]
