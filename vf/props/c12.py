"""C12 - the vectorised multi-agent (PettingZoo) environment equals N independent environments.

History recording at the client boundary + sequential reference model.

The sub-environments are scripted (vf/refmodels/scripted_pz.py): everything they return is a pure
function of (base seed, env id, agent, episode number, t, action received) and every observation
embeds those numbers plus a checksum.  The real `AsyncPettingZooVecEnv` (worker processes, shared
memory, pipes) is driven with seeded action batches; after every `reset`/`step` every returned slice
(observation, reward, termination, truncation, info) of every sub-environment and agent is compared
with what a fresh reference copy of the same scripted environment returns when it is stepped alone
with column i of the actions.  The reference applies the STATEMENT's reset rule: when all agents of
env i are done (terminated or truncated) env i alone is reset and the observation reported for it is
the first observation of its new episode (reward / termination / truncation are those of the final
step).  The sub-environment states (episode, t) are additionally read through `vec.call` so that
"env i alone was reset, env j was not disturbed" is observed directly.
`PettingZooAutoResetParallelWrapper` is checked the same way in-process: restarted iff every agent is
terminated OR truncated.

Every scenario runs in its own forked process (own process group, watchdog, group kill afterwards):
a hang cannot take a shard with it and no worker process survives a case.
"""

from __future__ import annotations

import functools
import multiprocessing as mp
import os
import signal
import time

import numpy as np

from vf.core import CaseTimeout, Recorder

PROPERTY = "C12"
LEVEL = "exploration"
RULE = (
    "case = (vec|wrapper, N sub-envs 1..6, 1..4 agents, observation kind vector/image/dict/tuple, dtype "
    "float32/float64/uint8/int64 (dict/tuple mix two dtypes), Discrete or Box(1..3) actions, per-sub-env episode "
    "length 1..7 (all different so that resets interleave), ending by termination / truncation / mixed, optional "
    "early-leaving agent (absent or staying), shuffled dict key order, heterogeneous agent shapes, copy mode, "
    "mid-run full reset, seed); a seeded action sequence is executed on the real vector env (workers sleep a seeded "
    "0-3 ms per step) and on sequential reference copies; non-trivial = at least 5 steps were compared slice by "
    "slice AND at least one automatic episode end was compared (for N>=2: in two different sub-envs at different "
    "steps), or the real code raised; distinct = distinct case descriptions"
    " Added: 40 % of the scenarios use sub-environments with a random stream of their own that reset(seed=) seeds; a per-episode draw from it enters the rewards"
)
ASSUMPTIONS = [
    "sub-environments are scripted deterministic ParallelEnvs; real PettingZoo games are not driven",
    "default multiprocessing context (fork); spawn/forkserver contexts are not exercised",
    "for an agent that is absent from env i's returned dictionaries the statement defines no value: the slot of that "
    "agent at position i is not part of the verdict (conformance with the documented placeholders is counted as info)",
    "at the step that ends an episode the info slice may be the final step's info, the reset info or their union "
    "(the statement fixes only the observation)",
    "the action reaching a sub-env may differ in *shape* from column i (the worker squeezes arrays); only its values "
    "are part of the verdict, shape changes are counted as info",
    "which seed sub-env i receives from reset(seed=s) is not part of the statement (s+i is assumed for the reference; "
    "the seed echoed in info is excluded from the verdict)",
    "a scenario that hangs is inconclusive for C12 (hangs are C13's business)",
    "completion order of workers is perturbed by injected sleeps, not controlled: the evidence reports the number of "
    "distinct completion permutations actually observed",
]
REQUIRED_COUNTERS = [
    "obs_slices_compared",
    "reward_slices_compared",
    "flag_slices_compared",
    "info_slices_compared",
    "episode_ends_compared",
    "isolation_checks",
]
# per scenario kind (decided in finalize so that a --replay of one scenario is not inconclusive for the other kind)
REQUIRED_BY_KIND = {"vec": ["declared_space_checks", "steps"], "wrapper": ["wrapper_restart_checks"]}
CASE_TIMEOUT_S = 240

OBS_KINDS = ["vector", "image", "dict", "tuple"]
DTYPES = ["float32", "float64", "uint8", "int64"]
ACTS = ["discrete", "box1", "box2", "box3"]
ENDS = ["term", "trunc", "mixed"]
INFO_SKIP = ("stamp", "seed_in", "act_shape")

VEC_STEP = "AsyncPettingZooVecEnv.step"
VEC_RESET = "AsyncPettingZooVecEnv.reset"
WORKER = "pz_async_vec_env._async_worker"
WRAPPER = "PettingZooAutoResetParallelWrapper.step"


def preload():
    from vf.core import quiet_torch

    quiet_torch()
    import gymnasium  # noqa
    import pettingzoo  # noqa
    import agilerl.vector.pz_async_vec_env  # noqa
    import agilerl.vector.pz_vec_env  # noqa
    import agilerl.wrappers.pettingzoo_wrappers  # noqa
    import vf.refmodels.scripted_pz  # noqa


# ====================================================================== cases
def _case(rng, kind, steps, **over):
    n_envs = int(rng.integers(1, 7))
    n_agents = int(rng.integers(1, 5))
    c = {
        "kind": kind,
        "n_envs": n_envs,
        "n_agents": n_agents,
        "obs": OBS_KINDS[int(rng.integers(4))],
        "dtype": DTYPES[int(rng.integers(4))],
        "act": ACTS[int(rng.integers(4))],
        "end": ENDS[int(rng.integers(3))],
        "leave": {},
        "leave_mode": "absent",
        "shuffle_keys": bool(rng.random() < 0.15),
        "hetero": bool(rng.random() < 0.3),
        "copy": bool(rng.random() < 0.7),
        "act_col": bool(rng.random() < 0.2),
        "midreset": bool(rng.random() < 0.2),
        # sub-environments that hand out non-C-contiguous arrays (transposed / Fortran-ordered frames): same logical
        # values, another memory order
        "layout": "fortran" if rng.random() < 0.25 else "c",
        # sub-environments with a random stream of their own that reset(seed=...) seeds (rewards depend on a per-episode draw)
        "rng_salt": bool(rng.random() < 0.4),
        "steps": int(steps),
        "seed": int(rng.integers(1 << 30)),
    }
    c.update(over)
    if kind == "wrapper":
        c["n_envs"] = 1
        c["midreset"] = False
        c["copy"] = True
    if "ep_lens" not in c:
        c["ep_lens"] = [int(x) for x in rng.permutation(np.arange(1, 8))[: c["n_envs"]]]
    want_leave = over.get("_leave", None)
    c.pop("_leave", None)
    if want_leave is None:
        want_leave = bool(rng.random() < 0.22)
    if want_leave and c["n_agents"] >= 2 and max(c["ep_lens"]) >= 2 and not c["leave"]:
        who = int(rng.integers(0, c["n_agents"] - 1))
        c["leave"] = {str(who): int(rng.integers(1, max(c["ep_lens"])))}
        if "leave_mode" not in over:
            c["leave_mode"] = "absent" if rng.random() < 0.6 else "stay"
    return c


def cases(tier, seed):
    rng = np.random.default_rng(1200 + seed)
    quick = tier == "quick"
    steps = 40 if quick else 100
    out = []
    V = functools.partial(_case, rng, "vec", steps)
    W = functools.partial(_case, rng, "wrapper", steps)
    plain = dict(shuffle_keys=False, hetero=False, copy=True, act_col=False, midreset=False, _leave=False)
    # ---- hostile corners first
    out.append(V(n_envs=1, n_agents=1, ep_lens=[1], obs="vector", dtype="float32", act="discrete", end="term", **plain))
    out.append(V(n_envs=1, n_agents=1, ep_lens=[1], obs="image", dtype="uint8", act="box1", end="trunc", **plain))
    out.append(V(n_envs=6, n_agents=2, ep_lens=[1, 2, 3, 4, 5, 6], obs="image", dtype="uint8", act="discrete", end="trunc", **plain))
    out.append(V(n_envs=6, n_agents=3, ep_lens=[6, 5, 4, 3, 2, 1], obs="dict", dtype="float32", act="box3", end="mixed", **plain))
    out.append(V(n_envs=6, n_agents=4, ep_lens=[7, 1, 6, 2, 5, 3], obs="tuple", dtype="int64", act="box2", end="term", **plain))
    # N == number of agents: a transposed action batch stays shape compatible
    out.append(V(n_envs=3, n_agents=3, ep_lens=[2, 3, 5], obs="vector", dtype="float64", act="discrete", end="term", **plain))
    out.append(V(n_envs=4, n_agents=4, ep_lens=[3, 1, 4, 2], obs="vector", dtype="int64", act="box1", end="mixed", **plain))
    out.append(V(n_envs=2, n_agents=2, ep_lens=[2, 3], obs="image", dtype="float32", act="box2", end="trunc", **plain))
    # every observation kind x dtype
    for ok in OBS_KINDS:
        for dt in DTYPES:
            if quick and (OBS_KINDS.index(ok) + DTYPES.index(dt) + seed) % 2:
                continue
            out.append(V(n_envs=3, n_agents=2, ep_lens=[2, 3, 5], obs=ok, dtype=dt))
    # early leavers (absent / staying), each ending
    for end in ENDS:
        out.append(V(n_envs=3, n_agents=3, ep_lens=[3, 4, 6], end=end, leave={"0": 2}, leave_mode="absent", shuffle_keys=False))
        out.append(V(n_envs=3, n_agents=3, ep_lens=[3, 4, 6], end=end, leave={"1": 1}, leave_mode="stay", shuffle_keys=False))
    # an absent agent with every observation kind (placeholder shapes) and dtype
    for j, ok in enumerate(OBS_KINDS):
        out.append(
            V(n_envs=3, n_agents=3, ep_lens=[3, 4, 6], obs=ok, dtype=DTYPES[(j + seed) % 4], leave={"0": 1}, leave_mode="absent", shuffle_keys=False)
        )
    # copy / no copy, key order, heterogeneous shapes, mid-run reset, column actions
    out.append(V(n_envs=4, n_agents=2, copy=False, _leave=False))
    out.append(V(n_envs=2, n_agents=3, copy=False, obs="dict", _leave=False))
    out.append(V(n_envs=3, n_agents=2, shuffle_keys=True, end="mixed", _leave=False))
    out.append(V(n_envs=3, n_agents=2, shuffle_keys=True, end="term", _leave=False))
    out.append(V(n_envs=3, n_agents=4, hetero=True, obs="tuple", _leave=False))
    out.append(V(n_envs=5, n_agents=2, midreset=True, _leave=False))
    out.append(V(n_envs=3, n_agents=2, act="discrete", act_col=True, _leave=False))
    # the single-environment auto-reset wrapper: every ending x leave mode
    for end in ENDS:
        for n_agents in (1, 2, 3):
            out.append(W(n_agents=n_agents, end=end, ep_lens=[int(rng.integers(1, 6))], _leave=False, shuffle_keys=False))
        out.append(W(n_agents=3, end=end, ep_lens=[4], leave={"0": 2}, leave_mode="absent", shuffle_keys=False))
        out.append(W(n_agents=3, end=end, ep_lens=[4], leave={"1": 1}, leave_mode="stay", shuffle_keys=False))
    out.append(W(n_agents=2, end="mixed", ep_lens=[3], shuffle_keys=True, _leave=False))
    # ---- random
    n_vec = 260 if quick else 6000
    n_wrap = 100 if quick else 1500
    for _ in range(n_vec):
        out.append(V())
    for _ in range(n_wrap):
        out.append(W())
    return out


def _env_cfg(case, sleep):
    return {
        "base_seed": case["seed"],
        "n_agents": case["n_agents"],
        "obs": case["obs"],
        "dtype": case["dtype"],
        "act": case["act"],
        "ep_lens": list(case["ep_lens"]),
        "end": case["end"],
        "leave": dict(case.get("leave") or {}),
        "leave_mode": case.get("leave_mode", "absent"),
        "shuffle_keys": bool(case.get("shuffle_keys")),
        "hetero": bool(case.get("hetero")),
        "layout": case.get("layout", "c"),
        "rng_salt": bool(case.get("rng_salt")),
        "sleep": bool(sleep),
    }


# ====================================================================== comparison helpers
def _slice_obs(batch, i):
    if isinstance(batch, dict):
        return {k: v[i] for k, v in batch.items()}
    if isinstance(batch, (tuple, list)):
        return tuple(v[i] for v in batch)
    return batch[i]


def _obs_eq(a, b):
    if isinstance(b, dict):
        return isinstance(a, dict) and set(a) == set(b) and all(_obs_eq(a[k], b[k]) for k in b)
    if isinstance(b, (tuple, list)):
        return isinstance(a, (tuple, list)) and len(a) == len(b) and all(_obs_eq(x, y) for x, y in zip(a, b))
    try:
        a = np.asarray(a)
        b = np.asarray(b)
        return a.shape == b.shape and bool(np.array_equal(a, b))
    except Exception:
        return False


def _obs_bytes(batch):
    if isinstance(batch, dict):
        return b"".join(_obs_bytes(batch[k]) for k in sorted(batch))
    if isinstance(batch, (tuple, list)):
        return b"".join(_obs_bytes(v) for v in batch)
    return np.ascontiguousarray(batch).tobytes()


def _norm(x):
    if isinstance(x, dict):
        return {str(k): _norm(v) for k, v in x.items() if k not in INFO_SKIP}
    if isinstance(x, np.ndarray):
        return ["nd", x.tolist()]
    if isinstance(x, np.generic):
        return x.item()
    if isinstance(x, (list, tuple)):
        return [_norm(v) for v in x]
    return x


def _info_slice(vinfo, i):
    """Reconstruct env i's info dictionary from the vectorised info (values + '_key' masks)."""
    out = {}
    if not isinstance(vinfo, dict):
        return out
    for k, v in vinfo.items():
        if isinstance(k, str) and k.startswith("_"):
            continue
        mask = vinfo.get(f"_{k}")
        try:
            if mask is None or not bool(mask[i]):
                continue
        except Exception:
            continue
        if isinstance(v, dict):
            out[k] = _info_slice(v, i)
        else:
            out[k] = v[i]
    return out


def _check_leaf_decl(rec, leaf, sub, N, site, agent, path):
    want_shape = (N,) + tuple(sub.shape)
    if not isinstance(leaf, np.ndarray):
        rec.violate("declared_space", "leaf_is_not_an_array", site, agent=agent, path=path, got=type(leaf).__name__)
        return
    if tuple(leaf.shape) != want_shape:
        rec.violate("declared_space", "shape_differs_from_declared", site, agent=agent, path=path, got=list(leaf.shape), want=list(want_shape))
    if leaf.dtype != sub.dtype:
        rec.violate("declared_space", "dtype_differs_from_declared", site, agent=agent, path=path, got=str(leaf.dtype), want=str(sub.dtype))


def _check_declared(rec, batch, space, N, site, agent):
    from gymnasium import spaces

    rec.hit("declared_space_checks")
    if isinstance(space, spaces.Dict):
        if not isinstance(batch, dict) or set(batch.keys()) != set(space.spaces.keys()):
            rec.violate("declared_space", "structure_differs_from_declared", site, agent=agent, got=type(batch).__name__)
            return False
        for k, sub in space.spaces.items():
            _check_leaf_decl(rec, batch[k], sub, N, site, agent, k)
    elif isinstance(space, spaces.Tuple):
        if not isinstance(batch, (tuple, list)) or len(batch) != len(space.spaces):
            rec.violate("declared_space", "structure_differs_from_declared", site, agent=agent, got=type(batch).__name__)
            return False
        for j, sub in enumerate(space.spaces):
            _check_leaf_decl(rec, batch[j], sub, N, site, agent, str(j))
    else:
        _check_leaf_decl(rec, batch, space, N, site, agent, "")
    return True


def _flags_kind(term, trunc):
    te = [bool(v) for v in term.values()]
    if all(te):
        return "all_terminated"
    if not any(te) and all(bool(v) for v in trunc.values()):
        return "all_truncated"
    return "mixed"


def _diagnose_obs(got, want, env_i, agent_idx, last_seen):
    """Name the mechanism of a wrong observation slot from the numbers embedded in it."""
    from vf.refmodels.scripted_pz import decode_leaf, first_leaf

    try:
        d = decode_leaf(first_leaf(got))
        w = decode_leaf(first_leaf(want))
    except Exception:
        return "obs_differs", {}
    if not d.get("intact"):
        return "torn_or_foreign_obs", d
    if d["env"] != env_i:
        return "obs_of_other_env", d
    if d["agent"] != agent_idx:
        return "obs_of_other_agent", d
    if last_seen is not None and (d["ep"], d["t"]) == last_seen and (d["ep"], d["t"]) != (w.get("ep"), w.get("t")):
        return "stale_obs", d
    if (d["ep"], d["t"]) != (w.get("ep"), w.get("t")):
        return "obs_of_other_step", d
    if d["act"] != w.get("act"):
        return "obs_reflects_other_action", d
    return "obs_differs", d


# ====================================================================== reference stepping
class _Exp:
    """What the statement prescribes for one sub-environment after one step."""

    __slots__ = ("obs", "term_obs", "rew", "term", "trunc", "info", "reset_info", "done", "present", "state", "flags", "old_state")


def _ref_step(ref, col):
    e = _Exp()
    o, r, te, tr, inf = ref.step(col)
    e.present = list(o.keys())
    e.rew, e.term, e.trunc, e.info = r, te, tr, inf
    e.done = all(bool(te[a]) or bool(tr[a]) for a in te)
    e.old_state = (ref.episode, ref.t)
    e.term_obs = None
    e.reset_info = None
    e.flags = None
    if e.done:
        e.flags = _flags_kind(te, tr)
        e.term_obs = o
        o, e.reset_info = ref.reset()
    e.obs = o
    e.state = (ref.episode, ref.t)
    return e


FINAL_KEYS = ("final_info", "final_obs", "final_observation")


def _info_ok(got, e, agent):
    want = _norm(e.info.get(agent, {}))
    g = _norm(got)
    if g == want:
        return True
    if e.done and e.reset_info is not None and isinstance(g, dict):
        # the statement fixes only the observation of the step that ends an episode: the info slice may be the
        # final step's info, the reset info, any union of the two, optionally with gymnasium's final_* entries
        ri = _norm(e.reset_info.get(agent, {}))
        core = {k: v for k, v in g.items() if k not in FINAL_KEYS}
        values_ok = all((k in want and want[k] == v) or (k in ri and ri[k] == v) for k, v in core.items())
        covers = set(want) <= set(core) or set(ri) <= set(core)
        final_ok = "final_info" not in g or g["final_info"] == want
        return bool(values_ok and covers and final_ok)
    return False


def _env_shows_final_transition(batches, e, i):
    """True when, at an episode end of env i, the agents present in the final step show their terminal observation."""
    seen = False
    for a in e.present:
        if a not in batches or a not in e.term_obs:
            continue
        got = _slice_obs(batches[a], i)
        if _obs_eq(got, e.obs[a]) or not _obs_eq(got, e.term_obs[a]):
            return False
        seen = True
    return seen


def _placeholder_ok(space, obs_slice, rew, te, tr):
    """Documented placeholders: obs -1, reward 0, terminated True, truncated False (info only)."""
    try:
        leaves = []

        def walk(v):
            if isinstance(v, dict):
                for x in v.values():
                    walk(x)
            elif isinstance(v, (tuple, list)):
                for x in v:
                    walk(x)
            else:
                leaves.append(np.asarray(v))

        walk(obs_slice)
        ok_obs = all(bool(np.all(l == np.asarray(-1).astype(l.dtype))) for l in leaves)
        return ok_obs and float(rew) == 0.0 and bool(te) and not bool(tr)
    except Exception:
        return False


# ====================================================================== vec scenario
def _gen_actions(case, rng, agents, N):
    acts = {}
    for a in agents:
        if case["act"] == "discrete":
            v = rng.integers(0, 5, size=N).astype(np.int64)
            if case.get("act_col"):
                v = v.reshape(N, 1)
        else:
            d = {"box1": 1, "box2": 2, "box3": 3}[case["act"]]
            v = (rng.integers(-8, 9, size=(N, d)) / 8.0).astype(np.float32)
        acts[a] = v
    # the order of the keys of the action dictionary is not significant
    keys = list(acts)
    if rng.random() < 0.5:
        keys = keys[::-1]
    return {k: acts[k] for k in keys}


def _compare_reset(rec, case, vec, refs, ret, seed, agents, spaces_, site):
    N = len(refs)
    obs, infos = ret
    exp = [r.reset(seed=None if seed is None else seed + i) for i, r in enumerate(refs)]
    got_keys = set(obs.keys())
    if got_keys != set(agents):
        rec.violate("obs_slice", "agent_keys_differ", site, got=sorted(got_keys), want=list(agents))
    for ai, a in enumerate(agents):
        if a not in got_keys:
            continue
        batch = obs[a]
        _check_declared(rec, batch, spaces_[a], N, site, a)
        for i in range(N):
            rec.hit("obs_slices_compared")
            got = _slice_obs(batch, i)
            if not _obs_eq(got, exp[i][0][a]):
                kind, d = _diagnose_obs(got, exp[i][0][a], i, ai, None)
                rec.violate("obs_slice", kind, site, env=i, agent=a, decoded=d)
    seed_bad = 0
    for i in range(N):
        sl = _info_slice(infos, i)
        for a in agents:
            rec.hit("info_slices_compared")
            if _norm(sl.get(a, {})) != _norm(exp[i][1][a]):
                rec.violate("info_slice", "info_differs", site, env=i, agent=a, got=_norm(sl.get(a)), want=_norm(exp[i][1][a]))
            if seed is not None and sl.get(a, {}).get("seed_in") != exp[i][1][a]["seed_in"]:
                seed_bad += 1
            if seed is not None and a in sl and "seed_in" in sl.get(a, {}):
                # WHICH seed sub-env i gets is not part of the statement, THAT a seeded reset reaches it as a seeded reset
                # is (an environment reset alone with a seed is reproducible, one reset without a seed is not)
                rec.hit("seeded_reset_checks")
                if seed == 0:
                    rec.hit("seeded_reset_checks_with_seed_0")
                if int(sl[a]["seed_in"]) == -1:
                    rec.violate("reset_seed", "seeded_reset_reached_the_sub_environment_without_a_seed", site, env=i, agent=a, seed=int(seed))
    if seed_bad:
        rec.hit("(info)seed_routing_differs_from_seed_plus_i", seed_bad)


def _probe_states(rec, vec):
    try:
        res = vec.call("probe_state")
        return [tuple(int(x) for x in r[:2]) for r in res]
    except Exception:
        rec.hit("state_probe_failed")
        return None


def _scenario_vec(case, rec, progress):
    from agilerl.vector.pz_async_vec_env import AsyncPettingZooVecEnv
    from vf.refmodels.scripted_pz import ScriptedParallelEnv, make_env

    N = case["n_envs"]
    cfg_real = _env_cfg(case, sleep=True)
    cfg_ref = _env_cfg(case, sleep=False)
    fns = [functools.partial(make_env, cfg_real, i) for i in range(N)]
    refs = [ScriptedParallelEnv(cfg_ref, i) for i in range(N)]
    agents = list(refs[0].possible_agents)
    aidx = {a: i for i, a in enumerate(agents)}
    spaces_ = {a: refs[0].observation_space(a) for a in agents}
    rng = np.random.default_rng(case["seed"])
    steps = case["steps"]
    midreset_at = {int(steps * 0.45): case["seed"] % 977, int(steps * 0.7): None} if case.get("midreset") else {}
    perms = set()
    ends_seen = {}  # env -> steps at which its episode end was compared
    steps_compared = 0
    act_shape_changed = 0
    vec = None
    clean = False
    phase = "construct"
    any_absent = False
    try:
        vec = AsyncPettingZooVecEnv(fns, copy=case["copy"])
        # declared single / batched spaces
        from gymnasium.vector.utils import batch_space

        for a in agents:
            rec.hit("declared_space_checks")
            if vec.single_observation_space(a) != spaces_[a]:
                rec.violate("declared_space", "single_space_differs_from_sub_env", "AsyncPettingZooVecEnv.__init__", agent=a)
            if vec.observation_space(a) != batch_space(spaces_[a], N):
                rec.violate("declared_space", "batched_space_differs_from_batch_of_sub_env_space", "AsyncPettingZooVecEnv.__init__", agent=a)
        phase = "reset"
        seed0 = case["seed"] % 1009 if case["seed"] % 4 else 0  # the integer 0 is a seed like any other
        ret = vec.reset(seed=seed0)
        phase = "compare"
        _compare_reset(rec, case, vec, refs, ret, seed0, agents, spaces_, VEC_RESET)
        last_seen = [(r.episode % 251, r.t) for r in refs]
        prev = None  # (returned obs object, fingerprint) of the previous step
        for k in range(steps):
            if k in midreset_at:
                phase = "reset"
                s = midreset_at[k]
                ret = vec.reset(seed=s)
                phase = "compare"
                _compare_reset(rec, case, vec, refs, ret, s, agents, spaces_, VEC_RESET)
                rec.hit("midrun_full_resets")
                last_seen = [(r.episode % 251, r.t) for r in refs]
                prev = None
            phase = "step"
            acts = _gen_actions(case, rng, agents, N)
            exp = [_ref_step(refs[i], {a: acts[a][i] for a in agents}) for i in range(N)]
            any_absent = any(len(e.present) < len(agents) for e in exp)
            obs, rew, term, trunc, infos = vec.step(acts)
            phase = "compare"
            rec.hit("steps")
            states = _probe_states(rec, vec)
            n_done = sum(1 for e in exp if e.done)
            # ---------------- declared structure of the returned batch
            for name, d in (("reward", rew), ("termination", term), ("truncation", trunc)):
                if set(d.keys()) != set(agents):
                    rec.violate("flag_slice" if name != "reward" else "reward_slice", "agent_keys_differ", VEC_STEP, what=name, got=sorted(d.keys()))
            got_keys = set(obs.keys())
            if got_keys != set(agents):
                rec.violate("obs_slice", "agent_keys_differ", VEC_STEP, got=sorted(got_keys), want=agents)
            batches = {}
            for a in agents:
                if a in got_keys:
                    batches[a] = obs[a]
                    _check_declared(rec, batches[a], spaces_[a], N, VEC_STEP, a)
                for name, d in (("reward", rew), ("termination", term), ("truncation", trunc)):
                    if a in d and np.shape(d[a]) != (N,):
                        rec.violate("declared_space", f"{name}_batch_shape_differs", VEC_STEP, agent=a, got=list(np.shape(d[a])), want=[N])
            # ---------------- per sub-environment
            stamps = []
            for i, e in enumerate(exp):
                # (1) state of the sub-environment: was env i - and only env i - reset?
                desync = False
                if states is not None:
                    rec.hit("isolation_checks")
                    if e.done:
                        rec.hit("episode_ends_compared")
                    real = states[i]
                    if real != e.state:
                        desync = True
                        keys = "shuffled_keys" if case.get("shuffle_keys") else "same_keys"
                        if e.done and real == e.old_state:
                            rec.violate("auto_reset_condition", f"episode_not_restarted:{e.flags}:{keys}", WORKER, env=i, step=k, real_state=real, want_state=e.state)
                        elif (not e.done) and real == (e.old_state[0] + 1, 0):
                            rec.violate("auto_reset_condition", "episode_restarted_though_not_all_agents_done", WORKER, env=i, step=k, real_state=real, want_state=e.state)
                        elif (not e.done) and n_done > 0:
                            rec.violate("isolation", "env_disturbed_by_other_envs_reset", WORKER, env=i, step=k, real_state=real, want_state=e.state)
                        else:
                            rec.violate("isolation", "sub_env_state_differs", WORKER, env=i, step=k, real_state=real, want_state=e.state)
                        refs[i].force_state(real[0], real[1])
                elif e.done:
                    rec.hit("episode_ends_compared")
                if e.done:
                    ends_seen.setdefault(i, set()).add(k)
                sl_info = _info_slice(infos, i)
                st = [v.get("stamp") for v in sl_info.values() if isinstance(v, dict) and v.get("stamp") is not None]
                stamps.append(max(int(s) for s in st) if st else None)
                for a in agents:
                    ai = aidx[a]
                    present = a in e.present
                    # (2) observation
                    if a in batches and not desync:
                        got = _slice_obs(batches[a], i)
                        if present or e.done:
                            rec.hit("obs_slices_compared")
                            want = e.obs[a]
                            if not _obs_eq(got, want):
                                if e.done and a in e.term_obs and _obs_eq(got, e.term_obs[a]):
                                    rec.violate("auto_reset_obs", "terminal_obs_returned_instead_of_reset_obs", WORKER, env=i, agent=a, step=k, flags=e.flags)
                                elif e.done and not present and _env_shows_final_transition(batches, e, i):
                                    # same mechanism seen through an agent that had left: its slot holds the final
                                    # transition's placeholder / stale value instead of the new episode's observation
                                    rec.violate("auto_reset_obs", "terminal_obs_returned_instead_of_reset_obs", WORKER, env=i, agent=a, step=k, flags=e.flags, agent_absent_in_final_step=True)
                                else:
                                    kind, d = _diagnose_obs(got, want, i, ai, last_seen[i])
                                    rec.violate("obs_slice", kind, VEC_STEP, env=i, agent=a, step=k, done_step=e.done, decoded=d)
                        else:
                            rec.hit("absent_agent_slots_seen")
                            try:
                                if not _placeholder_ok(spaces_[a], got, rew[a][i], term[a][i], trunc[a][i]):
                                    rec.hit("(info)absent_agent_slot_not_the_documented_placeholder")
                            except Exception:
                                pass
                    if not present:
                        continue
                    # (3) reward / termination / truncation of the (final) step
                    if a in rew:
                        rec.hit("reward_slices_compared")
                        try:
                            ok = float(rew[a][i]) == float(e.rew[a])
                        except Exception:
                            ok = False
                        if not ok and not desync:
                            rec.violate("reward_slice", "reward_differs", VEC_STEP, env=i, agent=a, step=k, got=rew[a][i], want=e.rew[a])
                    if a in term and a in trunc:
                        rec.hit("flag_slices_compared")
                        if not desync:
                            if bool(term[a][i]) != bool(e.term[a]):
                                rec.violate("flag_slice", "termination_differs", VEC_STEP, env=i, agent=a, step=k, got=term[a][i], want=e.term[a])
                            if bool(trunc[a][i]) != bool(e.trunc[a]):
                                rec.violate("flag_slice", "truncation_differs", VEC_STEP, env=i, agent=a, step=k, got=trunc[a][i], want=e.trunc[a])
                    # (4) info
                    rec.hit("info_slices_compared")
                    got_info = sl_info.get(a, None)
                    if got_info is None:
                        if not desync:
                            rec.violate("info_slice", "info_missing", VEC_STEP, env=i, agent=a, step=k)
                    elif not desync and not _info_ok(got_info, e, a):
                        rec.violate("info_slice", "info_differs", VEC_STEP, env=i, agent=a, step=k, got=_norm(got_info), want=_norm(e.info.get(a)))
                    if isinstance(got_info, dict) and "act_shape" in got_info and not e.done:
                        if got_info["act_shape"] != e.info.get(a, {}).get("act_shape"):
                            act_shape_changed += 1
                last_seen[i] = (refs[i].episode % 251, refs[i].t)
            # ---------------- schedules
            if N >= 2 and all(s is not None for s in stamps):
                rec.hit("completion_orders_recorded")
                perms.add("".join(str(int(j)) for j in np.argsort(np.asarray(stamps), kind="stable")))
            # ---------------- copy mode: what was handed out earlier must not change under the client
            if case["copy"]:
                if prev is not None:
                    rec.hit("copy_independence_checks")
                    if b"".join(_obs_bytes(prev[0][a]) for a in sorted(prev[0])) != prev[1]:
                        rec.violate("copy_mode", "returned_obs_changed_by_later_step", VEC_STEP, step=k)
                if isinstance(obs, dict):
                    prev = (obs, b"".join(_obs_bytes(obs[a]) for a in sorted(obs)))
            steps_compared += 1
            if k % 8 == 0:
                progress(rec)
            phase = "step"
        clean = True
    except Exception as e:
        if isinstance(e, CaseTimeout):
            raise
        if phase == "compare":
            rec.crash(e, "harness_error", f"oracle failed while comparing ({phase})")
        else:
            mon = "absent_agent" if (phase == "step" and any_absent) else "crash"
            rec.crash(e, mon, f"vec.{phase}", absent_agent_in_some_env=bool(any_absent))
    finally:
        multi = [i for i, s in ends_seen.items() if s]
        distinct_steps = set()
        for s in ends_seen.values():
            distinct_steps |= s
        rec.nontrivial = (not clean) or (
            steps_compared >= 5 and len(multi) >= 1 and (N < 2 or (len(multi) >= 2 and len(distinct_steps) >= 2))
        )
        rec.extra["perms"] = sorted(perms)[:64]
        rec.extra["n_envs"] = N
        if act_shape_changed:
            rec.hit("(info)action_reached_sub_env_with_other_shape", act_shape_changed)
        progress(rec)
        if vec is not None:
            try:
                if clean:
                    vec.close()
                else:
                    vec.close(terminate=True)
            except Exception:
                rec.hit("(info)close_raised")
                try:
                    vec.close(terminate=True)
                except Exception:
                    pass


# ====================================================================== wrapper scenario
def _scenario_wrapper(case, rec, progress):
    from agilerl.wrappers.pettingzoo_wrappers import PettingZooAutoResetParallelWrapper
    from vf.refmodels.scripted_pz import ScriptedParallelEnv

    cfg = _env_cfg(case, sleep=False)
    inner = ScriptedParallelEnv(cfg, 0)
    ref = ScriptedParallelEnv(cfg, 0)
    agents = list(ref.possible_agents)
    aidx = {a: i for i, a in enumerate(agents)}
    rng = np.random.default_rng(case["seed"])
    real = PettingZooAutoResetParallelWrapper(inner)
    phase = "reset"
    ends = 0
    steps_compared = 0
    clean = False
    try:
        obs, infos = real.reset(seed=case["seed"] % 1009)
        phase = "compare"
        eo, ei = ref.reset(seed=case["seed"] % 1009)
        for a in agents:
            rec.hit("obs_slices_compared")
            if a not in obs or not _obs_eq(obs[a], eo[a]):
                rec.violate("obs_slice", "obs_differs", "PettingZooAutoResetParallelWrapper.reset", agent=a)
        for k in range(case["steps"]):
            phase = "step"
            batch = _gen_actions(case, rng, agents, 1)
            col = {a: batch[a][0] for a in agents}
            e = _ref_step(ref, dict(col))
            o, r, te, tr, inf = real.step(dict(col))
            phase = "compare"
            rec.hit("steps")
            rec.hit("wrapper_restart_checks")
            rec.hit("isolation_checks")
            state = (inner.episode, inner.t)
            desync = False
            if e.done:
                ends += 1
                rec.hit("episode_ends_compared")
            if state != e.state:
                desync = True
                keys = "shuffled_keys" if case.get("shuffle_keys") else "same_keys"
                if e.done and state == e.old_state:
                    rec.violate("auto_reset_condition", f"episode_not_restarted:{e.flags}:{keys}", WRAPPER, step=k, real_state=state, want_state=e.state)
                elif (not e.done) and state == (e.old_state[0] + 1, 0):
                    rec.violate("auto_reset_condition", "episode_restarted_though_not_all_agents_done", WRAPPER, step=k, real_state=state, want_state=e.state)
                else:
                    rec.violate("isolation", "sub_env_state_differs", WRAPPER, step=k, real_state=state, want_state=e.state)
                ref.force_state(state[0], state[1])
            if not desync:
                want_agents = set(agents) if e.done else set(e.present)
                if set(o.keys()) != want_agents:
                    rec.violate("obs_slice", "agent_keys_differ", WRAPPER, step=k, got=sorted(o.keys()), want=sorted(want_agents))
                for a in want_agents & set(o.keys()):
                    rec.hit("obs_slices_compared")
                    if not _obs_eq(o[a], e.obs[a]):
                        if e.done and a in e.term_obs and _obs_eq(o[a], e.term_obs[a]):
                            rec.violate("auto_reset_obs", "terminal_obs_returned_instead_of_reset_obs", WRAPPER, agent=a, step=k, flags=e.flags)
                        else:
                            kind, d = _diagnose_obs(o[a], e.obs[a], 0, aidx[a], None)
                            rec.violate("obs_slice", kind, WRAPPER, agent=a, step=k, decoded=d)
                for a in e.present:
                    rec.hit("reward_slices_compared")
                    if a not in r or float(r[a]) != float(e.rew[a]):
                        rec.violate("reward_slice", "reward_differs", WRAPPER, agent=a, step=k)
                    rec.hit("flag_slices_compared")
                    if a not in te or bool(te[a]) != bool(e.term[a]):
                        rec.violate("flag_slice", "termination_differs", WRAPPER, agent=a, step=k)
                    if a not in tr or bool(tr[a]) != bool(e.trunc[a]):
                        rec.violate("flag_slice", "truncation_differs", WRAPPER, agent=a, step=k)
                    rec.hit("info_slices_compared")
                    if a not in inf and not e.done:
                        rec.violate("info_slice", "info_missing", WRAPPER, agent=a, step=k)
                    elif a in inf and not _info_ok(inf[a], e, a):
                        rec.violate("info_slice", "info_differs", WRAPPER, agent=a, step=k, got=_norm(inf[a]), want=_norm(e.info.get(a)))
            steps_compared += 1
        clean = True
    except Exception as e:
        if isinstance(e, CaseTimeout):
            raise
        if phase == "compare":
            rec.crash(e, "harness_error", "oracle failed while comparing (wrapper)")
        else:
            rec.crash(e, "crash", f"wrapper.{phase}")
    rec.nontrivial = (not clean) or (steps_compared >= 5 and ends >= 1)
    rec.extra["n_envs"] = 1
    rec.extra["perms"] = []


# ====================================================================== isolation: one forked process per scenario
def _child_main(case, conn):
    try:
        os.setpgid(0, 0)
    except OSError:
        pass
    signal.signal(signal.SIGALRM, signal.SIG_DFL)
    rec = Recorder()

    def progress(r):
        try:
            conn.send(("pre", r.result()))
        except Exception:
            pass

    try:
        if case["kind"] == "vec":
            _scenario_vec(case, rec, progress)
        else:
            _scenario_wrapper(case, rec, progress)
    except BaseException as e:  # harness failure: visible, never silent
        rec.crash(e, "harness_error", "scenario")
    try:
        conn.send(("final", rec.result()))
        conn.close()
    finally:
        os._exit(0)


def _group_members(pgid):
    n = 0
    try:
        for name in os.listdir("/proc"):
            if not name.isdigit():
                continue
            try:
                with open(f"/proc/{name}/stat") as f:
                    s = f.read()
                rest = s[s.rindex(")") + 2 :].split()
                if int(rest[2]) == pgid and rest[0] != "Z":
                    n += 1
            except Exception:
                continue
    except Exception:
        pass
    return n


def _kill_group(pgid):
    try:
        os.killpg(pgid, signal.SIGKILL)
    except (ProcessLookupError, PermissionError):
        pass


def _inner_timeout(case):
    # generous watchdog (a scenario takes 0.2-1 s); VF_C12_WATCHDOG_S only shortens it when validating the hang path
    override = os.environ.get("VF_C12_WATCHDOG_S")
    if override:
        return float(override)
    return 60.0 + 0.6 * case["steps"]


def run_case(case):
    ctx = mp.get_context("fork")
    rd, wr = ctx.Pipe(duplex=False)
    p = ctx.Process(target=_child_main, args=(case, wr), daemon=False)
    p.start()
    wr.close()
    deadline = time.monotonic() + _inner_timeout(case)
    latest = None
    final = False
    try:
        while time.monotonic() < deadline:
            if rd.poll(0.5):
                try:
                    tag, payload = rd.recv()
                except (EOFError, OSError):
                    break
                latest = payload
                if tag == "final":
                    final = True
                    break
            elif not p.is_alive():
                if not rd.poll(0):
                    break
    finally:
        leaked = 0
        if final:
            p.join(10)
            leaked = _group_members(p.pid)
        _kill_group(p.pid)
        p.join(10)
        try:
            rd.close()
        except Exception:
            pass
    if latest is None:
        # nothing observed at all: the runner turns this into an inconclusive case
        raise CaseTimeout()
    res = latest
    res.setdefault("counters", {})
    if not final:
        res["counters"]["scenario_hangs"] = res["counters"].get("scenario_hangs", 0) + 1
    if leaked:
        res["counters"]["(info)processes_alive_after_scenario"] = leaked
    return res


# ====================================================================== run-level evidence
def finalize(ctx):
    by_n = {}
    for r in ctx["results"].values():
        ex = r.get("extra") or {}
        n = ex.get("n_envs")
        if n and n >= 2:
            by_n.setdefault(int(n), set()).update(ex.get("perms") or [])
    total = sum(len(v) for v in by_n.values())
    hangs = int(ctx["counters"].get("scenario_hangs", 0))
    if hangs:
        ctx["inconclusive"].append(f"{hangs} scenario(s) hung and were killed by the watchdog (hangs are C13's business)")
    kinds = {c.get("kind") for c in ctx["cases"]}
    for kind, names in REQUIRED_BY_KIND.items():
        if kind in kinds:
            for name in names:
                if ctx["counters"].get(name, 0) <= 0:
                    ctx["inconclusive"].append(f"deciding monitor '{name}' never evaluated")
    had_multi = any(c.get("kind") == "vec" and c.get("n_envs", 1) >= 2 for c in ctx["cases"])
    if had_multi and len(ctx["cases"]) > 1 and max((len(v) for v in by_n.values()), default=0) < 2:
        ctx["inconclusive"].append("fewer than 2 distinct worker completion orders were observed")
    return {
        "distinct_completion_permutations": total,
        "distinct_completion_permutations_by_num_envs": {str(k): len(v) for k, v in sorted(by_n.items())},
    }
