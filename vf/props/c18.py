"""C18 - Rainbow's projected target distribution conserves mass and expected value; the
per-sample loss returned as new priority is the cross-entropy projection x online distribution.

Frame tap + reference model.  A ``sys.monitoring`` PY_RETURN tap on the code object of
``RainbowDQN._dqn_loss`` copies the intermediate tensors out of the frame at return
(``target_q_dist``, ``proj_dist``, ``log_p``, ``next_actions``, ``t_z`` and the return value).
Instance-level taps on ``agent.actor.forward`` / ``agent.actor_target.forward`` record what the
(noisy) networks really returned during that call, so nothing is recomputed through the
networks.  The oracle is the C51 categorical projection (Bellemare et al. 2017) written as a
per-atom loop in float64 for Tz = clip(r + gamma^k (1-d) z, v_min, v_max).
"""

from __future__ import annotations

import sys

import numpy as np

from vf.core import Recorder

PROPERTY = "C18"
LEVEL = "exploration"
RULE = (
    "case = (atoms 2..51, support (0,200)|(-10,10)|(-3.3,7.7)|(0,0.3), gamma 0|.9|.99|1, n_step 1..3, target mode "
    "1-step | n-step | combined, per on/off, batch 1..8 (= agent.batch_size), actions 1..4, weight scale, peaked "
    "(near-delta) target distributions, seed); per case 3 learn() calls on fresh batches whose rows mix rewards "
    "inside / outside / exactly on atoms / on v_min / v_max / multiples of delta_z with done 0/1, then a metamorphic "
    "pair of direct _dqn_loss calls differing in one row. non-trivial = the tap delivered projection and loss for "
    "every expected _dqn_loss call of all 3 learn() calls, every row was compared with the float64 reference "
    "projection, and (per=True) the returned priorities were compared; distinct = distinct case descriptions"
    " Added: hp_route in {construct, construct, assign, mutate}: discount and n-step exponent given to the constructor, assigned after construction, or (gamma) set by a real rl_hp mutation with a one-point range"
)
ASSUMPTIONS = [
    "batches have exactly agent.batch_size rows (RainbowDQN._dqn_loss builds its index offset from self.batch_size; "
    "other sizes are outside the driven workload)",
    "batches are laid out as ReplayBuffer/PrioritizedReplayBuffer.sample deliver them: action, reward, done, weights "
    "of shape (B,1), idxs (B,)",
    "network outputs are read from taps on the very calls _dqn_loss makes (noisy layers: nothing is recomputed); the "
    "source distribution is the target network's output (as returned, i.e. after its 1e-3 clamp) for the argmax of "
    "the online network's Q-values; exact ties of Q-values accept any maximiser",
    "combined target: the priority is the sum of the 1-step and the n-step cross-entropies",
    "float32 allowances: mass 1e-5, mean 1e-4*(v_max-v_min), projection vs float64 reference 1e-5 + "
    "4*eps32*(max|v|/delta_z + atoms), loss and priorities 1e-5 relative (floor 1e-5)",
    "a degenerate support v_min == v_max is only recorded as information, not judged",
    "the metamorphic no-leak pair calls RainbowDQN._dqn_loss directly (noise is only resampled by learn())",
]
REQUIRED_COUNTERS = [
    "tap_returns",
    "rows_mass_checked",
    "rows_mean_checked",
    "rows_reference_checked",
    "rows_loss_checked",
    "priority_rows_checked[1-step]",
    "priority_rows_checked[n-step]",
    "priority_rows_checked[combined]",
    "source_rows_checked",
    "leak_pairs_checked",
]
CASE_TIMEOUT_S = 600

SUPPORTS = [(0, 200), (-10, 10), (-3.3, 7.7), (0, 0.3)]
EPS32 = float(np.finfo(np.float32).eps)
WANTED = ("target_q_dist", "proj_dist", "log_p", "next_actions", "t_z", "gamma")
NEEDED = ("target_q_dist", "proj_dist", "log_p")
_STATE = {"rec": None, "calls": None, "events": None, "tool": None, "installed": False, "tap_error": None}


def preload():
    import torch  # noqa
    import tensordict  # noqa
    import agilerl.algorithms.dqn_rainbow  # noqa
    from vf.core import quiet_torch

    quiet_torch()


# ------------------------------------------------------------------ frame tap
def _on_return(code, offset, retval):
    calls = _STATE["calls"]
    if calls is None:
        return
    try:
        import torch

        frame = sys._getframe(1)
        loc = frame.f_locals
        snap = {"missing": [n for n in NEEDED if n not in loc]}
        for n in WANTED:
            v = loc.get(n)
            if isinstance(v, torch.Tensor):
                snap[n] = v.detach().to("cpu").double().numpy().copy()
            elif v is not None:
                snap[n] = v
        snap["ret"] = retval.detach().to("cpu").double().numpy().copy() if isinstance(retval, torch.Tensor) else None
        calls.append(snap)
        ev = _STATE.get("events")
        if ev is not None:
            ev.append(("ret", None))
    except Exception as e:  # never raise into the code under observation
        _STATE["tap_error"] = f"{type(e).__name__}: {e}"[:200]


def _install():
    if _STATE["installed"]:
        return
    from agilerl.algorithms.dqn_rainbow import RainbowDQN

    mon = sys.monitoring
    tool = None
    for tid in (4, 3, 5, 2):
        if mon.get_tool(tid) is None:
            tool = tid
            break
    if tool is None:
        raise RuntimeError("no free sys.monitoring tool id")
    mon.use_tool_id(tool, "vf-c18")
    mon.register_callback(tool, mon.events.PY_RETURN, _on_return)
    fn = RainbowDQN._dqn_loss
    fn = getattr(fn, "__wrapped__", fn)
    mon.set_local_events(tool, fn.__code__, mon.events.PY_RETURN)
    _STATE["tool"] = tool
    _STATE["installed"] = True


class _NetTap:
    """Shadows net.forward on the instance (EvolvableNetwork.__call__ goes straight to self.forward) and records
    (q, log, output) of every call; removed on exit."""

    def __init__(self, net, peer=None, tag="on"):
        self.net = net
        self.peer = peer  # target tap: the ONLINE network, evaluated on the same input at the same moment
        self.tag = tag
        self.calls = []

    def __enter__(self):
        inner = self.net.forward
        calls = self.calls
        peer = self.peer

        def tapped(obs, q=True, log=False):
            out = inner(obs, q=q, log=log)
            dist = None
            if q and not log:
                # the distribution the same network reports for the same input (noise is only resampled by learn())
                try:
                    import torch

                    with torch.no_grad():
                        dist = inner(obs, q=False, log=False).detach().to("cpu").double().numpy().copy()
                except Exception:
                    dist = None
            pq = pd = None
            if peer is not None and not q and not log:
                # whatever the library does to find the greedy next action: what the online network says about THIS
                # input right now (its un-tapped class forward; weights and noise are those of the loss computation)
                try:
                    import torch

                    with torch.no_grad():
                        f = type(peer).forward
                        pq = f(peer, obs, q=True, log=False).detach().to("cpu").double().numpy().copy()
                        pd = f(peer, obs, q=False, log=False).detach().to("cpu").double().numpy().copy()
                except Exception:
                    pq = pd = None
            try:
                calls.append((bool(q), bool(log), out.detach().to("cpu").double().numpy().copy(), dist, pq, pd))
            except Exception:
                calls.append((bool(q), bool(log), None, None, None, None))
            ev = _STATE.get("events")
            if ev is not None:
                ev.append((self.tag, calls[-1]))
            return out

        object.__setattr__(self.net, "forward", tapped)
        return self

    def __exit__(self, *exc):
        self.net.__dict__.pop("forward", None)
        return False


# ------------------------------------------------------------------ reference model
def reference_projection(src, r, d, g, z, vmin, vmax):
    """C51 projection of the distribution `src` over atoms z moved to Tz=clip(r+g(1-d)z) back onto z (float64)."""
    n = len(z)
    dz = (float(vmax) - float(vmin)) / (n - 1)
    tz = np.clip(r + g * (1.0 - d) * z, float(vmin), float(vmax))
    out = np.zeros(n)
    for j in range(n):
        b = (tz[j] - float(vmin)) / dz
        b = min(max(b, 0.0), float(n - 1))
        lo = int(np.floor(b))
        hi = int(np.ceil(b))
        if lo == hi:
            out[lo] += src[j]
        else:
            out[lo] += src[j] * (hi - b)
            out[hi] += src[j] * (b - lo)
    return out, tz


# ------------------------------------------------------------------ cases
def _case(rng, **kw):
    vmin, vmax = SUPPORTS[int(rng.integers(len(SUPPORTS)))]
    c = {
        "atoms": int([2, 3, 5, 11, 51, int(rng.integers(2, 52))][int(rng.integers(6))]),
        "vmin": vmin,
        "vmax": vmax,
        "gamma": float([0.0, 0.9, 0.99, 1.0][int(rng.integers(4))]),
        "n_step": int(rng.integers(1, 4)),
        "mode": ["one", "nstep", "combined"][int(rng.integers(3))],
        "per": bool(rng.random() < 0.8),
        "B": int(rng.integers(1, 9)),
        "nA": int(rng.integers(1, 5)),
        "wscale": float([0.3, 1.0, 3.0][int(rng.integers(3))]),
        "peaked": bool(rng.random() < 0.4),
        "lr": float([1e-4, 1e-2][int(rng.integers(2))]),
        "seed": int(rng.integers(1 << 30)),
        "steps": 3,
        # discount / n-step exponent that reach the agent AFTER construction (what an RL-hyperparameter mutation, a config
        # reload or the user does): "construct" = constructor arguments, "assign" = constructed with other values, then
        # assigned, "mutate" = gamma through Mutations.rl_hyperparam_mutation with a one-point range
        "hp_route": ["construct", "construct", "assign", "mutate"][int(rng.integers(4))],
    }
    c.update(kw)
    return c


def cases(tier, seed):
    rng = np.random.default_rng(1800 + seed)
    out = []
    # hostile corners first: every support x extreme atom counts x every gamma, all three target modes
    for vmin, vmax in SUPPORTS:
        for atoms in (2, 3, 51):
            for gamma in (0.0, 0.9, 1.0):
                mode = ["one", "nstep", "combined"][len(out) % 3]
                out.append(_case(rng, vmin=vmin, vmax=vmax, atoms=atoms, gamma=gamma, mode=mode, per=True))
    for mode in ("one", "nstep", "combined"):
        for n_step in (1, 2, 3):
            out.append(_case(rng, mode=mode, n_step=n_step, per=True, B=1))
            out.append(_case(rng, mode=mode, n_step=n_step, per=False, B=8))
    out.append({"degenerate": True, "seed": int(rng.integers(1 << 30))})
    n = 600 if tier == "quick" else 15000
    for _ in range(n):
        out.append(_case(rng))
    return out


# ------------------------------------------------------------------ workload
OBS_DIM = 4


def _rewards(rng, B, z32, vmin, vmax, dz):
    rng_span = float(vmax) - float(vmin)
    r = np.zeros(B, dtype=np.float32)
    kinds = []
    for i in range(B):
        k = ["inside", "above", "below", "on_atom", "vmin", "vmax", "dz_multiple", "zero", "just_inside"][int(rng.integers(9))]
        if k == "inside":
            v = rng.uniform(vmin, vmax)
        elif k == "above":
            v = vmax + rng.uniform(0, rng_span)
        elif k == "below":
            v = vmin - rng.uniform(0, rng_span)
        elif k == "on_atom":
            v = float(z32[int(rng.integers(len(z32)))])
        elif k == "vmin":
            v = vmin
        elif k == "vmax":
            v = vmax
        elif k == "dz_multiple":
            v = int(rng.integers(-2, len(z32) + 2)) * dz
        elif k == "zero":
            v = 0.0
        else:
            v = vmax - rng_span * 1e-6
        r[i] = v
        kinds.append(k)
    return r, kinds


def _batch(rng, gen, agent, B, nA, with_per):
    import torch
    from tensordict import TensorDict

    z32 = agent.support.detach().cpu().numpy()
    r, kinds = _rewards(rng, B, z32, agent.v_min, agent.v_max, agent.delta_z)
    d = (rng.random(B) < 0.4).astype(np.float32)
    if B >= 2:
        d[0], d[1] = 0.0, 1.0
    data = {
        "obs": torch.randn(B, OBS_DIM, generator=gen),
        "action": torch.as_tensor(rng.integers(0, nA, size=(B, 1)), dtype=torch.float32),
        "reward": torch.as_tensor(r).reshape(B, 1),
        "next_obs": torch.randn(B, OBS_DIM, generator=gen),
        "done": torch.as_tensor(d).reshape(B, 1),
        "idxs": torch.arange(B),
    }
    if with_per:
        data["weights"] = torch.as_tensor(rng.uniform(0.1, 1.0, size=(B, 1)), dtype=torch.float32)
    return TensorDict(data, batch_size=[B]), kinds


def _randomise(net, wscale, peaked, gen):
    import math

    import torch

    with torch.no_grad():
        for name, p in net.named_parameters():
            if "norm" in name:
                continue
            if name.endswith("weight_mu") or (name.endswith("weight") and p.dim() == 2):
                p.copy_(torch.randn(p.shape, generator=gen) * wscale / math.sqrt(p.shape[-1]))
                if peaked and "linear_layer_output" in name and ("value" in name or "advantage" in name):
                    p.mul_(12.0)
            elif name.endswith("bias_mu") or name.endswith("bias"):
                p.copy_(torch.randn(p.shape, generator=gen) * 0.3)


def _ref_logp(agent, td):
    """log of the online network's return distributions at the batch's observations, evaluated by the driver BEFORE learn()
    (weights and noise are only changed after the loss has been computed): what "the online distribution of the action
    taken" is, however the code under observation obtains its own copy."""
    import torch

    try:
        with torch.no_grad():
            o = agent.preprocess_observation(td["obs"])
            return type(agent.actor).forward(agent.actor, o, q=False, log=True).detach().to("cpu").double().numpy().copy()
    except Exception:
        return None


def _check_call(rec, case, agent, snap, batch, g, online_calls, target_calls, site, ref_logp=None):
    """All per-row checks for one _dqn_loss call. Returns the float64 per-row loss read at return (or None)."""
    B, atoms = case["B"], case["atoms"]
    vmin, vmax = float(agent.v_min), float(agent.v_max)
    span = vmax - vmin
    if snap["missing"] or snap.get("ret") is None:
        rec.hit("tap_locals_missing")
        rec.extra["tap_locals_missing"] = snap["missing"] or ["<return value>"]
        return None
    src_all, proj_all, logp_all, ret = snap["target_q_dist"], snap["proj_dist"], snap["log_p"], snap["ret"]
    if src_all.shape != (B, atoms) or proj_all.shape != (B, atoms) or logp_all.shape != (B, atoms) or ret.shape != (B,):
        rec.violate(
            "projection",
            "tensor_shapes_not_batch_by_atoms",
            site,
            shapes=[list(src_all.shape), list(proj_all.shape), list(logp_all.shape), list(ret.shape)],
        )
        return None
    z = agent.support.detach().cpu().double().numpy()
    r = batch["reward"].double().numpy().reshape(B)
    d = batch["done"].double().numpy().reshape(B)
    a = batch["action"].long().numpy().reshape(B)
    dz = span / (atoms - 1)
    tol_ref = 1e-5 + 4 * EPS32 * (max(abs(vmin), abs(vmax)) / dz + atoms)

    # --- the source is the target network's distribution for the greedy next action; log_p the online one's
    tcs = [c for c in target_calls if (not c[0]) and (not c[1]) and c[2] is not None]
    tq = [c[2] for c in tcs]
    oq = [c[2] for c in online_calls if c[0] and (not c[1]) and c[2] is not None]
    od = [c[3] for c in online_calls if c[0] and (not c[1]) and c[2] is not None]
    ol = [c[2] for c in online_calls if (not c[0]) and c[1] and c[2] is not None]
    if len(tq) == 1 and not oq and tcs[0][4] is not None and tcs[0][4].shape == tq[0].shape[:2]:
        # the library did not ask the online network for Q-values of the next observations at all: the greedy next
        # action is still defined by them (taken from the peer evaluation inside the target tap)
        rec.hit("online_q_taken_from_peer_evaluation")
        oq, od = [tcs[0][4]], [tcs[0][5]]
    if ref_logp is not None and ref_logp.shape[0] == B:
        for i in range(B):
            rec.hit("log_p_reference_rows")
            want = ref_logp[i, a[i]]
            if want.shape != logp_all[i].shape or not np.allclose(logp_all[i], want, rtol=1e-6, atol=1e-7):
                rec.violate("source", "log_p_is_not_the_log_of_the_online_distribution_of_the_action_taken", site, row=i, action=int(a[i]),
                            max_abs_diff=float(np.abs(logp_all[i] - want).max()) if want.shape == logp_all[i].shape else None,
                            min_online_probability=float(np.exp(want).min()))
                break
    if len(tq) == 1 and len(oq) == 1 and not ol and ref_logp is not None:
        rec.hit("online_log_distribution_taken_from_reference")
        ol = [ref_logp]
    if len(tq) == 1 and len(oq) == 1 and len(ol) == 1:
        tq, oq, ol = tq[0], oq[0], ol[0]
        if tcs[0][4] is not None and tcs[0][4].shape == oq.shape and not np.allclose(tcs[0][4], oq, rtol=0, atol=1e-6 * max(1.0, abs(vmin), abs(vmax))):
            rec.violate("source", "q_values_used_for_the_greedy_action_are_not_the_online_networks_for_the_next_observation", site,
                        used=oq[0], online=tcs[0][4][0])
        if od and od[0] is not None and od[0].shape[:2] == oq.shape:
            # "greedy next action": greedy with respect to the expectation of the return distributions the online
            # network itself reports for the next observation
            exp_q = (od[0] * z[None, None, :]).sum(axis=-1)
            rec.hit("q_is_expectation_rows", B)
            badq = np.abs(exp_q - oq) > 1e-4 * max(1.0, abs(vmin), abs(vmax))
            if badq.any():
                i, k = (int(v) for v in np.argwhere(badq)[0])
                rec.violate("source", "q_values_are_not_the_expectation_of_the_reported_distribution", site, row=i, action=k,
                            q=float(oq[i, k]), expectation=float(exp_q[i, k]),
                            greedy_differs=bool((exp_q.argmax(1) != oq.argmax(1)).any()))
        for i in range(B):
            rec.hit("source_rows_checked")
            best = np.nonzero(oq[i] == oq[i].max())[0]
            if not any(np.array_equal(src_all[i], tq[i, k]) for k in best):
                rec.violate(
                    "source",
                    "source_is_not_target_distribution_of_greedy_next_action",
                    site,
                    row=i,
                    greedy=best,
                    online_q=oq[i],
                )
            if not np.allclose(logp_all[i], ol[i, a[i]], rtol=1e-6, atol=1e-7):
                rec.violate("source", "log_p_is_not_online_log_distribution_of_action_taken", site, row=i, action=int(a[i]))
            if abs(np.exp(ol[i, a[i]]).sum() - 1.0) > 1e-4:
                rec.violate("source", "online_log_output_is_not_a_log_distribution", site, row=i, total=float(np.exp(ol[i, a[i]]).sum()))
    else:
        rec.hit("net_tap_unexpected_call_pattern")

    varied = False
    for i in range(B):
        src, proj, logp = src_all[i], proj_all[i], logp_all[i]
        ref, tz = reference_projection(src, r[i], d[i], g, z, vmin, vmax)
        if np.ptp(tz) > 0:
            varied = True
        detail = dict(
            row=i, reward=float(r[i]), done=float(d[i]), gamma_k=g, atoms=atoms, v_min=vmin, v_max=vmax
        )
        rec.hit("rows_mass_checked")
        if abs(proj.sum() - src.sum()) > 1e-5:
            rec.violate("mass", "projected_mass_differs_from_source_mass", site, got=float(proj.sum()), want=float(src.sum()), **detail)
        rec.hit("rows_mean_checked")
        m_got, m_want = float((proj * z).sum()), float((src * tz).sum())
        if abs(m_got - m_want) > 1e-4 * span:
            rec.violate("mean", "projected_mean_differs_from_mean_of_clipped_bellman_atoms", site, got=m_got, want=m_want, **detail)
        rec.hit("rows_reference_checked")
        err = float(np.abs(proj - ref).max())
        if err > tol_ref:
            j = int(np.abs(proj - ref).argmax())
            rec.violate(
                "reference", "projection_differs_from_c51_reference", site, atom=j, got=float(proj[j]), want=float(ref[j]), err=err, tol=tol_ref, **detail
            )
        if proj.min() < -1e-12:
            rec.violate("nonneg", "negative_probability_in_projection", site, value=float(proj.min()), **detail)
        if "t_z" in snap and snap["t_z"].shape == (B, atoms):
            rec.hit("rows_tz_checked")
            if np.abs(snap["t_z"][i] - tz).max() > 1e-5 * max(1.0, abs(vmin), abs(vmax)):
                rec.violate("bellman_atoms", "t_z_differs_from_clipped_r_plus_gamma_k_z", site, got=snap["t_z"][i][:6], want=tz[:6], **detail)
        rec.hit("rows_loss_checked")
        ce = float(-(proj * logp).sum())
        if abs(ret[i] - ce) > 1e-5 * max(1.0, abs(ce)):
            rec.violate("loss", "elementwise_loss_is_not_cross_entropy_of_projection_and_online", site, got=float(ret[i]), want=ce, **detail)
        ce_ref = float(-(ref * logp).sum())
        if abs(ret[i] - ce_ref) > 1e-5 * max(1.0, abs(ce_ref)) + tol_ref * float(np.abs(logp).sum()):
            rec.violate("loss", "elementwise_loss_is_not_cross_entropy_of_reference_projection", site, got=float(ret[i]), want=ce_ref, **detail)
    # cross-row accounting: all mass of the batch stays in the batch, row by row (leak moves mass between rows)
    if varied:
        rec.hit("calls_with_varied_tz")
    return ret


def _learn_once(rec, case, agent, rng, gen, step):
    import torch

    B, nA, mode, per = case["B"], case["nA"], case["mode"], case["per"]
    exp, _ = _batch(rng, gen, agent, B, nA, per)
    nexp = None
    if mode in ("nstep", "combined"):
        nexp, _ = _batch(rng, gen, agent, B, nA, False)
    exp_copy = exp.clone()
    nexp_copy = nexp.clone() if nexp is not None else None
    prior_eps = float(agent.prior_eps)
    g1 = float(agent.gamma)
    gn = float(agent.gamma) ** int(agent.n_step)
    ref_logps = {"1-step": _ref_logp(agent, exp), "n-step": _ref_logp(agent, nexp) if nexp is not None else None}
    _STATE["calls"] = []
    _STATE["events"] = []
    with _NetTap(agent.actor, tag="on") as on, _NetTap(agent.actor_target, peer=agent.actor, tag="tg") as tg:
        try:
            out = agent.learn(exp, n_experiences=nexp, per=per)
        finally:
            calls, _STATE["calls"] = _STATE["calls"], None
            events, _STATE["events"] = _STATE["events"], None
    # network calls grouped by the _dqn_loss invocation they were made in (whatever their number and order)
    groups, cur = [], {"on": [], "tg": []}
    for tag, payload in events:
        if tag == "ret":
            groups.append(cur)
            cur = {"on": [], "tg": []}
        else:
            cur[tag].append(payload)
    rec.hit("learn_calls")
    rec.hit("tap_returns", len(calls))
    # which calls the statement expects: 1-step only | n-step only | both (1-step first)
    if mode == "one":
        plan = [("1-step", exp_copy, g1)]
    elif mode == "nstep":
        plan = [("n-step", nexp_copy, gn)]
    else:
        plan = [("1-step", exp_copy, g1), ("n-step", nexp_copy, gn)]
    if len(calls) != len(plan):
        rec.hit("tap_call_count_unexpected")
        rec.extra["tap_call_count"] = [len(calls), len(plan)]
        return
    # split the network taps per _dqn_loss call: online is called twice (q, then log-dist), target once
    losses = []
    for k, (name, b, g) in enumerate(plan):
        grp = groups[k] if k < len(groups) else {"on": [], "tg": []}
        ret = _check_call(rec, case, agent, calls[k], b, g, grp["on"], grp["tg"], f"_dqn_loss[{name}]", ref_logp=ref_logps.get(name))
        losses.append(ret)
    if any(x is None for x in losses):
        return
    label = "combined" if len(plan) == 2 else plan[0][0]
    total = np.sum(losses, axis=0)
    loss, idxs, prios = out
    if per:
        if prios is None or np.asarray(prios).shape != (B,):
            rec.violate("priority", "priorities_not_one_per_sample", f"learn[{label}]", shape=None if prios is None else list(np.shape(prios)))
            return
        got = np.asarray(prios, dtype=np.float64) - prior_eps
        rec.hit(f"priority_rows_checked[{label}]", B)
        bad = np.abs(got - total) > 1e-5 * np.maximum(1.0, np.abs(total))
        if bad.any():
            i = int(np.nonzero(bad)[0][0])
            rec.violate(
                "priority",
                "new_priority_minus_eps_is_not_the_cross_entropy",
                f"learn[{label}]",
                row=i,
                got=float(got[i]),
                want=float(total[i]),
                parts=[float(x[i]) for x in losses],
            )
        if not np.isfinite(got).all() or (np.asarray(prios) <= 0).any():
            rec.violate("priority", "priority_not_positive_finite", f"learn[{label}]", prios=np.asarray(prios))
    else:
        rec.hit("learn_without_per")
        if prios is not None:
            rec.hit("priorities_returned_without_per(info)")
    return True


def _leak_pair(rec, case, agent, rng, gen):
    """Metamorphic: changing reward/done of one row must leave every other row's projection and loss untouched."""
    import torch

    B, nA = case["B"], case["nA"]
    if B < 2:
        return
    exp, _ = _batch(rng, gen, agent, B, nA, False)
    i = int(rng.integers(B))
    exp2 = exp.clone()
    span = float(agent.v_max) - float(agent.v_min)
    exp2["reward"][i, 0] = exp["reward"][i, 0] + float(rng.uniform(0.15, 0.6)) * span * (1 if rng.random() < 0.5 else -1)
    exp2["done"][i, 0] = 1.0 - exp["done"][i, 0]
    g = float(agent.gamma)
    snaps = []
    for e in (exp, exp2):
        _STATE["calls"] = []
        try:
            agent._dqn_loss(e["obs"], e["action"], e["reward"], e["next_obs"], e["done"], g)
        finally:
            calls, _STATE["calls"] = _STATE["calls"], None
        if len(calls) != 1 or calls[0]["missing"] or calls[0].get("ret") is None:
            rec.hit("tap_locals_missing")
            return
        snaps.append(calls[0])
    rec.hit("tap_returns", 2)
    rec.hit("leak_pairs_checked")
    others = [k for k in range(B) if k != i]
    pa, pb = snaps[0]["proj_dist"], snaps[1]["proj_dist"]
    overflow_leak = False
    if not np.array_equal(pa[others], pb[others]):
        k = next(k for k in others if not np.array_equal(pa[k], pb[k]))
        kind = "projection_of_a_row_depends_on_another_rows_transition"
        if k == i + 1 and _top_index_overflows(agent) and np.array_equal(pa[k][1:], pb[k][1:]):
            kind = "mass_beyond_last_atom_index_written_to_first_atom_of_next_row"
            overflow_leak = True
        rec.violate(
            "leak", kind, "_dqn_loss[pair]", changed_row=i, affected_row=k, B=B, diff=float(np.abs(pa[k] - pb[k]).max()),
            atoms=case["atoms"], v_min=case["vmin"], v_max=case["vmax"],
        )
    if not np.array_equal(snaps[0]["ret"][others], snaps[1]["ret"][others]):
        ra, rb = snaps[0]["ret"], snaps[1]["ret"]
        moved = [k for k in others if ra[k] != rb[k]]
        kind = "loss_of_a_row_depends_on_another_rows_transition"
        if moved == [i + 1] and overflow_leak:
            kind = "loss_changed_by_mass_beyond_last_atom_index_of_previous_row"
        rec.violate("leak", kind, "_dqn_loss[pair]", changed_row=i, affected_rows=moved, B=B, atoms=case["atoms"], v_min=case["vmin"], v_max=case["vmax"])
    if abs(pa.sum() - snaps[0]["target_q_dist"].sum()) > 1e-5 * B:
        rec.violate("leak", "batch_mass_not_conserved", "_dqn_loss[pair]", got=float(pa.sum()), want=float(snaps[0]["target_q_dist"].sum()))
    if not np.array_equal(pa[i], pb[i]):
        rec.hit("leak_pairs_with_changed_row_effect")


def _top_index_overflows(agent):
    """Labelling only (never a verdict): in float32, does (v_max - v_min)/delta_z land above the last atom index?"""
    import torch

    try:
        t = torch.tensor([float(agent.v_max)], dtype=torch.float32).clamp(min=agent.v_min, max=agent.v_max)
        b = (t - agent.v_min) / agent.delta_z
        return bool(b.ceil().long().item() > agent.num_atoms - 1)
    except Exception:
        return False


def _run_degenerate(rec, case):
    import torch
    from gymnasium import spaces
    from agilerl.algorithms.dqn_rainbow import RainbowDQN

    try:
        RainbowDQN(
            spaces.Box(-1, 1, (OBS_DIM,), dtype=np.float32),
            spaces.Discrete(2),
            batch_size=2,
            num_atoms=3,
            v_min=1.0,
            v_max=1.0,
            net_config={"encoder_config": {"hidden_size": [16]}, "head_config": {"hidden_size": [16]}},
        )
        rec.hit("degenerate_support_accepted_by_constructor(info)")
    except Exception as e:
        rec.hit("degenerate_support_rejected_by_constructor(info)")
        rec.extra["degenerate_support"] = f"{type(e).__name__}: {e}"[:200]


def run_case(case):
    import torch

    rec = Recorder()
    _install()
    torch.set_grad_enabled(True)  # see c16: an interrupted no_grad block must not poison later cases
    torch.manual_seed(case["seed"])
    np.random.seed(case["seed"] % (1 << 31))
    _STATE["tap_error"] = None
    if case.get("degenerate"):
        _run_degenerate(rec, case)
        return rec.result()
    from gymnasium import spaces
    from agilerl.algorithms.dqn_rainbow import RainbowDQN

    gen = torch.Generator().manual_seed(case["seed"])
    rng = np.random.default_rng(case["seed"])
    where = "construct"
    try:
        route = case.get("hp_route", "construct")
        g0, n0 = case["gamma"], case["n_step"]
        hp_config = None
        if route != "construct":
            g0 = [0.5, 0.95][case["seed"] % 2] if case["gamma"] not in (0.5, 0.95) else 0.7
            if route == "assign":
                n0 = 1 + (case["n_step"] % 3)
            else:
                from agilerl.algorithms.core.registry import HyperparameterConfig, RLParameter

                # min == max: whichever branch the mutation draws, the new value is exactly case["gamma"]
                hp_config = HyperparameterConfig(gamma=RLParameter(min=case["gamma"], max=case["gamma"], shrink_factor=0.5, grow_factor=2.0))
        agent = RainbowDQN(
            spaces.Box(-1, 1, (OBS_DIM,), dtype=np.float32),
            spaces.Discrete(case["nA"]),
            batch_size=case["B"],
            num_atoms=case["atoms"],
            v_min=case["vmin"],
            v_max=case["vmax"],
            gamma=g0,
            n_step=n0,
            combined_reward=(case["mode"] == "combined"),
            lr=case["lr"],
            net_config={"encoder_config": {"hidden_size": [16]}, "head_config": {"hidden_size": [16]}},
            **({"hp_config": hp_config} if hp_config is not None else {}),
        )
        if route == "assign":
            agent.gamma = case["gamma"]
            agent.n_step = case["n_step"]
            rec.hit("agents_with_discount_assigned_after_construction")
        elif route == "mutate":
            from vf import agentops

            agent = agentops.make_mutations("rl_hp", seed=case["seed"] % 9973).mutation([agent])[0]
            rec.hit("agents_with_discount_mutated_after_construction")
            if float(agent.gamma) != float(case["gamma"]):
                rec.hit("discount_mutation_did_not_give_the_configured_value(info)")
        _randomise(agent.actor, case["wscale"], False, gen)
        _randomise(agent.actor_target, case["wscale"], case["peaked"], gen)
        agent.actor.reset_noise()
        agent.actor_target.reset_noise()
        ok = True
        where = "learn"
        for step in range(case["steps"]):
            ok = bool(_learn_once(rec, case, agent, rng, gen, step)) and ok
        where = "_dqn_loss[pair]"
        _leak_pair(rec, case, agent, rng, gen)
    except Exception as e:
        from vf.core import CaseTimeout

        if isinstance(e, CaseTimeout):
            raise
        mon = "crash"
        try:
            if isinstance(e, IndexError) and _top_index_overflows(agent):
                mon = "crash_top_atom_index_overflow"
        except Exception:
            pass
        rec.crash(e, mon, where, atoms=case["atoms"], v_min=case["vmin"], v_max=case["vmax"])
        ok = False
    finally:
        _STATE["calls"] = None
    if _STATE["tap_error"]:
        rec.hit("tap_errors")
        rec.extra["tap_error"] = _STATE["tap_error"]
    rec.nontrivial = bool(
        ok
        and rec.counters.get("rows_reference_checked", 0) > 0
        and rec.counters.get("tap_locals_missing", 0) == 0
        and (not case["per"] or any(k.startswith("priority_rows_checked") for k in rec.counters))
    )
    return rec.result()


def finalize(ctx):
    c = ctx["counters"]
    for name, what in (
        ("tap_locals_missing", "frame tap could not read a local it needs (observability lost)"),
        ("tap_call_count_unexpected", "learn() made an unexpected number of _dqn_loss calls"),
        ("tap_errors", "frame tap raised internally"),
        ("net_tap_unexpected_call_pattern", "networks were not called as (online q, target dist, online log-dist) per loss"),
    ):
        if c.get(name, 0):
            ctx["inconclusive"].append(f"{int(c[name])} x {what}")
    return {"taps_lost": int(c.get("tap_locals_missing", 0))}
