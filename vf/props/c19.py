"""C19 - neural bandits keep an exact inverse of their regularised Gram matrix.

Shadow model (of the *statement*, not of the code): for every live NeuralUCB / NeuralTS agent the monitor keeps, in
float64, A = sum of outer products of the gradient features of the arms chosen since the agent's matrix was last
(re)initialised.  The features are recomputed by the monitor itself: a deep copy of the actor is taken *before* each
get_action call (the copy of an earlier call is re-used only while an exact fingerprint - module objects, modes, bytes
of every parameter and buffer - says the actor is still bit for bit what was copied), the context matrix is pushed
through the copy and torch.autograd.grad gives, per arm, the gradient of that arm's prediction w.r.t. the copy's
output layer (never the agent's `.grad` accumulators, optimizer.zero_grad or `exp_layer` pointer).  After every decision and after every other operation (learn, each mutation kind through
Mutations.mutation, clone, save_checkpoint + both load paths) the real `sigma_inv` is compared with the statement:

  gram_inverse        ||sigma_inv @ (lambda*I + A) - I||_max <= max(1e-5, 32 * eps_float32 * cond_2(lambda*I + A))
  symmetry            max|S - S^T| <= 1e-4 * max|S|
  positive_definite   smallest eigenvalue of (S + S^T)/2 > 0
  bonus               g_k^T S g_k >= -1e-6 * max(1, |g_k|^2 * max|S|) for every arm of the current context (S before and
                      after the rank-one update)
  sigma_shape         sigma_inv.shape == (numel, numel) and agent.numel == numel of the CURRENT actor's output layer
  exp_layer_identity  agent.exp_layer is agent.actor.get_output_dense()

Boundary wrappers on NeuralUCB/NeuralTS.get_action (pre: snapshot, post: accumulate + check), .init_params
((re)initialisation event: A := 0) and Mutations._reinit_bandit_grads (a resize is a re-initialisation).
"""

from __future__ import annotations

import copy
import functools
import math
import os
import tempfile

import numpy as np

from vf.core import CaseTimeout, Recorder

PROPERTY = "C19"
LEVEL = "exploration"
RULE = (
    "case = (NeuralUCB|NeuralTS, observation family vector(dim 2..8)|image|dict, arms 2..5, lambda in {0.5,1,2} and (every fourth random case) {0.01,0.02,0.05,0.1,0.2,10}, gamma in "
    "{0.5,1,2}, head width, seed, op sequence over {act:N:p_mask, learn, mut:none|arch|param|act|rl_hp via "
    "Mutations.mutation, clone (then the parent keeps deciding, the clone is checked and continued), ckpt:load, "
    "ckpt:load_checkpoint}); contexts are seeded (incl. duplicated rows, a zero row, rows on the Box boundary), masks "
    "incl. all-but-one masked. Non-trivial = the inverse comparison was evaluated after >= 5 decisions of the case "
    "with a non-zero accumulated Gram term; distinct = distinct case descriptions"
    " Added: every fourth random sequence uses lambda in {0.01, 0.02, 0.05, 0.1, 0.2, 10}; directed sequences with 130+ decisions after clone / load / load_checkpoint"
)
ASSUMPTIONS = [
    "CPU, float32 agents; the reference is float64",
    "gradient feature of an arm = gradient of that arm's scalar prediction w.r.t. the trainable parameters of the "
    "actor's current output layer, flattened in .parameters() order (weight, bias) and divided by "
    "sqrt(output_layer.weight.size(0)) - the scaling the code documents as 1/sqrt(width); the statement does not fix "
    "the scaling, so the code's definition of 'width' (rows of the output layer's weight = 1 for the value head) is "
    "adopted; the features are recomputed independently (autograd on a deep copy taken before the call), not tapped",
    "the context is converted with the agent's own preprocess_observation (its correctness is C15's business)",
    "the chosen arm is the value get_action returns (its legality under the mask is C14's business; counted as info)",
    "inverse tolerance: max(1e-5, 32*eps32*cond_2(G)); measured on the unchanged code residual/(eps32*cond) stays "
    "< 1 over 400 decisions, a wrong update (sign, denominator, transposition) gives residuals >= 0.1",
    "a (re)initialisation is an init_params call or a _reinit_bandit_grads call that changes the matrix size; after "
    "it the reference restarts from the statement's initial matrix inverse(lambda*I) = I/lambda",
    "the statement does not say whether a clone / a reloaded agent inherits the history of the original or starts "
    "afresh: both references are accepted (the one that fits is adopted and counted)",
    "a deviation that is exactly explained by the matrix having been started at lambda*I instead of I/lambda is "
    "reported under its own kind (initial_matrix_is_lambda_I_not_its_inverse, site init_params) and the sequence is "
    "then still checked against the code's own convention, so drift / update errors stay visible for lambda != 1",
    "after a stale exp_layer has been recorded the harness re-points it to the current output layer so that the "
    "rest of the sequence stays checkable (counted as stale_exp_layer_repaired_by_harness)",
    "exceptions raised by learn / Mutations.mutation / clone / save / load are other properties' business (counted "
    "as op_failed(info), the case stops); an exception raised by get_action is a C19 witness",
    "if the monitor itself fails to observe a decision the reference is marked lost (no inverse verdicts until the "
    "next initialisation) and the run is INCONCLUSIVE (finalize), never held",
    "every case starts with autograd enabled (a watchdog interrupt inside a torch.no_grad() exit of an earlier case "
    "of the shard could leave it off); a case that itself ends with autograd disabled is a witness",
]
REQUIRED_COUNTERS = [
    "decisions",
    "inverse_checks",
    "symmetry_checks",
    "posdef_checks",
    "bonus_checks",
    "shape_checks",
    "exp_layer_identity_checks",
    "init_events",
    "learn_ops",
    "mutation_ops",
    "clone_ops",
    "checkpoint_roundtrips",
    "masked_decisions",
]
CASE_TIMEOUT_S = 3600  # the longest case costs ~2 cpu-s, but the machine is shared: with load averages of 200-500 a
# single case was seen to take 839 s of wall time; a timeout is inconclusive, so the watchdog only has to catch real hangs

EPS32 = float(np.finfo(np.float32).eps)
ALGOS = ["NeuralUCB", "NeuralTS"]
LAMBS = [0.5, 1.0, 2.0]
SMALL_LARGE_LAMBS = [0.01, 0.02, 0.05, 0.1, 10.0, 0.2]
GAMMAS = [0.5, 1.0, 2.0]
MUTS = ["none", "arch", "param", "act", "rl_hp"]

_CUR = {"rec": None, "where": "construct"}
_STATE = {}  # id(agent) -> _Shadow (strong reference to the agent inside: ids cannot be recycled during a case)
_INSTALLED = {"done": False}


def preload():
    import agilerl.algorithms  # noqa
    import agilerl.hpo.mutation  # noqa
    from vf.core import quiet_torch

    quiet_torch()
    _install()


# ------------------------------------------------------------------ cases
def _ops_random(rng, n_dec_target, drift):
    """Op list with about n_dec_target decisions.  drift=True: no re-initialising op inside (learn, clone and
    checkpoints keep the history), so the float32 recursion runs n_dec_target steps."""
    ops = []
    left = n_dec_target
    while left > 0:
        n = int(min(left, rng.integers(1, max(2, n_dec_target // 3) + 1)))
        pm = float(rng.choice([0.0, 0.0, 0.3, 0.6]))
        ops.append(f"act:{n}:{pm}")
        left -= n
        r = rng.random()
        if r < 0.35:
            ops.append("learn")
        elif r < 0.50:
            ops.append("clone")
        elif r < 0.58:
            ops.append("ckpt:load")
        elif r < 0.66:
            ops.append("ckpt:load_checkpoint")
        elif not drift and r < 0.70:
            ops.append("mutdirect:arch")
        elif r < 0.74:
            # agent.test() / the training loops leave the agent in inference mode: decisions taken then are decisions too
            ops.append("mode:0" if rng.random() < 0.6 else "mode:1")
        elif not drift and r < 0.95:
            ops.append("mut:" + MUTS[int(rng.integers(len(MUTS)))])
    # every sequence ends with decisions so the last op is checked through the Sherman-Morrison path as well
    if not ops[-1].startswith("act"):
        ops.append("act:3:0.3")
    return ops


def cases(tier, seed):
    rng = np.random.default_rng(19000 + seed)
    out = []

    def mk(algo, obs, lamb, gamma, ops, d=None, arms=None, hidden=None, int_hp=False, out_act="auto"):
        if out_act == "auto":
            # a non-default output activation of the head: the arm features are gradients THROUGH it
            out_act = [None, None, "Tanh", "Sigmoid", None, "Softplus"][len(out) % 6]
        c = {
            "out_act": out_act,
            "algo": algo,
            "obs": obs,
            "d": int(d if d is not None else rng.integers(2, 9)),
            "arms": int(arms if arms is not None else rng.integers(2, 6)),
            "lamb": float(lamb),
            "gamma": float(gamma),
            "hidden": int(hidden if hidden is not None else rng.choice([16, 16, 32])),
            "seed": int(rng.integers(1 << 30)),
            "ops": ops,
        }
        if int_hp:
            c["int_hp"] = True  # lambda / gamma passed as python ints (the constructor allows both)
        out.append(c)

    # hostile corners first: every op kind directly after a short and after no history, every lambda, both algorithms
    for algo in ALGOS:
        for lamb in LAMBS:
            g = GAMMAS[(LAMBS.index(lamb) + ALGOS.index(algo)) % 3]
            mk(algo, "vector", lamb, g, ["act:5:0.0"])
            mk(algo, "vector", lamb, g, ["act:6:1.0", "learn", "act:6:0.5"], arms=5)
            for m in MUTS:
                mk(algo, "vector", lamb, g, ["act:4:0.0", "mut:" + m, "act:5:0.3"])
            mk(algo, "vector", lamb, g, ["mut:arch", "act:3:0.0", "mut:arch", "act:3:0.0", "mut:arch", "act:3:0.5"])
            mk(algo, "vector", lamb, g, ["act:5:0.3", "clone", "act:5:0.0", "clone", "act:3:0.0"])
            mk(algo, "vector", lamb, g, ["clone", "act:4:0.0"])
            if lamb == 1.0:
                # long lives AFTER a copy / restore (anything the agent keeps next to sigma_inv has to travel with it)
                mk(algo, "vector", lamb, g, ["act:6:0.0", "clone", "act:70:0.0", "act:70:0.3"])
                mk(algo, "vector", lamb, g, ["act:6:0.3", "ckpt:load", "act:70:0.0", "act:66:0.0"])
                mk(algo, "vector", lamb, g, ["act:6:0.0", "ckpt:load_checkpoint", "act:70:0.0", "learn", "act:66:0.3"])
            mk(algo, "vector", lamb, g, ["act:5:0.0", "ckpt:load", "act:5:0.3"])
            mk(algo, "vector", lamb, g, ["act:5:0.0", "ckpt:load_checkpoint", "act:5:0.3"])
            mk(algo, "vector", lamb, g, ["mut:arch", "act:3:0.0", "ckpt:load", "act:3:0.0", "mut:act", "ckpt:load_checkpoint", "act:3:0.0"])
            mk(algo, "vector", lamb, g, ["act:3:0.0", "learn", "learn", "mut:param", "learn", "act:8:0.3", "clone", "learn", "act:4:0.0"])
        for obs in ("image", "dict"):
            mk(algo, obs, 1.0, 1.0, ["act:5:0.3", "learn", "act:5:0.0", "mut:arch", "act:4:0.0", "clone", "act:3:0.0"])
            mk(algo, obs, 2.0, 0.5, ["act:4:0.0", "mut:act", "act:4:0.3", "ckpt:load", "act:3:0.0"])
        mk(algo, "vector", 2.0, 2.0, ["act:6:0.3", "learn", "act:6:0.0", "clone", "act:3:0.0"], int_hp=True)
        mk(algo, "vector", 1.0, 1.0, ["act:4:0.0", "mode:0", "act:6:0.3", "clone", "act:3:0.0", "mode:1", "act:3:0.0"])
        mk(algo, "vector", 1.0, 1.0, ["act:3:0.0"] + ["mutdirect:arch", "act:3:0.0"] * 6)
        mk(algo, "vector", 0.5, 2.0, ["mode:0", "act:5:0.0", "ckpt:load", "act:4:0.3", "learn", "act:3:0.0"])
        for act in ("Tanh", "Sigmoid"):
            mk(algo, "vector", 1.0, 1.0, ["act:8:0.3", "learn", "act:8:0.0"], out_act=act)
        # drift: one long uninterrupted recursion per algorithm
        mk(algo, "vector", 1.0, 1.0, ["act:100:0.2", "learn", "act:100:0.0"], d=8, arms=5)

    if tier == "quick":
        nrand, lo, hi, long_every = 200, 8, 32, 25
    else:
        nrand, lo, hi, long_every = 4900, 40, 160, 6
    for i in range(nrand):
        algo = ALGOS[int(rng.integers(2))]
        r = rng.random()
        obs = "vector" if r < 0.9 else ("image" if r < 0.95 else "dict")
        lamb = LAMBS[int(rng.integers(3))]
        if i % 4 == 1:
            lamb = SMALL_LARGE_LAMBS[(i // 4) % len(SMALL_LARGE_LAMBS)]  # "for every lambda": weak and strong regularisation
        gamma = GAMMAS[int(rng.integers(3))]
        drift = bool(rng.random() < 0.35)
        n_dec = int(rng.integers(lo, hi + 1))
        if i % long_every == 0:
            n_dec, drift = (100 if tier == "quick" else 200), True
        if obs != "vector":
            n_dec = min(n_dec, 40)
        mk(algo, obs, lamb, gamma, _ops_random(rng, n_dec, drift))
    return out


# ------------------------------------------------------------------ shadow state + wrappers
class _Shadow:
    __slots__ = ("agent", "A", "n", "inits", "adopted_alt", "snap", "lost")

    def __init__(self, agent):
        self.agent = agent
        self.A = None
        self.n = 0
        self.inits = 0
        self.adopted_alt = False
        self.snap = None
        self.lost = False  # the monitor missed a decision: no inverse verdicts until the next (re)initialisation


def _shadow(agent) -> _Shadow:
    sh = _STATE.get(id(agent))
    if sh is None or sh.agent is not agent:
        sh = _Shadow(agent)
        _STATE[id(agent)] = sh
    return sh


def _numel_of(layer) -> int:
    return int(sum(w.numel() for w in layer.parameters() if w.requires_grad))


def _on_init(agent, rec, why):
    """(Re)initialisation observed: the reference restarts (A := 0)."""
    try:
        sh = _shadow(agent)
        n = int(agent.sigma_inv.shape[0])
        sh.A = np.zeros((n, n), dtype=np.float64)
        sh.n = 0
        sh.lost = False
        sh.inits += 1
        rec.hit("init_events")
        rec.hit("init_events:" + why)
    except Exception as e:  # monitor problem, never raised into the code
        _monitor_problem(rec, "on_init", e)


def _monitor_problem(rec, where, e):
    if isinstance(e, CaseTimeout):
        raise e
    rec.hit("monitor_problem")
    rec.extra.setdefault("monitor_problems", []).append(f"{where}: {type(e).__name__}: {str(e)[:160]}")


def _install():
    if _INSTALLED["done"]:
        return
    from agilerl.algorithms import NeuralTS, NeuralUCB
    from agilerl.hpo.mutation import Mutations

    for cls in (NeuralUCB, NeuralTS):
        _wrap_init_params(cls)
        _wrap_get_action(cls)
    _wrap_reinit(Mutations)
    _INSTALLED["done"] = True


def _wrap_init_params(cls):
    orig = cls.init_params

    @functools.wraps(orig)
    def init_params(self, *a, **kw):
        out = orig(self, *a, **kw)
        rec = _CUR["rec"]
        if rec is not None:
            _on_init(self, rec, "init_params")
        return out

    init_params.__vf_orig__ = orig
    cls.init_params = init_params


def _wrap_reinit(cls):
    orig = cls._reinit_bandit_grads

    @functools.wraps(orig)
    def _reinit_bandit_grads(self, individual, *a, **kw):
        rec = _CUR["rec"]
        before = None
        if rec is not None:
            try:
                before = tuple(individual.sigma_inv.shape)
            except Exception:
                before = None
        out = orig(self, individual, *a, **kw)
        if rec is not None:
            rec.hit("reinit_bandit_grads_calls(info)")
            try:
                after = tuple(individual.sigma_inv.shape)
                if after != before:
                    rec.hit("reinit_bandit_grads_resized(info)")
                    _on_init(individual, rec, "reinit_bandit_grads_resize")
            except Exception as e:
                _monitor_problem(rec, "reinit_bandit_grads", e)
        return out

    _reinit_bandit_grads.__vf_orig__ = orig
    cls._reinit_bandit_grads = _reinit_bandit_grads


def _wrap_get_action(cls):
    orig = cls.get_action

    @functools.wraps(orig)
    def get_action(self, obs, *a, **kw):
        rec = _CUR["rec"]
        if rec is None:
            return orig(self, obs, *a, **kw)
        pre = None
        try:
            mask = kw.get("action_mask", a[0] if a else None)
            pre = {
                "actor": _snapshot_actor(self, rec),
                "obs": copy.deepcopy(obs),
                "mask": None if mask is None else np.array(mask, copy=True),
                "S_before": self.sigma_inv.detach().clone(),
            }
        except Exception as e:
            _monitor_problem(rec, "get_action.pre", e)
        action = orig(self, obs, *a, **kw)  # an exception of the code propagates unchanged to its caller
        done = False
        if pre is not None:
            try:
                done = _post_decision(self, pre, action, rec)
            except Exception as e:
                _monitor_problem(rec, "get_action.post", e)
        if not done:
            _shadow(self).lost = True  # the reference missed this decision: never judge the matrix against it
        return action

    get_action.__vf_orig__ = orig
    cls.get_action = get_action


def _actor_fingerprint(actor):
    """Exact fingerprint of everything the actor's function depends on: module objects and their modes, and the
    bytes of every parameter and buffer."""
    import hashlib

    import torch

    mods = tuple((id(m), type(m).__name__, m.training) for m in torch.nn.Module.modules(actor))
    h = hashlib.blake2b(digest_size=16)
    for k, v in actor.state_dict().items():
        h.update(k.encode())
        if isinstance(v, torch.Tensor):
            h.update(str(tuple(v.shape)).encode())
            h.update(v.detach().cpu().contiguous().numpy().tobytes())
        else:
            h.update(repr(v).encode())
    return (id(actor), mods, h.hexdigest())


def _snapshot_actor(agent, rec):
    """Deep copy of the actor taken before the call.  The copy made before an earlier call is re-used only if the
    actor is, bit for bit and module for module, still what was copied (get_action itself never changes weights)."""
    sh = _shadow(agent)
    fp = _actor_fingerprint(agent.actor)
    if sh.snap is not None and sh.snap[0] == fp:
        rec.hit("actor_snapshots_reused_bitwise_identical")
        return sh.snap[1]
    snap = copy.deepcopy(agent.actor)
    sh.snap = (fp, snap)
    rec.hit("actor_snapshots_taken")
    return snap


def _features(agent, actor_copy, obs):
    """Per-arm gradient features from the monitor's own copy of the actor (float64, shape arms x numel)."""
    import torch

    x = agent.preprocess_observation(copy.deepcopy(obs))
    mu = actor_copy(x)
    layer = actor_copy.get_output_dense()
    params = [w for w in layer.parameters() if w.requires_grad]
    width = int(layer.weight.size(0))
    rows = []
    for k in range(mu.shape[0]):
        gs = torch.autograd.grad(mu[k].sum(), params, retain_graph=True, allow_unused=True)
        row = torch.cat([(g if g is not None else torch.zeros_like(p)).reshape(-1) for g, p in zip(gs, params)])
        rows.append(row.detach().double().cpu().numpy() / math.sqrt(width))
    return np.stack(rows)


def _post_decision(agent, pre, action, rec):
    rec.hit("decisions")
    sh = _shadow(agent)
    g = _features(agent, pre["actor"], pre["obs"])
    rec.hit("feature_rows_recomputed", g.shape[0])
    a = int(np.asarray(action).reshape(-1)[0])
    if pre["mask"] is not None:
        rec.hit("masked_decisions")
        m = np.asarray(pre["mask"]).reshape(-1)
        if a < len(m) and m[a] == 0:
            rec.hit("masked_arm_chosen(info)")
    if not (0 <= a < g.shape[0]):
        rec.violate("chosen_arm", "returned_arm_out_of_range", "get_action", action=a, arms=int(g.shape[0]))
        return False
    if sh.A is None or sh.A.shape[0] != g.shape[1]:
        # the agent's matrix was never seen initialised at this size: checked (and reported) by _check_state
        pass
    else:
        sh.A += np.outer(g[a], g[a])
        sh.n += 1
        if float(g[a] @ g[a]) > 0:
            rec.hit("nonzero_feature_updates")
    _check_state(agent, rec, "get_action", g_all=g, S_before=pre["S_before"])
    return True


# ------------------------------------------------------------------ the oracle
def _tol(cond):
    return max(1e-5, 32.0 * EPS32 * float(cond))


def _resid(S, G):
    n = S.shape[0]
    return float(np.abs(S @ G - np.eye(n)).max())


def _fit(S, A, lam):
    """(ratio_statement, ratio_code_convention, details) of residual / tolerance for reference Gram term A."""
    n = S.shape[0]
    I = np.eye(n)
    G = lam * I + A
    c = _cond_spd(G)
    r = _resid(S, G)
    if lam == 1.0 or r <= _tol(c):
        # the second reference (matrix started at lambda*I) is only needed to classify a disagreement
        return r / _tol(c), r / _tol(c), {"resid": r, "tol": _tol(c), "cond": c, "resid_alt": r, "tol_alt": _tol(c), "cond_alt": c}
    Ga = I / lam + A
    ca = _cond_spd(Ga)
    ra = _resid(S, Ga)
    return r / _tol(c), ra / _tol(ca), {"resid": r, "tol": _tol(c), "cond": c, "resid_alt": ra, "tol_alt": _tol(ca), "cond_alt": ca}


def _cond_spd(G):
    """2-norm condition number of the (exactly symmetric, positive definite) reference matrix."""
    ev = np.linalg.eigvalsh(G)
    return float(ev[-1] / ev[0]) if ev[0] > 0 else float("inf")


def _check_state(agent, rec, site, g_all=None, S_before=None):
    """All statement checks on the agent at a quiescent point.  Returns {"stale": bool}."""
    import torch

    out = {"stale": False}
    sh = _shadow(agent)
    lam = float(agent.lamb)
    cur = agent.actor.get_output_dense()
    numel_cur = _numel_of(cur)

    # ---- exp_layer identity
    rec.hit("exp_layer_identity_checks")
    exp = getattr(agent, "exp_layer", None)
    if exp is not cur:
        out["stale"] = True
        in_actor = any(m is exp for m in torch.nn.Module.modules(agent.actor))
        rec.violate(
            "exp_layer_identity",
            "exp_layer_is_not_current_output_layer",
            site,
            algo=type(agent).__name__,
            exp_layer_is_a_module_of_current_actor=in_actor,
            exp_layer=repr(exp)[:80],
            current=repr(cur)[:80],
        )

    # ---- shape
    rec.hit("shape_checks")
    S_t = getattr(agent, "sigma_inv", None)
    shape = tuple(S_t.shape) if isinstance(S_t, torch.Tensor) else None
    ok = shape == (numel_cur, numel_cur)
    if not ok:
        rec.violate(
            "sigma_shape", "shape_differs_from_current_output_layer_numel", site, algo=type(agent).__name__, got=shape, want=numel_cur
        )
    if int(getattr(agent, "numel", -1)) != numel_cur:
        rec.violate(
            "sigma_shape", "numel_attribute_differs_from_current_output_layer", site, algo=type(agent).__name__,
            got=int(getattr(agent, "numel", -1)), want=numel_cur,
        )
    if not ok:
        return out

    S = S_t.detach().cpu().double().numpy()
    if not np.isfinite(S).all():
        rec.violate("gram_inverse", "non_finite_entries", site, algo=type(agent).__name__, lamb=lam, decisions_since_init=sh.n)
        return out
    scale = float(np.abs(S).max())

    # ---- symmetry
    rec.hit("symmetry_checks")
    asym = float(np.abs(S - S.T).max())
    if asym > 1e-4 * max(scale, 1e-30):
        rec.violate("symmetry", "asymmetric", site, algo=type(agent).__name__, asym=asym, scale=scale, lamb=lam, decisions_since_init=sh.n)

    # ---- positive definite
    rec.hit("posdef_checks")
    ev = np.linalg.eigvalsh((S + S.T) / 2.0)
    if not ev[0] > 0:
        rec.violate(
            "positive_definite", "smallest_eigenvalue_not_positive", site, algo=type(agent).__name__,
            min_eig=float(ev[0]), max_eig=float(ev[-1]), lamb=lam, decisions_since_init=sh.n,
        )

    # ---- inverse of the regularised Gram matrix
    if sh.lost:
        rec.hit("inverse_checks_skipped_reference_lost")
    elif sh.A is None or sh.A.shape != S.shape:
        rec.violate(
            "gram_inverse", "matrix_resized_without_observed_initialisation", site, algo=type(agent).__name__,
            matrix=list(S.shape), reference=None if sh.A is None else list(sh.A.shape),
        )
    else:
        rec.hit("inverse_checks")
        if sh.n >= 5 and np.any(sh.A):
            rec.hit("inverse_checks_after_5_decisions")
        q, qa, d = _fit(S, sh.A, lam)
        best = min(q, qa) if lam != 1.0 else q
        rec.extra["max_resid_over_tol"] = max(rec.extra.get("max_resid_over_tol", 0.0), round(best, 4))
        rec.extra["max_cond"] = max(rec.extra.get("max_cond", 0.0), round(d["cond"], 1))
        if q <= 1.0:
            pass
        elif lam != 1.0 and qa <= 1.0:
            # exactly what a matrix started at lambda*I (instead of inverse(lambda*I) = I/lambda) looks like
            rec.hit("explained_by_lambda_init")
            rec.violate(
                "gram_inverse",
                "initial_matrix_is_lambda_I_not_its_inverse",
                "init_params",
                algo=type(agent).__name__,
                lamb=lam,
                decisions_since_init=sh.n,
                detected_at=site,
                resid_vs_statement=d["resid"],
                tol=d["tol"],
                resid_vs_lambdaI_start=d["resid_alt"],
                tol_lambdaI_start=d["tol_alt"],
            )
        else:
            rec.violate(
                "gram_inverse",
                "not_inverse_of_gram",
                site,
                algo=type(agent).__name__,
                lamb=lam,
                decisions_since_init=sh.n,
                resid=d["resid"],
                tol=d["tol"],
                cond=d["cond"],
                resid_vs_lambdaI_start=d["resid_alt"],
                tol_lambdaI_start=d["tol_alt"],
            )

    # ---- exploration bonus of every arm of the current context
    if g_all is not None and g_all.shape[1] == S.shape[0]:
        mats = [("after_update", S)]
        if S_before is not None and tuple(S_before.shape) == S.shape:
            mats.append(("before_update", S_before.detach().cpu().double().numpy()))
        for name, M in mats:
            b = np.einsum("ki,ij,kj->k", g_all, M, g_all)
            rec.hit("bonus_checks", len(b))
            lim = -1e-6 * np.maximum(1.0, (g_all * g_all).sum(axis=1) * float(np.abs(M).max()))
            bad = np.nonzero(~(b >= lim))[0]
            if len(bad):
                rec.violate(
                    "bonus", "negative_exploration_bonus", site, algo=type(agent).__name__, which=name,
                    arm=int(bad[0]), bonus=float(b[bad[0]]), lamb=lam, decisions_since_init=sh.n,
                )
            elif (b < 0).any():
                rec.hit("bonus_negative_within_tolerance(info)")
    return out


def _adopt_reference(new_agent, candidates, rec, what):
    """Clone / reload: the statement allows the copy to inherit the original's history or to start afresh."""
    try:
        sh = _shadow(new_agent)
        S = new_agent.sigma_inv.detach().cpu().double().numpy()
        lam = float(new_agent.lamb)
        best = None
        for name, A, n in candidates:
            if A is None or A.shape != S.shape or not np.isfinite(S).all():
                continue
            q, qa, _ = _fit(S, A, lam)
            score = min(q, qa)
            if best is None or score < best[0]:
                best = (score, name, A, n)
        if best is not None:
            sh.A = best[2].copy()
            sh.n = int(best[3])
            rec.hit(f"{what}_reference:{best[1]}")
    except Exception as e:
        _monitor_problem(rec, "adopt_reference", e)


# ------------------------------------------------------------------ workload
def _spaces(case):
    from gymnasium import spaces

    from vf import zoo

    if case["obs"] == "vector":
        osp = spaces.Box(-1.0, 1.0, (case["d"],), np.float32)
    else:
        osp = zoo.obs_space(case["obs"])
    return osp, spaces.Discrete(case["arms"])


def _make_agent(case, seed):
    from vf import agentops, zoo

    osp, asp = _spaces(case)
    agentops.seed_all(seed)
    net_config = None
    if case["obs"] == "vector":
        h = case["hidden"]
        net_config = {
            "latent_dim": 16,
            "encoder_config": {"hidden_size": [16], "min_mlp_nodes": 8, "max_mlp_nodes": 64},
            "head_config": {"hidden_size": [h], "min_mlp_nodes": 8, "max_mlp_nodes": 64, "output_activation": case.get("out_act")},
        }
    return zoo.algo_cls(case["algo"])(
        osp,
        asp,
        hp_config=zoo.tiny_hp_config(case["algo"]),
        net_config=net_config,
        lamb=int(case["lamb"]) if case.get("int_hp") else case["lamb"],
        gamma=int(case["gamma"]) if case.get("int_hp") else case["gamma"],
        batch_size=8,
    )


def _context(agent, arms, rng):
    from gymnasium import spaces

    from vf import zoo

    sp = agent.observation_space
    ctx = zoo.sample_obs(sp, arms, rng)
    if isinstance(sp, spaces.Box) and len(sp.shape) == 1:
        r = rng.random()
        if r < 0.08 and arms >= 2:
            ctx[1] = ctx[0]  # two arms with identical features
        elif r < 0.14:
            ctx[int(rng.integers(arms))] = 0.0
        elif r < 0.20:
            ctx = np.sign(ctx).astype(np.float32)  # Box boundary
        elif r < 0.24:
            ctx[:] = ctx[0]  # all arms identical
    return ctx


def _mask(arms, rng, pm):
    if pm <= 0 or rng.random() >= pm:
        return None
    r = rng.random()
    if r < 0.25:
        m = np.zeros(arms, dtype=np.int64)
        m[int(rng.integers(arms))] = 1  # all but one masked
    else:
        m = (rng.random(arms) < 0.6).astype(np.int64)
        if m.sum() == 0:
            m[int(rng.integers(arms))] = 1
    if rng.random() < 0.3:
        m = m.astype(np.float32)
    return m


def _after_op(agent, rec, site):
    """Checks at the quiescent point after an operation; repairs a recorded stale exp_layer so the case goes on."""
    st = _check_state(agent, rec, site)
    if st["stale"]:
        agent.exp_layer = agent.actor.get_output_dense()
        rec.hit("stale_exp_layer_repaired_by_harness")


def _decide(agent, case, rng, n, pm, rec, site):
    for _ in range(n):
        ctx = _context(agent, case["arms"], rng)
        m = _mask(case["arms"], rng, pm)
        try:
            if m is None:
                agent.get_action(ctx)
            else:
                agent.get_action(ctx, action_mask=m)
        except CaseTimeout:
            raise
        except Exception as e:
            rec.crash(e, "get_action_raises", where="after:" + site, algo=case["algo"], lamb=case["lamb"], masked=m is not None)
            return False
    return True


def _run(case, rec):
    from vf import agentops, zoo

    rng = np.random.default_rng(case["seed"])
    _CUR["where"] = "construct"
    agent = _make_agent(case, case["seed"])
    _after_op(agent, rec, "construct")
    last = "construct"
    tmpdir = None
    try:
        for i, op in enumerate(case["ops"]):
            s = (case["seed"] * 131 + i) % (2**31 - 1)
            _CUR["where"] = op
            kind = op.split(":")[0]
            if kind == "act":
                _, n, pm = op.split(":")
                if not _decide(agent, case, rng, int(n), float(pm), rec, last):
                    return
                continue
            try:
                if op == "learn":
                    agentops.seed_all(s)
                    zoo.learn(agent, batch_seed=s)
                    rec.hit("learn_ops")
                elif kind == "mut":
                    m = agentops.make_mutations(op.split(":")[1], seed=s % 100000)
                    agentops.seed_all(s)
                    agent = m.mutation([agent], pre_training_mut=False)[0]
                    rec.hit("mutation_ops")
                    rec.hit("mutation_ops:" + str(agent.mut).split(".")[-1] if op == "mut:arch" else "mutation_ops:" + op[4:])
                elif kind == "mutdirect":
                    # the public per-kind methods of Mutations called directly (not through Mutations.mutation, which runs the
                    # mutation hooks itself afterwards)
                    m = agentops.make_mutations("arch", seed=s % 100000)
                    agentops.seed_all(s)
                    agent = m.architecture_mutate(agent)
                    rec.hit("direct_architecture_mutations")
                elif kind == "mode":
                    agent.set_training_mode(op.endswith(":1"))
                    rec.hit("mode_switches")
                    if not agent.training:
                        rec.hit("mode_switches_to_inference")
                elif op == "clone":
                    parent = agent
                    psh = _shadow(parent)
                    cand = [("inherits_history", None if psh.A is None else psh.A.copy(), psh.n)]
                    child = parent.clone()
                    rec.hit("clone_ops")
                    csh = _shadow(child)
                    cand.append(("fresh", None if csh.A is None else np.zeros_like(csh.A), 0))
                    _adopt_reference(child, cand, rec, "clone")
                    # the parent keeps deciding: the clone's matrix must not follow it
                    ok = _decide(parent, case, rng, 2, 0.0, rec, "clone(parent)")
                    agent = child
                    if not ok:
                        return
                elif kind == "ckpt":
                    if tmpdir is None:
                        tmpdir = tempfile.mkdtemp(prefix="vf_c19_")
                    path = os.path.join(tmpdir, f"a{i}.pt")
                    osh = _shadow(agent)
                    cand = [("inherits_history", None if osh.A is None else osh.A.copy(), osh.n)]
                    agent.save_checkpoint(path)
                    if op == "ckpt:load":
                        new = type(agent).load(path)
                    else:
                        new = _make_agent(case, s)
                        new.load_checkpoint(path)
                    os.remove(path)
                    rec.hit("checkpoint_roundtrips")
                    rec.hit("checkpoint_roundtrips:" + op[5:])
                    nsh = _shadow(new)
                    n_new = int(new.sigma_inv.shape[0])
                    cand.append(("fresh", np.zeros((n_new, n_new)), 0))
                    _adopt_reference(new, cand, rec, "reload")
                    agent = new
                else:
                    raise ValueError(op)
            except CaseTimeout:
                raise
            except Exception as e:
                rec.hit("op_failed(info)")
                rec.hit("op_failed(info):" + op)
                rec.extra["op_failed"] = f"{op}: {type(e).__name__}: {str(e)[:160]}"
                return
            last = op
            _after_op(agent, rec, op)
    finally:
        if tmpdir is not None:
            import shutil

            shutil.rmtree(tmpdir, ignore_errors=True)


def run_case(case):
    import time

    import torch

    rec = Recorder()
    _install()
    _STATE.clear()
    # harness hygiene: a per-case watchdog (SIGALRM) that fires inside a `with torch.no_grad()` exit of an earlier
    # case of this shard can leave autograd switched off process-wide; every case starts from the default
    if not torch.is_grad_enabled():
        rec.hit("grad_mode_was_left_disabled_by_earlier_case(info)")
        torch.set_grad_enabled(True)
    t0 = time.time()
    _CUR["rec"] = rec
    try:
        _run(case, rec)
    except CaseTimeout:
        raise
    except Exception as e:
        rec.crash(e, "crash", where=str(_CUR.get("where")), algo=case.get("algo"))
        rec.nontrivial = True
    finally:
        _CUR["rec"] = None
        _STATE.clear()
    rec.nontrivial = rec.nontrivial or rec.counters.get("inverse_checks_after_5_decisions", 0) > 0
    rec.extra["case_wall_s"] = round(time.time() - t0, 2)
    if not torch.is_grad_enabled():
        # nothing in a bandit's public API may leave autograd disabled (get_action needs it on the next call)
        rec.violate("global_state", "autograd_left_disabled_after_case", str(_CUR.get("where")), algo=case.get("algo"))
        torch.set_grad_enabled(True)
    return rec.result()


def finalize(ctx):
    res = ctx["results"]
    probs = sum(int(r.get("counters", {}).get("monitor_problem", 0)) for r in res.values())
    if probs:
        ex = next((r["extra"].get("monitor_problems") for r in res.values() if r.get("extra", {}).get("monitor_problems")), None)
        ctx["inconclusive"].append(f"monitor could not evaluate {probs} time(s) (observability lost): {ex}")
    ratios = [r.get("extra", {}).get("max_resid_over_tol", 0.0) for r in res.values()]
    conds = [r.get("extra", {}).get("max_cond", 0.0) for r in res.values()]
    failed = {}
    for r in res.values():
        f = r.get("extra", {}).get("op_failed")
        if f:
            k = f[:90]
            failed[k] = failed.get(k, 0) + 1
    walls = sorted(r.get("extra", {}).get("case_wall_s", 0.0) for r in res.values())
    slow_idx = max(res, key=lambda i: res[i].get("extra", {}).get("case_wall_s", 0.0)) if res else None
    return {
        "case_wall_s_median_max": [walls[len(walls) // 2], walls[-1]] if walls else None,
        "slowest_case": None if slow_idx is None else {"case": ctx["cases"][int(slow_idx)], "counters": res[slow_idx].get("counters")},
        "max_residual_over_tolerance_best_reference": max(ratios) if ratios else None,
        "max_cond_of_reference_gram": max(conds) if conds else None,
        "ops_that_raised(info)": dict(sorted(failed.items(), key=lambda kv: -kv[1])[:8]),
        "tolerance_formula": "||S@G-I||_max <= max(1e-5, 32*eps_float32*cond_2(G)), G = lambda*I + sum g g^T (float64)",
    }
