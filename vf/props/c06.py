"""C06 - hyperparameter mutation stays in its configured range and takes effect.

Postcondition monitor on Mutations.mutation (rl_hp probability 1): the variates that decide which
hyperparameter is sampled (torch.randperm) and whether it shrinks or grows (torch.rand) are recorded by
interposing `torch` as seen from agilerl.algorithms.core.registry; the oracle recomputes from the agent's OWN
value before the call what the new value must be, and reads the lr of every optimizer group afterwards.
"""

from __future__ import annotations

import numpy as np

from vf.core import CaseTimeout, Recorder

PROPERTY = "C06"
LEVEL = "exploration"
RULE = (
    "case = (algorithm, population construction in {Algo.population with ONE shared HyperparameterConfig, "
    "create_population, population after a tournament round}, population size 1..4, random/boundary RLParameter "
    "configs (min, max, shrink, grow, int/float; value at min, at max, min==max), 1..30 consecutive rl_hp mutation "
    "rounds, seed); every (agent, round) is one evaluation of the oracle. Non-trivial = at least one mutation changed "
    "a value, at least one hit a bound or was a learning rate, and population size >= 2; distinct = distinct case descriptions"
    " Added: RSNorm-wrapped populations (single-agent learners), float gamma ranges, a tournament round between the mutation rounds of every third case (half of them on agents whose optimizers never step), and for gamma / batch_size / learning rates / v_min a constructor-twin comparison of one learn step (with a control comparison before the mutation)"
)
ASSUMPTIONS = [
    "the shrink/grow branch and the sampled hyperparameter are read from the recorded torch.rand / torch.randperm variates "
    "seen by agilerl.algorithms.core.registry (if none are recorded the oracle accepts either branch and any configured name)",
    "expected value = dtype(min(max(own_old_value * factor, min), max)) evaluated in Python float arithmetic like the code; "
    "factor pairs include both-below-one and both-above-one, ranges include negative ones (RainbowDQN v_min)",
    "learning-rate effect is read from param_groups of the optimizer objects the agent holds after the call",
    "constructor twin = a new agent built by the route the population was built by, given the agent's current hyperparameter values, every network leaf (module leaf walker), tensor attributes, optimizer moments and update counter; learn() of the algorithm CLASS is called on both under the same RNG state; returned losses (1e-5 rel) and updated weights (1e-5 rel + 1e-6) must agree; no verdict where the same comparison failed before the mutation (hidden state the twin does not carry)",
]
REQUIRED_COUNTERS = ["mutations_checked", "other_agents_unchanged_checks", "lr_group_checks", "variates_recorded", "effect_twin_checks"]
CASE_TIMEOUT_S = 1500


def preload():
    import agilerl.algorithms  # noqa
    import agilerl.algorithms.core.registry  # noqa
    import agilerl.hpo.mutation  # noqa
    import agilerl.hpo.tournament  # noqa
    import agilerl.utils.utils  # noqa
    from vf.core import quiet_torch

    quiet_torch()


LR_NAMES = {
    "DQN": ["lr"], "RainbowDQN": ["lr"], "CQN": ["lr"], "PPO": ["lr"], "NeuralUCB": ["lr"], "NeuralTS": ["lr"], "IPPO": ["lr"],
    "DDPG": ["lr_actor", "lr_critic"], "TD3": ["lr_actor", "lr_critic"], "MADDPG": ["lr_actor", "lr_critic"], "MATD3": ["lr_actor", "lr_critic"],
}


def cases(tier, seed):
    from vf import zoo

    rng = np.random.default_rng(6100 + seed)
    out = []
    n = 90 if tier == "quick" else 2000
    for i in range(n):
        algo = zoo.ALL[i % len(zoo.ALL)] if i < 2 * len(zoo.ALL) else zoo.ALL[int(rng.integers(len(zoo.ALL)))]
        out.append(
            {
                "algo": algo,
                "how": ["population_shared_cfg", "create_population", "after_selection"][i % 3],
                "pop": int(rng.integers(1, 5)) if i % 7 else 1,
                "rounds": int(rng.integers(1, 9 if tier == "quick" else 31)),
                "cfg_seed": int(rng.integers(1 << 30)),
                "corner": ["none", "at_min", "at_max", "min_eq_max", "tight_int"][i % 5],
                # the quantifier says ARBITRARY shrink and grow factors and ranges
                "factors": ["usual", "usual", "decay_only", "grow_only"][(i // 5) % 4],
                "negative_range": bool((i // 3) % 3 == 0) or (algo in NEGATIVE_CAPABLE and i % 2 == 0),
                # agents that have already learned (optimizer state exists) when the mutation arrives
                "learn_first": bool((i // 2) % 2 == 0),
                # several learning rates configured with the SAME value and range (e.g. parsed from one config entry)
                "equal_lrs": bool(len(LR_NAMES[algo]) > 1 and (i // 4) % 2 == 0),
                "int_literal_bounds": bool(i % 3 == 1),
                # population of AgentWrapper-wrapped agents (RSNorm): mutations then write through the wrapper
                "wrapped": bool((i // 2) % 4 == 1),
                # a float hyperparameter that learn() consumes (gamma) configured with an ordinary float range
                "gamma_range": bool(i % 3 != 1 and (i // 3) % 2 == 0),
                # a tournament round between the mutation rounds (the mutated values travel on through clone())
                "select_between": bool(i % 3 == 2),
                # ... on agents whose optimizers have never stepped (pre-training mutations, evolution during buffer warm-up):
                # no learn step and no twin comparison anywhere in the case
                "never_stepped": bool(i % 6 == 2),
                "seed": int(rng.integers(1 << 30)),
            }
        )
    # directed: the support bound of the distributional learner as the ONLY configured hyperparameter (every mutation hits it)
    out.append({"algo": "RainbowDQN", "how": "population_shared_cfg", "pop": 2, "rounds": 3, "cfg_seed": 6, "corner": "none",
                "factors": "usual", "negative_range": True, "learn_first": True, "equal_lrs": False, "int_literal_bounds": False,
                "wrapped": False, "gamma_range": False, "only": "v_min", "seed": 606})
    return out


NEGATIVE_CAPABLE = {"RainbowDQN": "v_min"}  # a float hyperparameter that is legitimately negative


def _factors(rng, style):
    """(shrink, grow): the usual pair, or both below one ('decay only'), or both above one ('grow only')."""
    if style == "decay_only":
        return float(rng.uniform(0.3, 0.7)), float(rng.uniform(0.75, 0.98))
    if style == "grow_only":
        return float(rng.uniform(1.02, 1.3)), float(rng.uniform(1.4, 2.5))
    return float(rng.uniform(0.5, 0.99)), float(rng.uniform(1.01, 2.0))


def _make_cfg(case, algo):
    """Random / boundary HyperparameterConfig plus the initial attribute values to construct agents with."""
    from agilerl.algorithms.core.registry import HyperparameterConfig, RLParameter

    rng = np.random.default_rng(case["cfg_seed"])
    params, init = {}, {}
    decl = {}  # what the caller WROTE: name -> (min, max, shrink, grow, number type); never read back from the objects
    corner = case["corner"]
    style = case.get("factors", "usual")
    if case.get("negative_range") and algo in NEGATIVE_CAPABLE:
        name = NEGATIVE_CAPABLE[algo]
        lo = -float(rng.uniform(1.0, 3.0))
        hi = -float(rng.uniform(0.05, 0.9))
        sh, gr = _factors(rng, style)
        params[name] = RLParameter(min=lo, max=hi, shrink_factor=sh, grow_factor=gr)
        decl[name] = (lo, hi, sh, gr, float)
        init[name] = float(rng.uniform(lo, hi))
    shared_lr = None
    for lr in LR_NAMES[algo]:
        lo = float(10 ** rng.uniform(-5, -3.5))
        hi = float(lo * 10 ** rng.uniform(0.3, 1.5))
        v = float(rng.uniform(lo, hi))
        if case.get("equal_lrs"):
            if shared_lr is None:
                shared_lr = (lo, hi, v)
            # equal values but separate float objects, as after parsing a config file
            lo, hi, v = (float(repr(x)) * 1.0 for x in shared_lr)
        if corner == "at_min":
            v = lo
        elif corner == "at_max":
            v = hi
        elif corner == "min_eq_max":
            hi = lo
            v = lo
        sh, gr = _factors(rng, style)
        params[lr] = RLParameter(min=lo, max=hi, shrink_factor=sh, grow_factor=gr)
        decl[lr] = (lo, hi, sh, gr, float)
        init[lr] = v
    lo = int(rng.integers(4, 10))
    hi = int(lo + rng.integers(0, 24)) if corner != "min_eq_max" else lo
    if corner == "tight_int":
        hi = lo + 1
    v = int(rng.integers(lo, hi + 1))
    if corner == "at_min":
        v = lo
    elif corner == "at_max":
        v = hi
    sh, gr = _factors(rng, style)
    params["batch_size"] = RLParameter(min=lo, max=hi, dtype=int, shrink_factor=sh, grow_factor=gr)
    decl["batch_size"] = (lo, hi, sh, gr, int)
    init["batch_size"] = v
    lo = int(rng.integers(1, 4))
    hi = int(lo + rng.integers(0, 12))
    sh, gr = _factors(rng, style)
    params["learn_step"] = RLParameter(min=lo, max=hi, dtype=int, shrink_factor=sh, grow_factor=gr)
    decl["learn_step"] = (lo, hi, sh, gr, int)
    init["learn_step"] = int(rng.integers(lo, hi + 1))
    if rng.random() < 0.4:
        params.pop("learn_step")
        init.pop("learn_step")
        decl.pop("learn_step")
    if case.get("int_literal_bounds") and algo not in ("NeuralUCB", "NeuralTS"):
        # a FLOAT hyperparameter whose range is written with integer literals (gamma in 0..1): still a float
        sh, gr = _factors(rng, style)
        params["gamma"] = RLParameter(min=0, max=1, shrink_factor=sh, grow_factor=gr)
        decl["gamma"] = (0, 1, sh, gr, float)
        init["gamma"] = float(rng.uniform(0.3, 0.99))
    if case.get("gamma_range") and "gamma" not in params and algo not in ("NeuralUCB", "NeuralTS"):
        lo = float(rng.uniform(0.3, 0.6))
        hi = float(rng.uniform(0.9, 0.999))
        sh, gr = _factors(rng, style)
        params["gamma"] = RLParameter(min=lo, max=hi, shrink_factor=sh, grow_factor=gr)
        decl["gamma"] = (lo, hi, sh, gr, float)
        init["gamma"] = float(rng.uniform(lo, hi))
    if case.get("only") in params:
        params = {case["only"]: params[case["only"]]}
        decl = {case["only"]: decl[case["only"]]}
    cfg = HyperparameterConfig(**params)
    cfg._vf_declared = decl
    return cfg, init


class _TorchProxy:
    """`torch` as seen by agilerl.algorithms.core.registry: records rand / randperm variates."""

    def __init__(self, real, log):
        self._real = real
        self._log = log

    def rand(self, *a, **kw):
        out = self._real.rand(*a, **kw)
        self._log.append(("rand", out.reshape(-1).tolist()))
        return out

    def randperm(self, *a, **kw):
        out = self._real.randperm(*a, **kw)
        self._log.append(("randperm", out.reshape(-1).tolist()))
        return out

    def __getattr__(self, name):
        return getattr(self._real, name)


def _expected_lr_attr(agent, cfg) -> str:
    """Which learning-rate attribute an optimizer must follow, decided from WHAT it trains (documented constructor
    semantics: critics use lr_critic, actors lr_actor, single-lr algorithms lr) - not from the registry's own
    bookkeeping of lr names, which is part of what is being checked."""
    from vf import zoo

    a = zoo.unwrap(agent)
    if hasattr(a, "lr_critic") and hasattr(a, "lr_actor"):
        return "lr_critic" if any("critic" in str(n) for n in cfg.networks) else "lr_actor"
    return "lr"


def _group_lrs(agent, attr):
    """lr of every param group of every optimizer that must follow learning-rate attribute `attr`."""
    from vf import zoo

    a = zoo.unwrap(agent)
    out = []
    for cfg in a.registry.optimizers:
        if _expected_lr_attr(agent, cfg) != attr:
            continue
        ow = getattr(a, cfg.name)
        opts = ow.optimizer if isinstance(ow.optimizer, list) else [ow.optimizer]
        for o in opts:
            for g in o.param_groups:
                out.append(float(g["lr"]))
    return out


def _stepped_lr_check(rec, agent, case, algo, how, target, rnd):
    import torch

    from vf import zoo

    a = zoo.unwrap(agent)
    owned = {}
    for cfg in a.registry.optimizers:
        ow = getattr(a, cfg.name)
        for o in ow.optimizer if isinstance(ow.optimizer, list) else [ow.optimizer]:
            owned[id(o)] = _expected_lr_attr(agent, cfg)
    stepped = []
    from torch.optim.optimizer import register_optimizer_step_pre_hook

    handle = register_optimizer_step_pre_hook(lambda opt, args, kwargs: stepped.append(opt))
    try:
        try:
            zoo.learn(agent, batch_seed=case["seed"] % 3989 + 17 * rnd)
        finally:
            handle.remove()
    except CaseTimeout:
        raise
    except Exception as e:
        rec.hit("learn_after_lr_mutation_failed(info)")
        rec.extra["learn_after_lr_mutation_failed"] = f"{type(e).__name__}: {str(e)[:100]}"
        return
    rec.hit("stepped_optimizer_checks", len(stepped))
    site = "learn() after Mutations.rl_hyperparam_mutation"
    for o in stepped:
        attr = owned.get(id(o))
        if attr is None:
            rec.violate("lr_effect", "learn_steps_an_optimizer_the_agent_no_longer_owns", site, algo=algo, mutated=target, how=how,
                        stepped_lrs=[float(g["lr"]) for g in o.param_groups], agent_values={n: getattr(a, n) for n in LR_NAMES[algo]})
            return
        for g in o.param_groups:
            if not _same_number(float(g["lr"]), getattr(a, attr)):
                rec.violate("lr_effect", "stepped_optimizer_group_lr_differs_from_agent_value", site, algo=algo, name=attr,
                            group_lr=float(g["lr"]), agent_value=getattr(a, attr), mutated=target, how=how)
                return


# ---------------------------------------------------------------- "the new value is what the agent subsequently uses"
EFFECT_TARGETS = ("gamma", "batch_size", "lr", "lr_actor", "lr_critic", "v_min")  # hyperparameters that learn() itself consumes
EFFECT_BUDGET = 6  # twin comparisons per case


def _flat(x):
    import torch

    if x is None:
        return []
    if isinstance(x, dict):
        return [v for k in sorted(x, key=str) for v in _flat(x[k])]
    if isinstance(x, (list, tuple)):
        return [v for y in x for v in _flat(y)]
    if isinstance(x, torch.Tensor):
        return [float(v) for v in x.detach().reshape(-1).tolist()]
    if isinstance(x, np.ndarray):
        return [float(v) for v in x.reshape(-1).tolist()]
    try:
        return [float(x)]
    except Exception:
        return []


def _build_twin(a, algo, init, maker=None):
    """A NEW agent constructed with the hyperparameter values the agent reports now (everything else as configured),
    given the agent's weights, optimizer moments and update counter: by construction an agent that uses these values."""
    import copy

    names = list(a.registry.hp_config.names())
    kw = dict(init)
    kw.setdefault("batch_size", 8)
    kw.update({n: getattr(a, n) for n in names})
    if maker is not None:
        twin = maker(kw)  # the route the population itself was built by (create_population: INIT_HP dictionary)
    else:
        o, sp, extra = _spaces_and_extra(algo, kw)
        twin = type(a)(o, sp, index=a.index, **kw, **extra)
    import torch

    from vf import walk

    def mods(v):
        if isinstance(v, torch.nn.Module):
            return [v]
        if isinstance(v, dict):
            return [m for k in v for m in mods(v[k])]
        if isinstance(v, (list, tuple)):
            return [m for x in v for m in mods(x)]
        return []

    with torch.no_grad():
        # every tensor leaf of every network (also those a functional / detached target keeps out of state_dict())
        for name, net in a.evolvable_attributes(networks_only=True).items():
            for ms, mt in zip(mods(net), mods(getattr(twin, name))):
                lt = walk.module_leaves(mt)
                for k, t in walk.module_leaves(ms).items():
                    if k in lt and lt[k].shape == t.shape:
                        lt[k].copy_(t)
        # tensors / arrays the agent keeps next to its networks (bandit regularisation anchor, confidence matrix, ...)
        for attr, v in list(vars(a).items()):
            if isinstance(v, torch.Tensor) and isinstance(getattr(twin, attr, None), torch.Tensor) and getattr(twin, attr).shape == v.shape:
                getattr(twin, attr).copy_(v)
            elif isinstance(v, np.ndarray) and isinstance(getattr(twin, attr, None), np.ndarray) and getattr(twin, attr).shape == v.shape:
                np.copyto(getattr(twin, attr), v)
    for cfg in a.registry.optimizers:
        src, dst = getattr(a, cfg.name), getattr(twin, cfg.name)
        so = src.optimizer if isinstance(src.optimizer, list) else [src.optimizer]
        do = dst.optimizer if isinstance(dst.optimizer, list) else [dst.optimizer]
        for s_, d_ in zip(so, do):
            sd = d_.state_dict()  # the twin keeps the settings it was constructed with, it only inherits the moments
            sd["state"] = copy.deepcopy(s_.state_dict()["state"])
            d_.load_state_dict(sd)
    if hasattr(a, "learn_counter"):
        twin.learn_counter = copy.deepcopy(a.learn_counter)
    return twin


def _learn_payload(agent, algo, seed):
    """Data for one learn() call that can be replayed on another agent (plain containers / numpy)."""
    from vf import zoo

    if algo == "PPO":
        return ("rollout", zoo.ppo_rollout(agent, T=4, num_envs=3, seed=seed))
    if algo == "IPPO":
        return ("rollout", zoo.ippo_rollout(agent, T=4, num_envs=3, seed=seed))
    a = zoo.unwrap(agent)
    return ("batch", zoo.make_batch(a, seed=seed), zoo.make_batch(a, seed=seed + 7))


def _raw_learn(x, algo, payload, seed):
    """The algorithm class's own learn() (an AgentWrapper's replacement of the bound method is by-passed on both sides)."""
    import copy
    import random

    import torch

    from vf import zoo

    torch.manual_seed(seed)
    np.random.seed(seed % (2**31))
    random.seed(seed)
    cls = type(x)
    if payload[0] == "rollout":
        return cls.learn(x, copy.deepcopy(payload[1]))
    exp = zoo.as_experiences(x, payload[1])
    if algo == "RainbowDQN":
        exp["idxs"] = torch.arange(payload[1]["n"]).reshape(-1, 1)
        return cls.learn(x, exp, n_experiences=zoo.as_experiences(x, payload[2]))
    return cls.learn(x, exp)


def _params_of(x):
    import torch

    from vf import walk

    def mods(v):
        if isinstance(v, torch.nn.Module):
            return [v]
        if isinstance(v, dict):
            return [m for k in v for m in mods(v[k])]
        if isinstance(v, (list, tuple)):
            return [m for y in v for m in mods(y)]
        return []

    out = {}
    for name, net in x.evolvable_attributes(networks_only=True).items():
        for i, m in enumerate(mods(net)):
            for k, v in walk.module_leaves(m).items():
                out[f"{name}[{i}].{k}"] = v.detach().clone()
    return out


def _twin_compare(a, algo, init, seed, maker=None):
    """-> None when the agent and its constructor twin behave alike on one learn step, else a short description."""
    import torch

    payload = _learn_payload(a, algo, seed)
    twin = _build_twin(a, algo, init, maker)
    r_twin = _flat(_raw_learn(twin, algo, payload, seed))
    r_self = _flat(_raw_learn(a, algo, payload, seed))
    if len(r_twin) != len(r_self):
        return {"what": "learn_returns_differ_in_shape", "agent": r_self[:4], "twin": r_twin[:4]}
    for u, v in zip(r_self, r_twin):
        if not (abs(u - v) <= 1e-6 + 1e-5 * max(abs(u), abs(v))) and not (u != u and v != v):
            return {"what": "learn_returns_differ", "agent": r_self[:4], "twin": r_twin[:4]}
    pa, pt = _params_of(a), _params_of(twin)
    for k in pa:
        if k not in pt or pa[k].shape != pt[k].shape:
            return {"what": "parameters_differ_in_shape", "leaf": k}
        if pa[k].is_floating_point():
            d = (pa[k] - pt[k]).abs()
            if bool((d > 1e-6 + 1e-5 * pa[k].abs()).any()) and bool(torch.isfinite(pa[k]).all()):
                return {"what": "updated_weights_differ", "leaf": k, "max_abs_diff": float(d.max())}
    return None


def _snapshot(pop, names):
    from vf import zoo

    snap = []
    for ag in pop:
        a = zoo.unwrap(ag)
        snap.append({n: getattr(a, n) for n in names} | {"__lrs__": {n: _group_lrs(ag, n) for n in names if n.startswith("lr")}})
    return snap


def _spaces_and_extra(algo, kw):
    from vf import zoo

    extra = {}
    if algo in zoo.MULTI:
        ids = list(zoo.MA_AGENT_IDS)
        o = [zoo.obs_space("vector") for _ in ids]
        a = [zoo.act_space(zoo.default_act_kind(algo)) for _ in ids]
        extra["agent_ids"] = ids
    else:
        o, a = zoo.obs_space("vector"), zoo.act_space(zoo.default_act_kind(algo))
        if algo == "RainbowDQN":
            extra = {k: v for k, v in dict(num_atoms=11, v_min=-5.0, v_max=5.0).items() if k not in kw}
    return o, a, extra


_MAKER = {}  # how one more agent of the current case's population is constructed (None: plain constructor)


def _build_population(case, algo, cfg, init):
    from vf import zoo

    _MAKER.clear()

    cls = zoo.algo_cls(algo)
    how = case["how"]
    n = case["pop"]
    kw = dict(init)
    kw.setdefault("batch_size", 8)
    if case.get("wrapped") and algo not in zoo.MULTI:
        from agilerl.wrappers.agent import RSNorm

        o, a, extra = _spaces_and_extra(algo, kw)
        pop = cls.population(n, o, a, wrapper_cls=RSNorm, hp_config=cfg, **kw, **extra)
        how = "population_shared_cfg+RSNorm"
        if case["how"] == "after_selection":
            from agilerl.hpo.tournament import TournamentSelection

            for i, ag in enumerate(pop):
                zoo.unwrap(ag).fitness.append(float(i))
            _, pop = TournamentSelection(2, True, n, 1).select(pop)
            how += "+after_selection"
        return pop, how
    if algo in zoo.MULTI:
        ids = list(zoo.MA_AGENT_IDS)
        o = [zoo.obs_space("vector") for _ in ids]
        a = [zoo.act_space(zoo.default_act_kind(algo)) for _ in ids]
        if how == "create_population":
            how = "population_shared_cfg"  # create_population needs INIT_HP dicts; covered by single-agent algos
        pop = cls.population(n, o, a, agent_ids=ids, hp_config=cfg, **kw)
    else:
        o, a = zoo.obs_space("vector"), zoo.act_space(zoo.default_act_kind(algo))
        extra = {}
        if algo == "RainbowDQN":
            extra = dict(num_atoms=11, v_min=-5.0, v_max=5.0)
            extra = {k: v for k, v in extra.items() if k not in kw}
        if how == "create_population":
            try:
                pop = _via_create_population(algo, o, a, cfg, init, n)
                _MAKER["f"] = lambda kw, _o=o, _a=a: _via_create_population(algo, _o, _a, None, kw, 1)[0]
            except Exception:
                pop = cls.population(n, o, a, hp_config=cfg, **kw, **extra)
                how = "population_shared_cfg(create_population_failed)"
        else:
            pop = cls.population(n, o, a, hp_config=cfg, **kw, **extra)
    if case["how"] == "after_selection":
        from agilerl.hpo.tournament import TournamentSelection

        for i, ag in enumerate(pop):
            zoo.unwrap(ag).fitness.append(float(i))
        _, pop = TournamentSelection(2, True, n, 1).select(pop)
    return pop, how


def _via_create_population(algo, o, a, cfg, init, n):
    from agilerl.utils.utils import create_population

    INIT_HP = {
        "BATCH_SIZE": init.get("batch_size", 8), "LR": init.get("lr", 1e-3), "LR_ACTOR": init.get("lr_actor", 1e-3),
        "LR_CRITIC": init.get("lr_critic", 1e-3), "LEARN_STEP": init.get("learn_step", 2), "GAMMA": init.get("gamma", 0.99), "TAU": 0.01,
        "DOUBLE": False, "N_STEP": 3, "NUM_ATOMS": 11, "V_MIN": init.get("v_min", -5.0), "V_MAX": 5.0, "BETA": 0.4, "PRIOR_EPS": 1e-6,
        "NOISE_STD": 0.5, "COMBINED_REWARD": False, "GAE_LAMBDA": 0.95, "ACTION_STD_INIT": 0.0, "CLIP_COEF": 0.2,
        "ENT_COEF": 0.01, "VF_COEF": 0.5, "MAX_GRAD_NORM": 0.5, "TARGET_KL": None, "UPDATE_EPOCHS": 1, "POLICY_FREQ": 2,
        "O_U_NOISE": True, "EXPL_NOISE": 0.1, "MEAN_NOISE": 0.0, "THETA": 0.15, "DT": 0.01, "LAMBDA": 1.0, "REG": 0.000625,
        "CUDAGRAPHS": False,
    }
    name = {"RainbowDQN": "Rainbow DQN"}.get(algo, algo)
    return create_population(name, o, a, None, INIT_HP, hp_config=cfg, population_size=n)


def run_case(case):
    import agilerl.algorithms.core.registry as R

    from vf import agentops, zoo

    rec = Recorder()
    algo = case["algo"]
    agentops.seed_all(case["seed"])
    try:
        cfg, init = _make_cfg(case, algo)
        pop, how = _build_population(case, algo, cfg, init)
        rec.extra["how"] = how
        rec.hit("how:" + how)
    except CaseTimeout:
        raise
    except Exception as e:
        rec.hit("setup_failed")
        rec.extra["setup_failed"] = f"{type(e).__name__}: {str(e)[:140]}"
        return rec.result()
    names = list(zoo.unwrap(pop[0]).registry.hp_config.names())
    specs = {}
    # what the USER configured (taken before anything ran): every agent, however the population was built, copied or
    # selected, must mutate with exactly these ranges, factors and number types
    declared = dict(cfg._vf_declared)
    changed_any = bound_or_lr = False
    m = agentops.make_mutations("rl_hp", seed=case["seed"] % 100000)
    effect_budget = 0 if case.get("never_stepped") else EFFECT_BUDGET
    if case.get("never_stepped"):
        rec.hit("cases_with_never_stepped_optimizers")
    for rnd in range(case["rounds"]):
        if case.get("learn_first") and rnd in (0, 2) and not case.get("never_stepped"):
            try:
                for ag in pop:
                    zoo.learn(ag, batch_seed=case["seed"] % 4001 + rnd)
                rec.hit("learn_steps_before_mutation", len(pop))
            except CaseTimeout:
                raise
            except Exception as e:
                rec.hit("learn_before_mutation_failed(info)")
                rec.extra["learn_before_mutation_failed"] = f"{type(e).__name__}: {str(e)[:100]}"
        # the code mutates agents one after another inside one mutation() call; to attribute variates to agents the
        # population is mutated one agent per call (mutation([agent]) is exactly what mutation(pop) does per member)
        for k in range(len(pop)):
            before = _snapshot(pop, names)
            a = zoo.unwrap(pop[k])
            hp = a.registry.hp_config
            specs = {n: (hp[n].min, hp[n].max, hp[n].shrink_factor, hp[n].grow_factor, hp[n].dtype) for n in hp.names()}
            rec.hit("declared_config_checks")
            if specs != declared:
                bad = sorted(n for n in set(specs) | set(declared) if specs.get(n) != declared.get(n))
                rec.violate("configured_spec", "agent_carries_other_ranges_or_factors_than_configured", "HyperparameterConfig",
                            algo=algo, how=how, member=k, round=rnd, names=bad,
                            carried={n: [repr(x) for x in specs.get(n, ())] for n in bad[:3]},
                            configured={n: [repr(x) for x in declared.get(n, ())] for n in bad[:3]})
                specs = dict(declared)  # judge the mutation against what was configured
            # control for the effect monitor: BEFORE the mutation the agent must behave like an agent constructed with
            # its current values (if it does not, hidden state the twin does not carry is in play: no verdict afterwards)
            control_ok = False
            if effect_budget > 0:
                try:
                    control_ok = _twin_compare(a, algo, init, case["seed"] % 9973 + 31 * rnd + k, _MAKER.get("f")) is None
                    rec.hit("effect_twin_controls")
                    if not control_ok:
                        rec.hit("effect_twin_control_disagrees(info)")
                        rec.hit(f"effect_twin_control_disagrees(info):{algo}:{how}")
                except CaseTimeout:
                    raise
                except Exception as e:
                    rec.hit("effect_twin_failed(info)")
                    rec.extra["effect_twin_failed"] = f"{type(e).__name__}: {str(e)[:120]}"
            log = []
            real = R.torch
            R.torch = _TorchProxy(real, log)
            try:
                try:
                    out = m.mutation([pop[k]])
                finally:
                    R.torch = real
            except CaseTimeout:
                raise
            except Exception as e:
                rec.crash(e, "mutation_raises", "Mutations.rl_hyperparam_mutation", algo=algo, how=how)
                rec.nontrivial = True
                return rec.result()
            if len(out) != 1:
                rec.violate("population", "mutation_changed_population_size", "Mutations.mutation", got=len(out))
                return rec.result()
            pop[k] = out[0]
            after = _snapshot(pop, names)
            rec.hit("mutations_checked")
            site = "Mutations.rl_hyperparam_mutation"
            a = zoo.unwrap(pop[k])

            perm = [v for kind, v in log if kind == "randperm"]
            rands = [v for kind, v in log if kind == "rand"]
            if perm and rands:
                rec.hit("variates_recorded")
            sampled = names[perm[0][0]] if perm and perm[0] and perm[0][0] < len(names) else None
            branch = None if not rands else ("shrink" if rands[0][0] < 0.5 else "grow")

            changed = [n for n in names if before[k][n] != after[k][n] or type(before[k][n]) is not type(after[k][n])]
            reported = a.mut
            if len(changed) > 1:
                rec.violate("single_change", "more_than_one_hyperparameter_changed", site, algo=algo, changed=changed, how=how)
            target = sampled or (reported if reported in names else (changed[0] if changed else None))
            if reported not in names:
                rec.violate("reported_mutation", "agent_reports_unknown_hyperparameter", site, algo=algo, reported=reported, names=names)
            elif sampled is not None and reported != sampled:
                rec.violate("reported_mutation", "reported_name_differs_from_sampled", site, algo=algo, reported=reported, sampled=sampled)
            if changed and target is not None and changed != [target]:
                rec.violate("single_change", "changed_hyperparameter_is_not_the_sampled_one", site, algo=algo, changed=changed, sampled=target)
            if target is not None:
                lo, hi, sh, gr, dt = specs[target]
                old = before[k][target]
                exp = {}
                for br, f in (("shrink", sh), ("grow", gr)):
                    exp[br] = dt(min(max(old * f, lo), hi))
                new = after[k][target]
                ok_vals = [exp[branch]] if branch else list(exp.values())
                rec.hit("value_checks")
                if not any(_same_number(new, e) for e in ok_vals):
                    rec.violate(
                        "new_value",
                        "not_own_value_times_factor_clipped",
                        site,
                        algo=algo,
                        name=target,
                        own_old=old,
                        new=new,
                        expected=exp,
                        branch=branch,
                        member=k,
                        round=rnd,
                        how=how,
                        others_old={j: before[j][target] for j in range(len(pop)) if j != k},
                    )
                if not (lo <= new <= hi):
                    rec.violate("range", "value_outside_configured_range", site, algo=algo, name=target, new=new, min=lo, max=hi)
                if not isinstance(new, dt) or isinstance(new, bool):
                    rec.violate("dtype", "value_has_wrong_number_type", site, algo=algo, name=target, new=repr(new), want=dt.__name__)
                if new != old:
                    changed_any = True
                if new in (lo, hi) or target.startswith("lr"):
                    bound_or_lr = True
                if lo < 0:
                    rec.hit("negative_range_mutations")
            # learning rates: every group of every optimizer registered with that lr attribute
            for n in names:
                if n.startswith("lr"):
                    for g in after[k]["__lrs__"][n]:
                        rec.hit("lr_group_checks")
                        if not _same_number(g, after[k][n]):
                            rec.violate(
                                "lr_effect", "optimizer_group_lr_differs_from_agent_value", site, algo=algo, name=n, group_lr=g, agent_value=after[k][n], mutated=target, how=how
                            )
            # "... of every optimizer group that the agent STEPS": a learn step after a learning-rate mutation, with a global
            # step hook that records which optimizer objects learn() really steps
            if target is not None and str(target).startswith("lr") and case.get("learn_first") and not case.get("never_stepped"):
                _stepped_lr_check(rec, pop[k], case, algo, how, target, rnd)
            if control_ok and target in EFFECT_TARGETS:
                effect_budget -= 1
                try:
                    diff = _twin_compare(a, algo, init, case["seed"] % 9967 + 37 * rnd + k, _MAKER.get("f"))
                    rec.hit("effect_twin_checks")
                    rec.hit("effect_twin_checks:" + str(target))
                    if diff is not None:
                        rec.violate("hp_effect", "agent_does_not_learn_like_an_agent_constructed_with_the_new_value", site, algo=algo,
                                    name=target, old=before[k][target], new=after[k][target], how=how, **diff)
                except CaseTimeout:
                    raise
                except Exception as e:
                    rec.hit("effect_twin_failed(info)")
                    rec.extra["effect_twin_failed"] = f"{type(e).__name__}: {str(e)[:120]}"
            # nobody else moved
            for j in range(len(pop)):
                if j == k:
                    continue
                rec.hit("other_agents_unchanged_checks")
                if before[j] != after[j]:
                    diff = [n for n in before[j] if before[j][n] != after[j][n]]
                    rec.violate("other_agents", "mutation_changed_another_agents_value", site, algo=algo, victim=j, actor=k, changed=diff, how=how)
        if case.get("select_between") and len(pop) >= 2:
            from agilerl.hpo.tournament import TournamentSelection

            try:
                for i_, ag in enumerate(pop):
                    zoo.unwrap(ag).fitness.append(float((i_ * 7 + rnd) % 5))
                want = [{n: getattr(zoo.unwrap(ag), n) for n in names} for ag in pop]
                _, pop = TournamentSelection(2, True, len(pop), 1).select(pop)
                rec.hit("selection_rounds_between_mutations")
            except CaseTimeout:
                raise
            except Exception as e:
                rec.hit("selection_between_failed(info)")
                rec.extra["selection_between_failed"] = f"{type(e).__name__}: {str(e)[:100]}"
            else:
                # "the new value is what the agent subsequently uses" also holds for the copies selection hands on
                for ag in pop:
                    a2 = zoo.unwrap(ag)
                    for n in names:
                        if not n.startswith("lr"):
                            continue
                        for g in _group_lrs(ag, n):
                            rec.hit("lr_group_checks")
                            if not _same_number(g, getattr(a2, n)):
                                rec.violate("lr_effect", "optimizer_group_lr_differs_from_agent_value", "TournamentSelection.select after rl_hp mutation",
                                            algo=algo, name=n, group_lr=g, agent_value=getattr(a2, n), how=how)
    rec.nontrivial = changed_any and bound_or_lr and len(pop) >= 2
    return rec.result()


def _same_number(a, b) -> bool:
    if isinstance(a, bool) or isinstance(b, bool):
        return False
    if isinstance(a, int) and isinstance(b, int):
        return a == b
    try:
        return abs(float(a) - float(b)) <= 1e-12 * max(1.0, abs(float(a)), abs(float(b)))
    except Exception:
        return False
