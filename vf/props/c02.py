"""C02 - after any mutation an agent is coherent: optimizers, targets and critics follow.

Postcondition monitor around the real Mutations.mutation(population): a pre-snapshot (init_dicts, indices, advertised
mutation methods, hyperparameters) is taken, the kind actually applied to each agent is recorded by class-level
wrappers on the five mutation methods, and after the call every agent is inspected:
  optimizer_params   each optimizer's param_groups hold exactly the current parameters (identity) of its networks
  optimizer_lr       each group's lr is the agent's current value of the registered lr attribute
  shared_network     target / shared networks: init_dict and weights equal those of the eval network they shadow
  architecture_sync  networks trained alongside the policy received the policy's architecture change
  can_act            get_action on probe observations works and returns legal actions
  learn_moves        a learn step changes parameters of every network that has an optimizer
  population         size, order and indices preserved; reported mutation label is one the applied kind can produce
"""

from __future__ import annotations

import copy

import numpy as np

from vf.core import CaseTimeout, Recorder

PROPERTY = "C02"
LEVEL = "exploration"
RULE = (
    "case = (algorithm, observation family, shared/unshared encoders, mutation probability vector in {one-hot per kind, "
    "uniform, random simplex point}, pre_training_mut flag, population size 2..3, 1..6 generations of (optional learn, "
    "optional tournament selection, mutate), seed); every (agent, generation) is one evaluation of the monitors. "
    "Non-trivial = at least one architecture / parameter / activation / rl_hp mutation was really applied (label != None) "
    "AND the learn probe ran; distinct = distinct case descriptions"
    " Added: RSNorm-wrapped populations for DQN / Rainbow / CQN / DDPG / TD3 on vector / image observations"
)
ASSUMPTIONS = [
    "the applied kind is read from class-level recording wrappers on Mutations' five mutation methods",
    "architecture_sync compares a non-policy eval network with the policy only for the component named by the applied "
    "method (encoder / head_net / latent) and only when both had equal configurations of that component before the "
    "mutation (then they must be equal afterwards unless the network does not advertise the method)",
    "learn_moves: a network counts as trained iff it is listed in an optimizer's networks; delayed actor updates get "
    "policy_freq learn steps",
    "shared/target weights are compared on parameter names (weights), right after the mutation",
]
REQUIRED_COUNTERS = ["agents_checked", "optimizer_param_checks", "optimizer_lr_checks", "shared_network_checks", "shared_encoder_checks", "learn_probes", "act_probes"]
CASE_TIMEOUT_S = 1500

_REC = {"on": False, "log": []}
KIND_OF = {
    "no_mutation": "none",
    "architecture_mutate": "arch",
    "parameter_mutation": "param",
    "activation_mutation": "act",
    "rl_hyperparam_mutation": "rl_hp",
}


def preload():
    import agilerl.algorithms  # noqa
    import agilerl.hpo.tournament  # noqa
    from agilerl.hpo.mutation import Mutations

    from vf.core import quiet_torch

    quiet_torch()
    if not getattr(Mutations, "_vf_wrapped", False):
        for name in KIND_OF:
            orig = getattr(Mutations, name)

            def make(orig=orig, name=name):
                def wrapper(self, individual, *a, **kw):
                    if _REC["on"]:
                        _REC["log"].append((id(individual), KIND_OF[name]))
                    return orig(self, individual, *a, **kw)

                wrapper.__name__ = orig.__name__
                wrapper.__wrapped__ = orig
                return wrapper

            setattr(Mutations, name, make())
        Mutations._vf_wrapped = True


OBS_FOR = {"NeuralUCB": ["vector", "image", "dict"], "NeuralTS": ["vector", "image", "dict"]}


def cases(tier, seed):
    from vf import agentops, zoo

    rng = np.random.default_rng(2100 + seed)
    out = []
    seeds_per = 1 if tier == "quick" else 12
    for algo in zoo.ALL:
        kinds = OBS_FOR.get(algo, zoo.OBS_KINDS)
        probs_list = [[1.0 if i == k else 0.0 for i in range(5)] for k in range(5)] + [[0.2] * 5]
        for pi, probs in enumerate(probs_list):
            for s in range(seeds_per):
                ok = kinds[(pi + s + zoo.ALL.index(algo)) % len(kinds)]
                c = {
                    "algo": algo,
                    "obs": ok,
                    "probs": probs if s % 3 != 2 else [float(x) for x in rng.dirichlet(np.ones(5))],
                    "pre": bool((pi + s) % 4 == 0),
                    "pop": int(rng.integers(2, 4)),
                    "gens": int(rng.integers(1, 3 if tier == "quick" else 7)),
                    "select": bool(rng.random() < 0.5),
                    "learn_between": bool(rng.random() < 0.6),
                    "seed": int(rng.integers(1 << 30)),
                    # Mutations(mutate_elite=False): the first member is protected from mutation, everything the
                    # statement says about "every agent" still has to hold for it
                    "mutate_elite": bool((pi + s + zoo.ALL.index(algo)) % 3 != 1),
                    "wrapped": bool((pi + 2 * s + zoo.ALL.index(algo)) % 4 == 3),
                }
                if probs[1] > 0 and (pi + s + zoo.ALL.index(algo)) % 2 == 0:
                    # heads that sit AT their layer limits: layer mutations are stopped by the bound and fall back to node
                    # mutations, whose (random) arguments have to reach every network trained alongside the policy
                    c["tight_head"] = True
                if algo in zoo.HAS_SHARE_ENCODERS:
                    c["share_encoders"] = bool((pi + s) % 2)
                if probs[4] > 0:
                    c["lr_only_hp"] = bool((pi + s + zoo.ALL.index(algo)) % 2 == 0) or probs[4] == 1.0
                out.append(c)
                if probs[4] == 1.0 and algo in zoo.HAS_SHARE_ENCODERS | {"IPPO", "MATD3"}:
                    # learners with several networks / groups per learning rate: one more lr-only case with learning first
                    out.append(dict(c, seed=c["seed"] + 1, learn_between=True, gens=max(2, c["gens"]), share_encoders=not c.get("share_encoders", False)) if algo in zoo.HAS_SHARE_ENCODERS else dict(c, seed=c["seed"] + 1, learn_between=True, gens=max(2, c["gens"])))
    # directed: learners with several trained networks, heads at their layer limit, architecture mutations only
    for algo in zoo.ALL:
        if algo in zoo.HAS_SHARE_ENCODERS | {"IPPO", "MADDPG", "MATD3"}:
            for rep in range(1 if tier == "quick" else 6):
                c = {"algo": algo, "obs": "vector", "probs": [0.0, 1.0, 0.0, 0.0, 0.0], "pre": False, "pop": 3, "gens": 3,
                     "select": bool(rep % 2), "learn_between": bool(rep % 2), "seed": int(rng.integers(1 << 30)),
                     "mutate_elite": True, "tight_head": True}
                if algo in zoo.HAS_SHARE_ENCODERS:
                    c["share_encoders"] = bool(rep % 2)
                out.append(c)
    return out


def _flat(d, prefix=""):
    out = {}
    if isinstance(d, dict):
        for k, v in d.items():
            out.update(_flat(v, f"{prefix}{k}."))
    elif hasattr(d, "__dataclass_fields__"):
        for k in d.__dataclass_fields__:
            out.update(_flat(getattr(d, k), f"{prefix}{k}."))
    else:
        from vf.walk import _norm

        out[prefix[:-1]] = repr(_norm(d))
    return out


def _component(method: str) -> str:
    if method is None:
        return ""
    if method.startswith("encoder."):
        return "encoder_config"
    if method.startswith("head_net."):
        return "head_config"
    if "latent" in method:
        return "latent_dim"
    return ""


def _nets(agent, name):
    import torch.nn as nn

    v = getattr(agent, name)
    if isinstance(v, list):
        return [(f"{name}[{i}]", m) for i, m in enumerate(v)]
    return [(name, v)] if isinstance(v, nn.Module) else []


def _snapshot(agent):
    from vf import zoo

    a = zoo.unwrap(agent)
    snap = {"index": a.index, "init": {}, "methods": {}, "hp": {}, "policy": a.registry.policy}
    for g in a.registry.groups:
        for nm, net in _nets(a, g.eval):
            snap["init"][nm] = _flat(net.init_dict)
            snap["methods"][nm] = list(getattr(net, "mutation_methods", []))
    if a.registry.hp_config:
        for n in a.registry.hp_config.names():
            snap["hp"][n] = getattr(a, n)
    return snap


def _check_agent(agent, pre, kind, case, rec, gen):
    import torch

    from vf import agentops, walk, zoo

    a = zoo.unwrap(agent)
    algo = case["algo"]
    site = "Mutations.mutation"
    ctx = dict(algo=algo, applied_kind=kind, label=a.mut, obs=case["obs"], share_encoders=case.get("share_encoders"), gen=gen)
    rec.hit("agents_checked")

    # ---- (a)/(b) optimizers
    for cfg in a.registry.optimizers:
        ow = getattr(a, cfg.name)
        opts = ow.optimizer if isinstance(ow.optimizer, list) else [ow.optimizer]
        net_sets = []
        if cfg.multiagent:
            nets = getattr(a, cfg.networks[0])
            for n in nets:
                net_sets.append([n] if not isinstance(n, list) else n)
        else:
            net_sets.append([getattr(a, n) for n in cfg.networks])
        if len(opts) != len(net_sets):
            rec.violate("optimizer_params", "number_of_optimizers_differs_from_networks", site, optimizer=cfg.name, **ctx)
            continue
        for oi, (opt, nets) in enumerate(zip(opts, net_sets)):
            rec.hit("optimizer_param_checks")
            have = sorted(id(p) for g in opt.param_groups for p in g["params"])
            want = sorted(id(p) for n in nets for p in n.parameters())
            if have != want:
                stale = len(set(have) - set(want))
                missing = len(set(want) - set(have))
                rec.violate(
                    "optimizer_params",
                    "optimizer_does_not_hold_the_current_parameters",
                    site,
                    optimizer=f"{cfg.name}[{oi}]",
                    stale=stale,
                    missing=missing,
                    **ctx,
                )
            # which attribute the optimizer has to follow is decided from WHAT it trains (critics: lr_critic, actors:
            # lr_actor, single-rate learners: lr), not from the wrapper's own bookkeeping of the name
            from vf.props.c06 import _expected_lr_attr

            lr_attr = _expected_lr_attr(agent, cfg)
            if lr_attr != cfg.lr:
                rec.violate("optimizer_lr", "optimizer_registered_under_another_learning_rate_than_the_one_of_its_networks", site,
                            optimizer=f"{cfg.name}[{oi}]", registered=cfg.lr, expected=lr_attr, **ctx)
            want_lr = getattr(a, lr_attr)
            for g in opt.param_groups:
                rec.hit("optimizer_lr_checks")
                if abs(float(g["lr"]) - float(want_lr)) > 1e-12 * max(1.0, abs(float(want_lr))):
                    rec.violate("optimizer_lr", "group_lr_differs_from_agent_lr", site, optimizer=f"{cfg.name}[{oi}]", lr_name=cfg.lr, group_lr=g["lr"], agent_lr=want_lr, **ctx)
                    break

    # ---- (c) shared / target networks
    for g in a.registry.groups:
        if g.shared is None:
            continue
        for sname in g.shared if isinstance(g.shared, list) else [g.shared]:
            for (en, em), (tn, tm) in zip(_nets(a, g.eval), _nets(a, sname)):
                rec.hit("shared_network_checks")
                if _flat(em.init_dict) != _flat(tm.init_dict):
                    d = {k: (v, _flat(tm.init_dict).get(k)) for k, v in _flat(em.init_dict).items() if _flat(tm.init_dict).get(k) != v}
                    rec.violate("shared_network", "architecture_differs_from_eval_network", site, eval=en, shared=tn, diff=dict(list(d.items())[:4]), **ctx)
                    continue
                le, lt = walk.module_leaves(em), walk.module_leaves(tm)
                for pn, _ in em.named_parameters():
                    if pn not in lt or lt[pn].shape != le[pn].shape or not torch.equal(lt[pn].detach(), le[pn].detach()):
                        rec.violate("shared_network", "weights_differ_from_eval_network_right_after_mutation", site, eval=en, shared=tn, leaf=pn, **ctx)
                        break

    # ---- (c') shared-encoder copies (share_encoders=True): the hook re-pins them at every mutation, so right after
    # the mutation every network whose encoder holds pinned (non-parameter) tensors shadows the policy's encoder
    if getattr(a, "share_encoders", False):
        pol_net = dict(_nets(a, pre["policy"])).get(pre["policy"])
        if pol_net is not None and hasattr(pol_net, "encoder"):
            pe = walk.module_leaves(pol_net.encoder)
            pnames = [n for n, _ in pol_net.encoder.named_parameters()]
            for attr, v in vars(a).items():
                for nm, net in _nets(a, attr) if not attr.startswith("_") else []:
                    if net is pol_net or not hasattr(net, "encoder"):
                        continue
                    if any(True for _ in net.encoder.parameters()):
                        continue  # owns its encoder (actor target): compared as a registry shared network
                    rec.hit("shared_encoder_checks")
                    le = walk.module_leaves(net.encoder)
                    for pn in pnames:
                        if pn not in le or le[pn].shape != pe[pn].shape or not torch.equal(le[pn].detach(), pe[pn].detach()):
                            rec.violate("shared_encoder", "pinned_encoder_differs_from_policy_encoder_right_after_mutation", site, network=nm, leaf=pn, **ctx)
                            break

    # ---- (d) architecture sync
    if kind == "arch" and a.mut not in (None, "None"):
        comp = _component(a.mut)
        pol = a.registry.policy
        pol_names = [nm for nm, _ in _nets(a, pol)]
        for g in a.registry.groups:
            if g.eval == pol:
                continue
            for j, (nm, net) in enumerate(_nets(a, g.eval)):
                pn = pol_names[min(j, len(pol_names) - 1)]
                rec.hit("architecture_sync_checks")
                before_o, before_p = pre["init"].get(nm, {}), pre["init"].get(pn, {})
                after_o = _flat(net.init_dict)
                after_p = _flat(dict(_nets(a, pol))[pn].init_dict)
                sel = lambda d: {k: v for k, v in d.items() if comp and (k == comp or k.startswith(comp + "."))}  # noqa: E731
                if not comp or sel(before_o) != sel(before_p):
                    rec.hit("architecture_sync_not_comparable")
                    continue
                if a.mut not in pre["methods"].get(nm, []):
                    rec.hit("architecture_sync_method_not_advertised")
                    continue
                if sel(after_o) != sel(after_p):
                    d = {k: (sel(after_p).get(k), v) for k, v in sel(after_o).items() if sel(after_p).get(k) != v}
                    rec.violate(
                        "architecture_sync",
                        "network_trained_alongside_policy_did_not_follow_its_architecture_change",
                        site,
                        network=nm,
                        method=a.mut,
                        policy_vs_network=dict(list(d.items())[:4]),
                        policy_changed=sel(before_p) != sel(after_p),
                        **ctx,
                    )

    # ---- (g) label
    rec.hit("label_checks")
    hp_names = list(pre["hp"].keys())
    pol_methods = pre["methods"].get(pre["policy"], []) or next(iter(pre["methods"].values()), [])
    pol_methods = set(pol_methods) | {m for k, v in pre["methods"].items() if k.startswith(str(pre["policy"])) for m in v}
    allowed = {
        "none": {"None"},
        "arch": {"None"} | pol_methods,
        "param": {"param"},
        "act": {"act", "None"},
        "rl_hp": set(hp_names) | {"None"},
    }.get(kind, set())
    if kind == "arch" and a.mut is None:
        # the sampled method left no trace (last_mutation_attr is None): accepted as "no mutation received" only if the
        # policy's architecture is indeed unchanged (whether an advertised method may silently do nothing is C03's subject)
        pol_after = {nm: _flat(net.init_dict) for nm, net in _nets(a, pre["policy"])}
        if all(pre["init"].get(nm) == v for nm, v in pol_after.items()):
            rec.hit("arch_mutation_left_no_trace_and_no_change(info)")
            allowed = allowed | {None}
    if kind is None:
        rec.violate("population", "no_mutation_method_was_called_for_agent", site, **ctx)
    elif a.mut not in allowed:
        rec.violate("population", "reported_mutation_not_producible_by_applied_kind", site, allowed=sorted(map(str, allowed))[:12], **ctx)

    # ---- (e) can act
    try:
        obs = zoo.probe_obs(agent, 3, seed=case["seed"] % 7919)
        act = zoo.greedy_action(agent, copy.deepcopy(obs))
        rec.hit("act_probes")
        _check_action(a, act, rec, ctx)
    except CaseTimeout:
        raise
    except Exception as e:
        rec.crash(e, "can_act", "get_action after mutation", **ctx)

    # ---- (f) learn moves all trained networks
    try:
        trained = []
        for cfg in a.registry.optimizers:
            for n in cfg.networks:
                trained.extend(_nets(a, n))
        before = {nm: [p.detach().clone() for p in net.parameters()] for nm, net in trained}
        steps = int(getattr(a, "policy_freq", 1) or 1)
        for i in range(steps):
            zoo.learn(agent, batch_seed=case["seed"] % 4999 + i)
        rec.hit("learn_probes")
        after_nets = []
        for cfg in a.registry.optimizers:
            for n in cfg.networks:
                after_nets.extend(_nets(a, n))
        for (nm, net) in after_nets:
            ps = list(net.parameters())
            b = before.get(nm)
            if b is None or len(b) != len(ps):
                continue
            if ps and all(torch.equal(x.detach(), y) for x, y in zip(ps, b)):
                rec.violate("learn_moves", "learn_step_left_all_parameters_of_a_trained_network_unchanged", "learn after mutation", network=nm, **ctx)
    except CaseTimeout:
        raise
    except Exception as e:
        rec.crash(e, "learn_moves", "learn after mutation", **ctx)


def _check_action(a, act, rec, ctx):
    """Light legality check (C14 decides legality in depth): finite numbers, discrete indices in range."""
    from gymnasium import spaces

    def chk(x, space, who):
        x = np.asarray(x)
        if not np.all(np.isfinite(x.astype(np.float64))):
            rec.violate("can_act", "non_finite_action", "get_action after mutation", who=who, **ctx)
        if isinstance(space, spaces.Discrete) and x.size and (x.min() < 0 or x.max() >= space.n):
            rec.violate("can_act", "discrete_action_out_of_range", "get_action after mutation", who=who, **ctx)

    name = type(a).__name__
    if name in ("DQN", "CQN", "RainbowDQN", "DDPG", "TD3"):
        chk(act, a.action_space, name)
    elif name in ("NeuralUCB", "NeuralTS"):
        chk(act[0], a.action_space, name)
    elif name == "PPO":
        chk(act[0], a.action_space, name)
    elif name in ("MADDPG", "MATD3"):
        cont, disc = act
        for aid in a.agent_ids:
            chk(cont[aid], spaces.Box(-np.inf, np.inf, np.asarray(cont[aid]).shape), aid)
    elif name == "IPPO":
        for aid in a.agent_ids:
            chk(act[0][aid], a.action_space[aid], aid)


def run_case(case):
    from agilerl.hpo.tournament import TournamentSelection

    from vf import agentops, zoo

    rec = Recorder()
    algo = case["algo"]
    kw = {}
    if "share_encoders" in case:
        kw["share_encoders"] = case["share_encoders"]
    if case["seed"] % 4 == 1 and algo in ("DDPG", "TD3", "MADDPG", "MATD3"):
        # equal in value, separate float objects (as after parsing a configuration file)
        kw.update(lr_actor=float("0.001"), lr_critic=float("1e-3"))
    if case.get("tight_head"):
        kw["net_config"] = {"head_config": {"hidden_size": [16, 16], "min_hidden_layers": 1, "max_hidden_layers": 2,
                                            "min_mlp_nodes": 8, "max_mlp_nodes": 64}}
    agentops.seed_all(case["seed"])
    try:
        shared_cfg = zoo.tiny_hp_config(algo)
        if case.get("lr_only_hp"):
            # only learning rates are configured, so every rl_hp mutation is a learning-rate mutation
            from agilerl.algorithms.core.registry import HyperparameterConfig

            shared_cfg = HyperparameterConfig(**{k: v for k, v in shared_cfg.config.items() if k.startswith("lr")})
        if algo in zoo.MULTI and case["seed"] % 2:
            kw["agent_ids"] = ["agent_0", "other_0", "agent_1"]  # groups interleaved
        pop = [zoo.make_agent(algo, case["obs"], index=i, hp_config=shared_cfg, **kw) for i in range(case["pop"])]
        if case.get("wrapped") and algo in ("DQN", "RainbowDQN", "CQN", "DDPG", "TD3") and case["obs"] in ("vector", "image"):
            # a population of AgentWrapper-wrapped agents (observation normalisation): selection and mutation then go
            # through the wrapper's clone() / attribute forwarding. Only the off-policy learners on vector / image
            # observations: RSNorm.learn() takes replay-buffer experiences (it cannot take PPO rollouts or bandit batches and
            # does not normalise Tuple observations) - limits of the wrapper, not of mutations
            from agilerl.wrappers.agent import RSNorm

            pop = [RSNorm(a) for a in pop]
            rec.hit("wrapped_populations")
    except CaseTimeout:
        raise
    except Exception as e:
        rec.hit("setup_failed")
        rec.extra["setup_failed"] = f"{type(e).__name__}: {str(e)[:140]}"
        return rec.result()
    m = agentops.make_mutations(probs=case["probs"], seed=case["seed"] % 100000, mutate_elite=bool(case.get("mutate_elite", True)),
                                **({"new_layer_prob": 0.7} if case.get("tight_head") else {}),
                                **({"activation_selection": ["Tanh", "Sigmoid", "GELU"], "mutation_sd": 0.3} if case["seed"] % 3 == 0 else {}))
    real_applied = False
    learned = False
    for gen in range(case["gens"]):
        try:
            if case["learn_between"]:
                for ag in pop:
                    zoo.learn(ag, batch_seed=case["seed"] % 1009 + gen)
            if case["select"]:
                for i, ag in enumerate(pop):
                    zoo.unwrap(ag).fitness.append(float((i * 3 + gen) % 5))
                _, pop = TournamentSelection(2, True, len(pop), 1).select(pop)
        except CaseTimeout:
            raise
        except Exception as e:
            rec.hit("between_generation_failed")
            rec.extra["between_generation_failed"] = f"{type(e).__name__}: {str(e)[:140]}"
            break
        pre = [_snapshot(ag) for ag in pop]
        ids = [id(ag) for ag in pop]
        _REC["log"] = []
        _REC["on"] = True
        agentops.seed_all(case["seed"] + gen)
        try:
            try:
                new_pop = m.mutation(pop, pre_training_mut=case["pre"] and gen == 0)
            finally:
                _REC["on"] = False
        except CaseTimeout:
            raise
        except Exception as e:
            kinds = [k for _, k in _REC["log"]]
            rec.crash(
                e,
                "mutation_raises",
                "Mutations.mutation",
                algo=algo,
                obs=case["obs"],
                applied_kind=(kinds[-1] if kinds else None),
                share_encoders=case.get("share_encoders"),
                gen=gen,
            )
            rec.nontrivial = True
            return rec.result()
        rec.hit("mutation_calls")
        applied = dict(_REC["log"])
        if len(new_pop) != len(pop):
            rec.violate("population", "population_size_changed", "Mutations.mutation", got=len(new_pop), want=len(pop), algo=algo)
            return rec.result()
        if [zoo.unwrap(x).index for x in new_pop] != [p["index"] for p in pre]:
            rec.violate("population", "population_order_or_indices_changed", "Mutations.mutation", got=[zoo.unwrap(x).index for x in new_pop], want=[p["index"] for p in pre], algo=algo)
        for k, ag in enumerate(new_pop):
            kind = applied.get(ids[k], applied.get(id(ag)))
            _check_agent(ag, pre[k], kind, case, rec, gen)
            if zoo.unwrap(ag).mut not in (None, "None"):
                real_applied = True
        learned = rec.counters.get("learn_probes", 0) > 0
        pop = list(new_pop)
    rec.nontrivial = real_applied and learned
    return rec.result()
