"""C04 - mutations reuse learned weights; an unchanged architecture computes the same; clone reproduces outputs.

Rides on the C03 walk generator (vf/refmodels/archwalk.py): every edge is ``child = parent.clone()``, a method
picked from the child's advertised methods, ``getattr(child, name)(**args)``.  Before the method runs every
parameter of the child - also LayerNorm / BatchNorm scale and shift - and every running statistic is given a
random value, so that a freshly initialised tensor (exactly 1 / 0 for norm layers) can never pass for a
preserved one.  Monitors:

  weights_preserved   named_parameters() before/after: every name present on both sides is equal on the common
                      index box in ALL dimensions (the statement).  Witnesses are split by mechanism: parameters
                      of normalisation layers, convolution kernels whose spatial size changed, everything else.
  same_function       the edge left the constructor description unchanged => child(x) is bit-identical to what it
                      was before the call, in eval mode and in train mode (noise re-seeded, buffers protected)
  clone_outputs       parent.clone()(x) is bit-identical to parent(x) (both modes)
  reinit_from_mutated Mutations.reinit_from_mutated(child) (single and list form): the re-created shared network
                      has the leaves (parameters, buffers) and the outputs of the mutated evaluation network
"""

from __future__ import annotations

import numpy as np

from vf.core import Recorder, crash_witness, witness
from vf.refmodels.archwalk import MODULE_SUBJECTS, bfs_subjects, network_subjects

PROPERTY = "C04"
LEVEL = "exploration"
RULE = (
    "same clone-and-mutate edges as C03 (bfs over small-bound architecture graphs with every numpy draw "
    "enumerated and every explicit argument choice; seeded walks with default bounds over all building blocks "
    "and networks x observation spaces). Before each mutation all parameters and running statistics of the "
    "clone are randomised. A case is non-trivial when at least one edge changed the shape of a parameter that "
    "exists before and after (so the common-index-box comparison is not an identity check) AND at least one "
    "edge left the architecture unchanged (same-function clause) AND clone outputs were compared; distinct = "
    "distinct case descriptions"
    " Added: 12 % of the walk edges first call a method of the clone's nested modules (or of a plain module) with arguments it rejects (keyword of another module type / layer index that does not exist); only if the call raised and left the description unchanged does the real mutation follow on the same object"
)
ASSUMPTIONS = [
    "verdict on pattern A only (clone, then exactly one advertised method on the fresh clone); pattern B "
    "observations are informational",
    "'weight' = entry of named_parameters(); buffers (BatchNorm running statistics, NoisyLinear noise) are not "
    "weights for the preservation clause, but they are part of the function for the same-function and clone clauses",
    "common index range = [0, min(old, new)) in every dimension of same-named tensors (literal reading of the "
    "statement; no semantic re-alignment of LSTM gate blocks or flattened convolution features is demanded)",
    "bitwise equality of outputs is demanded only where both sides run the same arithmetic on tensors of the same "
    "shape (no-op mutation, clone, re-created shared network); NoisyLinear noise and action sampling are re-seeded "
    "identically on both sides; dropout is 0 in all subjects",
    "edges on which the advertised method raised or clone() raised are C03's business and are skipped here, "
    "unless the exception comes out of the weight-copy functions (preserve_parameters / shrink_preserve_parameters)",
]
REQUIRED_COUNTERS = ["edges", "params_compared", "resized_params_compared", "noop_output_checks", "clone_output_checks", "reinit_checks"]
CASE_TIMEOUT_S = 3600  # generous watchdog: the exhaustive graphs are single cases (30-100 s CPU each)

_MUT = {}


def preload():
    import torch  # noqa
    import gymnasium  # noqa
    import agilerl.modules  # noqa
    import agilerl.networks.actors  # noqa
    import agilerl.networks.q_networks  # noqa
    import agilerl.networks.value_networks  # noqa
    import agilerl.hpo.mutation  # noqa  (Mutations.reinit_from_mutated)
    from vf.core import quiet_torch

    quiet_torch()


def cases(tier, seed):
    rng = np.random.default_rng(4000 + seed)
    out = []
    for sub in bfs_subjects(tier):
        out.append({"mode": "bfs", "subject": sub, "max_states": 3000 if tier == "quick" else 6000})
    steps_mod = 30 if tier == "quick" else 300
    steps_net = 30 if tier == "quick" else 200
    reps = 1 if tier == "quick" else 6
    for r in range(reps):
        for sub in MODULE_SUBJECTS:
            heavy = sub["kind"] in ("CNN2d", "CNN3d", "ResNet", "MultiInput")
            out.append({"mode": "walk", "subject": sub, "steps": (steps_mod // 2 if heavy and tier != "quick" else steps_mod),
                        "seed": int(rng.integers(1 << 30))})
        for sub in network_subjects():
            heavy = sub.get("obs") in ("image", "dict", "tuple", "resnet", "image_cfg")
            out.append({"mode": "walk", "subject": sub, "steps": (steps_net // 2 if heavy else steps_net),
                        "seed": int(rng.integers(1 << 30))})
    return out


# ------------------------------------------------------------------ sink (pattern A verdict / B info)
class Sink:
    def __init__(self, rec: Recorder, verdict: bool):
        self.rec, self.verdict = rec, verdict

    def hit(self, name, n=1):
        self.rec.hit(name if self.verdict else name + "(patternB)", n)

    def violate(self, monitor, kind, site, **detail):
        if self.verdict:
            self.rec.violate(monitor, kind, site, **detail)
        else:
            self._info(witness(monitor, kind, site, **detail))

    def crash(self, exc, monitor, where, **detail):
        from vf.refmodels.archwalk import reraise_watchdog

        reraise_watchdog(exc)
        if self.verdict:
            self.rec.crash(exc, monitor, where, **detail)
        else:
            self._info(crash_witness(exc, monitor, where, **detail))

    def _info(self, w):
        self.rec.hit("patternB_observations(info)")
        lst = self.rec.extra.setdefault("pattern_B", [])
        sig = (w["monitor"], w["kind"], w["site"])
        if len(lst) < 6 and all((x["monitor"], x["kind"], x["site"]) != sig for x in lst):
            lst.append(w)


NORM_TYPES = ("LayerNorm", "BatchNorm1d", "BatchNorm2d", "BatchNorm3d", "GroupNorm", "InstanceNorm2d", "InstanceNorm3d")
CONV_TYPES = ("Conv1d", "Conv2d", "Conv3d")


# ------------------------------------------------------------------ snapshot taken before the mutation
def make_prepare(subject, state):
    from vf.refmodels import archwalk as aw

    def prepare(child):
        state["n"] += 1
        seed = state["seed"] + 7919 * state["n"]
        aw.randomise(child, seed)
        if state["n"] % 4 == 0:
            # a user may hold part of a (pre-trained) network fixed: frozen tensors are weights like any other and have to be
            # carried over by the re-creation as well
            import torch.nn as nn

            ps = list(nn.Module.parameters(child))
            for j, prm in enumerate(ps):
                if (j + state["n"]) % 3 == 0:
                    prm.requires_grad_(False)
            state["frozen_edges"] = state.get("frozen_edges", 0) + 1
        x = subject.batch(3, seed % 100003)
        snap = {
            "params": {k: v.detach().clone() for k, v in aw.named_params(child).items()},
            "buffers": {k: v.detach().clone() for k, v in aw.leaves(child).items()},
            "x": x,
            "seed": seed,
        }
        try:
            snap["eval"] = aw.forward(subject, child, x, train=False)
            snap["train"] = aw.forward(subject, child, x, train=True)
        except Exception as exc:  # C03 reports forward failures; here the comparison is impossible
            aw.reraise_watchdog(exc)
            snap["fwd_exc"] = exc
        return snap

    return prepare


# ------------------------------------------------------------------ monitors
def monitor_weights(sink: Sink, e, tally):
    import torch
    from vf.refmodels import archwalk as aw

    post = aw.named_params(e.child)
    owners = aw.param_owner_types(e.child)
    pre = e.snap["params"]
    site = aw.site_of(e, e.applied or e.called)
    common = [k for k in pre if k in post]
    sink.hit("weight_edges")
    sink.hit("params_compared", len(common))
    sink.hit("params_only_before", len(pre) - len(common))
    sink.hit("params_only_after", len(post) - len(common))
    for k in common:
        a, b = pre[k], post[k].detach()
        if a.dim() != b.dim():
            sink.violate("weights_preserved", "number_of_dimensions_changed", site, param=k, pre=list(a.shape), post=list(b.shape), **e.describe())
            continue
        resized = tuple(a.shape) != tuple(b.shape)
        if resized:
            sink.hit("resized_params_compared")
            tally["resized"] = tally.get("resized", 0) + 1
        box = tuple(slice(0, min(o, n)) for o, n in zip(a.shape, b.shape))
        sa, sb = a[box], b[box]
        if aw.same_bits(sa.contiguous(), sb.contiguous()):
            continue
        ndiff = int((sa != sb).sum())
        owner = owners.get(k, "?")
        detail = dict(param=k, owner=owner, pre_shape=list(a.shape), post_shape=list(b.shape), differing=ndiff,
                      box_elements=int(sa.numel()), pre_head=sa.reshape(-1)[:4], post_head=sb.reshape(-1)[:4])
        if owner in NORM_TYPES:
            # site = the layer class: the mechanism is "scale/shift of this kind of layer is not carried over",
            # whichever method triggered the re-creation (the method is in the detail)
            kind = "norm_scale_shift_not_preserved_on_resize" if resized else "norm_scale_shift_changed_without_resize"
            sink.violate("weights_preserved_norm", kind, owner, method=site, **detail, **e.describe())
        elif owner in CONV_TYPES and a.dim() >= 3 and tuple(a.shape[2:]) != tuple(b.shape[2:]):
            # the code documents that only part is kept when kernels change: own monitor, to be classified
            first = (slice(None), slice(None)) + tuple(slice(0, 1) for _ in a.shape[2:])
            outer_ok = aw.same_bits(sa[first].contiguous(), sb[first].contiguous())
            sink.violate("weights_preserved_conv_kernel", "kernel_resized_common_spatial_box_not_preserved", site,
                         first_tap_preserved=outer_ok, **detail, **e.describe())
        else:
            kind = "differs_on_common_index_box" if resized else "same_shape_parameter_changed"
            sink.violate("weights_preserved", kind, site, **detail, **e.describe())


def monitor_same_function(sink: Sink, e, tally):
    from vf.refmodels import archwalk as aw

    if e.pre_flat != e.post_flat or "fwd_exc" in e.snap:
        return
    site = aw.site_of(e, e.applied or e.called)
    tally["noop"] = tally.get("noop", 0) + 1
    for mode in ("eval", "train"):
        sink.hit("noop_output_checks")
        try:
            out = aw.forward(e.subject, e.child, e.snap["x"], train=(mode == "train"))
        except Exception as exc:
            sink.crash(exc, "same_function", f"forward after a mutation that left the architecture unchanged ({mode})", **e.describe())
            return
        if not aw.same_bits(out, e.snap[mode]):
            diag = _diagnose(e)
            if not diag.get("changed_parameters") and diag.get("changed_buffers"):
                # mechanism: running statistics of these layer classes are not carried over
                owners = aw.leaf_owner_types(e.child)
                cause, where = "only_buffers_differ", "+".join(sorted({owners.get(k, "?") for k in diag["changed_buffers"]}))
            else:
                cause, where = "parameters_differ", site
            sink.violate("same_function", f"{mode}_output_differs_after_noop_mutation_{cause}", where, method=site,
                         max_abs_diff=aw.max_abs_diff(out, e.snap[mode]), diagnosis=diag, **e.describe())


def _diagnose(e):
    """Which leaves differ between the pre-snapshot and the child (explains a same-function witness)."""
    from vf.refmodels import archwalk as aw

    try:
        post = aw.leaves(e.child)
        pre_p, pre_all = e.snap["params"], e.snap["buffers"]

        def differs(k, v):
            return k not in post or v.shape != post[k].shape or not aw.same_bits(v, post[k].detach())

        # NoisyLinear noise buffers are re-drawn by design (and re-seeded by the harness before every forward)
        changed = [k for k, v in pre_all.items() if not k.endswith(("weight_epsilon", "bias_epsilon")) and differs(k, v)]
        return {"changed_parameters": [k for k in changed if k in pre_p][:6], "changed_buffers": [k for k in changed if k not in pre_p][:12]}
    except Exception as exc:
        return {"error": repr(exc)[:100]}


def monitor_clone(sink: Sink, subject, parent, child, tally, step_seed):
    from vf.refmodels import archwalk as aw

    x = subject.batch(3, 31 + step_seed % 9973)
    tally["clone"] = tally.get("clone", 0) + 1
    for mode in ("eval", "train"):
        sink.hit("clone_output_checks")
        try:
            a = aw.forward(subject, parent, x, train=(mode == "train"))
        except Exception as exc:
            aw.reraise_watchdog(exc)
            sink.hit("clone_checks_skipped_parent_forward_failed")
            return
        try:
            b = aw.forward(subject, child, x, train=(mode == "train"))
        except Exception as exc:
            sink.crash(exc, "clone_outputs", f"clone()(x) ({mode})", subject=subject.spec)
            return
        if not aw.same_bits(a, b):
            la, lb = aw.leaves(parent), aw.leaves(child)
            bad = [k for k in la if k not in lb or la[k].shape != lb[k].shape or not aw.same_bits(la[k].detach(), lb[k].detach())]
            fields = []
            try:
                fa, fb = aw.flat_state(parent)[0], aw.flat_state(child)[0]
                fields = sorted(k for k in set(fa) | set(fb) if fa.get(k) != fb.get(k))
            except Exception as exc:
                aw.reraise_watchdog(exc)
            if bad:
                kind, site = f"clone_{mode}_output_differs_leaves_differ", type(parent).__name__
            elif fields:
                # same tensors, other constructor description: the clone was built as a different architecture
                kind, site = f"clone_{mode}_output_differs_description_differs", "+".join(f.split(aw.SEP)[-1] for f in fields[:3])
            else:
                kind, site = f"clone_{mode}_output_differs_leaves_and_description_equal", type(parent).__name__
            sink.violate("clone_outputs", kind, site, max_abs_diff=aw.max_abs_diff(a, b), differing_leaves=bad[:6],
                         differing_description={k: [fa.get(k), fb.get(k)] for k in fields[:4]} if fields else {},
                         network=type(parent).__name__, subject=subject.spec)
            return


def monitor_reinit(sink: Sink, e):
    """HPO path: Mutations.reinit_from_mutated re-creates a shared network from the mutated evaluation network."""
    from vf.refmodels import archwalk as aw

    if "mut" not in _MUT:
        from agilerl.hpo.mutation import Mutations

        _MUT["mut"] = Mutations(no_mutation=0, architecture=1, new_layer_prob=0.3, parameters=0, activation=0, rl_hp=0, rand_seed=None)
    mut = _MUT["mut"]
    for form in ("single", "list"):
        sink.hit("reinit_checks")
        try:
            shared = mut.reinit_from_mutated(e.child) if form == "single" else mut.reinit_from_mutated([e.child, e.child])[1]
        except Exception as exc:
            sink.crash(exc, "reinit_from_mutated", f"Mutations.reinit_from_mutated ({form})", **e.describe())
            continue
        la, lb = aw.leaves(e.child), aw.leaves(shared)
        missing = [k for k in la if k not in lb]
        extra = [k for k in lb if k not in la]
        bad = [k for k in la if k in lb and (la[k].shape != lb[k].shape or not aw.same_bits(la[k].detach(), lb[k].detach()))]
        sink.hit("reinit_leaves_compared", len(la))
        if missing or extra or bad:
            sink.violate("reinit_from_mutated", "shared_network_leaves_differ_from_mutated_eval_network", type(e.child).__name__,
                         form=form, missing=missing[:4], extra=extra[:4], differing=bad[:6], **e.describe())
            continue
        if "fwd_exc" not in e.snap:
            try:
                a = aw.forward(e.subject, e.child, e.snap["x"], train=False)
                b = aw.forward(e.subject, shared, e.snap["x"], train=False)
                if not aw.same_bits(a, b):
                    sink.violate("reinit_from_mutated", "shared_network_output_differs", type(e.child).__name__, form=form,
                                 max_abs_diff=aw.max_abs_diff(a, b), **e.describe())
            except Exception as exc:
                aw.reraise_watchdog(exc)
                sink.hit("reinit_forward_skipped")


COPY_FRAMES = ("preserve_parameters", "shrink_preserve_parameters")


def _raised_in_weight_copy(exc) -> bool:
    import traceback

    return any(fr.name in COPY_FRAMES for fr in traceback.extract_tb(exc.__traceback__))


def judge(rec: Recorder, e, verdict: bool, tally):
    from vf.core import CaseTimeout

    sink = Sink(rec, verdict)
    sink.hit("edges")
    for exc in (e.clone_exc, e.call_exc, e.state_exc):
        if isinstance(exc, CaseTimeout):
            raise exc
    if e.call_exc is not None and _raised_in_weight_copy(e.call_exc):
        # the slice-copy machinery itself raised: the learned weights were not carried over
        from vf.refmodels import archwalk as aw

        sink.crash(e.call_exc, "weight_carry_over", aw.site_of(e, e.called), **e.describe())
        return
    if e.clone_exc is not None or e.call_exc is not None or e.state_exc is not None or e.snap is None:
        sink.hit("edges_skipped_exception_is_C03_business")
        return
    if e.pre_flat != e.post_flat:
        tally["changed"] = tally.get("changed", 0) + 1
    monitor_weights(sink, e, tally)
    monitor_same_function(sink, e, tally)
    if verdict:
        monitor_reinit(sink, e)


def run_case(case):
    from vf.refmodels import archwalk as aw

    rec = Recorder()
    subject = aw.Subject(case["subject"])
    tally = {}
    state = {"n": 0, "seed": int(case.get("seed", 12345))}
    prepare = make_prepare(subject, state)
    sinkA = Sink(rec, True)

    def on_edge(e):
        if getattr(e, "rejected", None):
            oc = str(e.rejected.get("outcome"))
            if oc.startswith("raised") and "+" not in oc:
                rec.hit("edges_on_a_module_that_rejected_a_call_before")
            else:
                rec.hit("rejected_call_accepted_or_changed_state(info)")
        judge(rec, e, True, tally)

    def on_edge_b(e):
        judge(rec, e, False, tally)

    cloned = {}  # id(parent) -> [parent (kept alive so that the id stays unique), number of clone checks]

    def on_clone(parent, child):
        ent = cloned.setdefault(id(parent), [parent, 0])
        if ent[1] >= 2:  # the BFS clones every parent once per out-edge; two comparisons per parent suffice
            return
        ent[1] += 1
        monitor_clone(sinkA, subject, parent, child, tally, state["n"])

    def on_state(m, e):
        if e is None:
            aw.randomise(m, state["seed"])  # the root starts "trained" as well

    if case["mode"] == "bfs":
        stats = aw.bfs(subject, on_edge, prepare=prepare, on_clone=on_clone, max_states=case.get("max_states", 3000), on_state=on_state)
        rec.extra["bfs"] = {"subject": case["subject"], **stats}
        rec.hit("bfs_states", stats["states"])
        rec.hit("bfs_edges", stats["edges"])
    else:
        stats = aw.random_walk(subject, case["steps"], case["seed"], on_edge, prepare=prepare, on_clone=on_clone,
                               on_edge_b=on_edge_b, on_state=on_state)
        rec.hit("walk_steps", stats["steps"])
        rec.hit("star_edges_from_initial_configuration", stats["star_edges"])
        rec.hit("walk_distinct_architectures", stats["distinct_states"])
        rec.extra["walk"] = {"methods": stats["methods"], "aborted": stats["aborted"]}
    rec.hit("edges_with_frozen_parameters", int(state.get("frozen_edges", 0)))
    rec.hit("edges_architecture_changed", tally.get("changed", 0))
    rec.hit("edges_architecture_unchanged", tally.get("noop", 0))
    rec.nontrivial = tally.get("resized", 0) > 0 and tally.get("noop", 0) > 0 and tally.get("clone", 0) > 0
    return rec.result()


def finalize(ctx):
    sub = []
    pattern_b = []
    for idx, r in ctx["results"].items():
        ex = r.get("extra") or {}
        if "bfs" in ex:
            b = ex["bfs"]
            sub.append({"subject": b["subject"], "states": b["states"], "edges": b["edges"],
                        "draw_sequences_enumerated": b["draw_sequences"], "complete": not b["truncated"]})
        for w in ex.get("pattern_B", []):
            sig = (w["monitor"], w["kind"], w["site"])
            if all((x["monitor"], x["kind"], x["site"]) != sig for x in pattern_b) and len(pattern_b) < 12:
                pattern_b.append(w)
    return {
        "exhaustive_subspaces": sub,
        "exhaustive": False,  # only the sub-spaces listed above are enumerated completely
        "states": sum(x["states"] for x in sub),
        "transitions": sum(x["edges"] for x in sub),
        "extra_observations": {"pattern_B": pattern_b},
    }
