"""C10 - n-step returns never cross an episode boundary and stay aligned with the 1-step buffer.

History + reference fuser.  A raw stream of transitions is pushed through the
*literal* pairing code of train_off_policy (n_step_memory.add -> memory.add of the
returned 1-step transition).  Every raw transition carries one unique id in every
field (obs = action = id, next_obs = id + 0.5) and an identifiable reward R(id), so
every stored n-step row can be decoded back into "window that starts at step t0 of
environment e".  The oracle is written from the property statement:

  row = (obs, action) of an observed step (t0, e)
        reward   = sum_{i<m} gamma^i * r_{t0+i, e}
        next_obs = next_obs of step t0+m-1, done = done of step t0+m-1
  with m = n, or the number of steps up to and including the first terminal step of
  env e at or after t0, or (freedom granted by the statement for parallel envs) a
  shorter cut that ends at a step where another environment ended.

After every add the whole storage of both buffers is decoded and compared
(slot k of the n-step buffer vs slot k of the 1-step buffer, also after wrap-around),
and paired batches are drawn through agilerl.components.sampler.Sampler exactly as
the training loop does.
"""

from __future__ import annotations

import numpy as np

from vf.core import Recorder

PROPERTY = "C10"
LEVEL = "exploration"
RULE = (
    "exhaustive cases = ALL placements of terminal flags in streams of L steps x E envs (quick: L=7,E=1 and L=5,E=2; "
    "thorough: L=10,E=1 / L=6,E=2 / L=4,E=3; every shorter stream is a prefix because the monitors run after every add) "
    "for every n in 1..3 (thorough 1..4), gamma in {0,.5,.9,1}, capacities that wrap; random cases = seeded streams of "
    "5-60 steps, 1-4 envs, n 1-5, capacity 2-12, per-step terminal probability .08-.8, 1-step buffer uniform or "
    "prioritised; non-trivial = at least one stored n-step row whose raw n-window contained a terminal step (so the cut "
    "decision mattered) AND the k-th rows of both buffers were compared; distinct = distinct case descriptions"
    " Added: every other paired draw is followed by a second draw before the n-step rows of the first batch are gathered; the real train_off_policy workload runs populations of 1-3 agents"
)
ASSUMPTIONS = [
    "transitions are built and paired literally as train_off_policy.py:307-325 does (Transition tensorclass, "
    "unsqueeze(0) for a single non-vectorised env, to_tensordict, batch_size=[num_envs], memory.add(n_step_memory.add(..)))",
    "both buffers have the same capacity (index alignment after wrap-around is only meaningful then) and capacity >= num_envs",
    "the statement does not say WHICH observed steps become window starts (the last n-1 steps of a stream are never "
    "flushed by this code): the oracle only judges rows that are stored",
    "vectorised streams: a window may legitimately be cut at ANY step at which another environment ended (statement: "
    "'may be cut shorter when another environment ends inside it'); the per-environment cut is accepted as well",
    "rewards are compared with a float32 tolerance (1e-5 relative to the sum of |summands|); ids < 2**24 are exact in float32",
    "truncation is not modelled: the buffer only sees the 'done' field, as in train_off_policy",
]
REQUIRED_COUNTERS = ["loop_nstep_rows_checked", "nstep_rows_checked", "alignment_rows_compared", "rows_with_terminal_in_window", "paired_batches_checked"]
CASE_TIMEOUT_S = 1800  # no blocking operation exists in a case; generous because a loaded host stalled 40 ms cases for > 300 s

GAMMAS = [0.0, 0.5, 0.9, 1.0]
SITE_FUSE = "MultiStepReplayBuffer._get_n_step_info"
SITE_PAIR = "train_off_policy.pairing"


def preload():
    import torch  # noqa
    import tensordict  # noqa
    import agilerl.components.replay_buffer  # noqa
    import agilerl.components.data  # noqa
    import agilerl.components.sampler  # noqa
    from vf.core import quiet_torch

    quiet_torch()


# ------------------------------------------------------------------ cases
def _chunks(total, size):
    return [[lo, min(total, lo + size)] for lo in range(0, total, size)]


def cases(tier, seed):
    rng = np.random.default_rng(2000 + seed)
    out = []
    quick = tier == "quick"
    # exhaustive sub-spaces (hostile corners first: terminal in every slot of every window)
    if quick:
        plans = [(7, 1, (1, 2, 3), (2, 3, 5, 12), 64), (5, 2, (1, 2, 3), (2, 3, 7), 128)]
    else:
        plans = [(10, 1, (1, 2, 3, 4), (2, 3, 5, 12), 128), (6, 2, (1, 2, 3, 4), (2, 5, 12), 256), (4, 3, (1, 2, 3, 4), (3, 4, 11), 256)]
    for L, E, ns, caps, chunk in plans:
        for n in ns:
            for gi, gamma in enumerate(GAMMAS):
                for ci, cap in enumerate(caps):
                    for lo, hi in _chunks(1 << (L * E), chunk):
                        out.append(
                            {
                                "kind": "exhaustive",
                                "L": L,
                                "E": E,
                                "n": n,
                                "gamma": gamma,
                                "cap": cap,
                                "patterns": [lo, hi],
                                # single env: alternate between the non-vectorised and the vectorised path
                                "vect": bool(E > 1 or (gi + ci + n) % 2 == 0),
                                "mem": "per" if (gi + ci + n) % 5 == 0 else "uniform",
                            }
                        )
    nrand = 500 if quick else 50000
    for _ in range(nrand):
        E = int(rng.integers(1, 5))
        out.append(
            {
                "kind": "random",
                "E": E,
                "n": int(rng.integers(1, 6)),
                "gamma": GAMMAS[int(rng.integers(4))],
                "cap": int(rng.integers(max(2, E), 13)),
                "T": int(rng.integers(5, 61)),
                "p_done": [0.08, 0.25, 0.5, 0.8][int(rng.integers(4))],
                "sync": bool(rng.random() < 0.15),  # all envs end together at some steps
                "vect": bool(E > 1 or rng.random() < 0.5),
                "mem": "per" if rng.random() < 0.25 else "uniform",
                "seed": int(rng.integers(1 << 30)),
                "extra_flags": [None, None, None, ["terminated"], ["termination", "terminated"]][int(rng.integers(5))],
            }
        )
    # second workload: the real train_off_policy fills and samples both buffers (vf/props/c10_loops.py)
    from vf.props.c10_loops import loop_cases

    loops = loop_cases(tier, seed)
    stride = max(1, len(out) // max(1, len(loops)))
    for i, c in enumerate(loops):
        out.insert(min(len(out), i * stride + i), c)
    return out


# ------------------------------------------------------------------ raw stream
def _reward(i):
    """Identifiable reward of raw transition i (multiples of 1/8 in [1, 13.5]: exact in float32)."""
    return 1.0 + ((i * 37) % 101) / 8.0


def _tid(t, e, E):
    return t * E + e + 1


def _stream_from_pattern(bits, L, E):
    return [[bool((bits >> (t * E + e)) & 1) for e in range(E)] for t in range(L)]


def _stream_random(case):
    rng = np.random.default_rng(case["seed"])
    T, E = case["T"], case["E"]
    d = rng.random((T, E)) < case["p_done"]
    if case.get("sync"):
        for t in range(T):
            if rng.random() < 0.2:
                d[t, :] = True
    # a few forced corners: terminal on the very first step / two consecutive terminals
    if rng.random() < 0.3:
        d[0, int(rng.integers(E))] = True
    if rng.random() < 0.3 and T > 3:
        t = int(rng.integers(0, T - 1))
        e = int(rng.integers(E))
        d[t, e] = d[t + 1, e] = True
    return [[bool(x) for x in row] for row in d]


# ------------------------------------------------------------------ reference fuser (from the statement)
def _allowed_lengths(dones, t0, e, n, t_seen):
    """Window lengths the statement allows for a window starting at (t0, e), given t_seen observed steps."""
    E = len(dones[0])
    m_env = n
    for i in range(n):
        if t0 + i < len(dones) and dones[t0 + i][e]:
            m_env = i + 1
            break
    allowed = []
    if t0 + m_env <= t_seen:
        allowed.append(m_env)
    for i in range(m_env - 1):  # shorter cuts where ANOTHER env ended
        if t0 + i < t_seen and any(dones[t0 + i][o] for o in range(E) if o != e):
            allowed.append(i + 1)
    return m_env, sorted(set(allowed))


def _fuse(dones, t0, e, m, gamma, E, shift=0):
    terms = [(gamma ** (i + shift)) * _reward(_tid(t0 + i, e, E)) for i in range(m)]
    return sum(terms), sum(abs(x) for x in terms), _tid(t0 + m - 1, e, E), bool(dones[t0 + m - 1][e])


def _close(a, b, scale):
    return abs(a - b) <= 1e-5 * scale + 1e-6


# ------------------------------------------------------------------ decoding
def _uniform_col(t, L):
    a = t[:L].reshape(L, -1).numpy().astype(np.float64)
    return a.min(axis=1), a.max(axis=1)


def _decode_storage(buf, rec, where):
    """-> list of dict(obs, action, next, reward, done) per occupied slot (None if storage missing)."""
    L = len(buf)
    if L == 0:
        return []
    st = buf.storage
    if st is None:
        rec.violate("storage", "storage_missing_with_positive_length", where, length=L)
        return None
    cols = {}
    for k in ("obs", "action", "next_obs", "reward", "done"):
        lo, hi = _uniform_col(st[k], L)
        if not np.array_equal(lo, hi):
            rec.violate("row_integrity", "field_not_uniform", where, field=k, row=int(np.nonzero(lo != hi)[0][0]))
        cols[k] = lo
    return [
        {
            "obs": float(cols["obs"][s]),
            "action": float(cols["action"][s]),
            "next": float(cols["next_obs"][s]) - 0.5,
            "reward": float(cols["reward"][s]),
            "done": float(cols["done"][s]),
        }
        for s in range(L)
    ]


# ------------------------------------------------------------------ the monitors
class _Oracle:
    def __init__(self, rec, dones, E, n, gamma, ctx):
        self.rec, self.dones, self.E, self.n, self.gamma, self.ctx = rec, dones, E, n, gamma, ctx
        self.t_seen = 0
        self.saw_terminal_window = False

    def _locate(self, i):
        """id -> (t, e) if it is an observed step."""
        if i != int(i) or i < 1:
            return None
        t, e = divmod(int(i) - 1, self.E)
        if t >= self.t_seen:
            return None
        return t, e

    def check_nstep_row(self, slot, row):
        rec, n, gamma, E, dones = self.rec, self.n, self.gamma, self.E, self.dones
        rec.hit("nstep_rows_checked")
        if row["obs"] != row["action"]:
            rec.violate("nstep_start_pair", "obs_and_action_of_different_steps", SITE_FUSE, slot=slot, row=row, **self.ctx)
            return
        loc = self._locate(row["obs"])
        if loc is None:
            rec.violate("nstep_start_pair", "not_an_observed_obs_action_pair", SITE_FUSE, slot=slot, row=row, **self.ctx)
            return
        t0, e = loc
        m_env, allowed = _allowed_lengths(dones, t0, e, n, self.t_seen)
        win_end = min(t0 + n, len(dones))
        if any(any(dones[t]) for t in range(t0, win_end)):
            rec.hit("rows_with_terminal_in_window")
            self.saw_terminal_window = True
            own = [i for i in range(win_end - t0) if dones[t0 + i][e]]
            if own:
                first = own[0]
                rec.hit("terminal_at_window_start" if first == 0 else ("terminal_at_window_end" if first == n - 1 else "terminal_inside_window"))
                if len(own) > 1:
                    rec.hit("several_terminals_in_window")
            if any(dones[t0 + i][o] for i in range(min(m_env, win_end - t0)) for o in range(E) if o != e):
                rec.hit("other_env_ends_inside_window")
        if not allowed:
            rec.violate("nstep_row", "stored_before_its_window_was_observed", SITE_FUSE, slot=slot, t0=t0, env=e, row=row, **self.ctx)
            return
        expect = {}
        for m in allowed:
            r, scale, nid, d = _fuse(dones, t0, e, m, gamma, E)
            expect[m] = {"reward": r, "next": nid, "done": float(d)}
            if _close(row["reward"], r, scale) and row["next"] == nid and row["done"] == float(d):
                rec.hit("rows_matching_len_%d" % m)
                if m < m_env:
                    rec.hit("rows_cut_by_other_env")
                return
        # ---- no allowed window explains the row: classify by mechanism
        avail = min(n + 1, self.t_seen - t0)
        explained = None
        for m2 in range(1, avail + 1):
            for shift in (0, 1):
                r, scale, nid, d = _fuse(dones, t0, e, m2, gamma, E, shift)
                if _close(row["reward"], r, scale):
                    explained = {
                        "steps_summed": m2,
                        "summed_ids": [_tid(t0 + i, e, E) for i in range(m2)],
                        "discount_exponent_offset": shift,
                        "next_obs_of_id": row["next"],
                        "unique": gamma > 0,
                    }
                    break
            if explained and (gamma > 0):
                break
        detail = dict(
            slot=slot,
            t0=t0,
            env=e,
            start_id=_tid(t0, e, E),
            episode_len_from_start=m_env,
            allowed_lengths=allowed,
            expected=expect,
            got=row,
            reward_explained_as=explained,
            dones_from_start=[list(map(int, dones[t])) for t in range(t0, min(len(dones), t0 + n + 1))],
            **self.ctx,
        )
        # (a) the window STARTS at a terminal step of its own env and was not cut there:
        #     the row is exactly what fusing m' >= 2 steps from t0 gives
        if dones[t0][e] and n >= 2:
            for m2 in range(2, min(n, self.t_seen - t0) + 1):
                r, scale, nid, d = _fuse(dones, t0, e, m2, gamma, E)
                if _close(row["reward"], r, scale) and row["next"] == nid and row["done"] == float(d):
                    rec.violate("nstep_window_start_terminal", "window_starting_at_terminal_step_not_cut", SITE_FUSE, fused_steps=m2, **detail)
                    return
        ref = expect[max(allowed)]
        for m in allowed:
            if expect[m]["next"] == row["next"]:
                ref = expect[m]
        nloc = self._locate(row["next"])
        beyond = nloc is not None and nloc[1] == e and nloc[0] >= t0 + m_env
        if explained is not None and explained["steps_summed"] > m_env and gamma > 0:
            kind = "reward_includes_steps_after_terminal"
        elif beyond:
            kind = "next_obs_taken_after_terminal"
        elif not _close(row["reward"], ref["reward"], abs(ref["reward"]) + 1.0):
            kind = "reward_not_discounted_sum_of_window"
        elif row["next"] != ref["next"]:
            kind = "next_obs_not_of_last_summed_step"
        elif row["done"] != ref["done"]:
            kind = "done_not_of_last_summed_step"
        else:
            kind = "fields_of_different_window_lengths"
        rec.violate("nstep_row", kind, SITE_FUSE, **detail)

    def check_one_step_row(self, slot, row):
        rec = self.rec
        rec.hit("one_step_rows_checked")
        loc = self._locate(row["obs"])
        if loc is None or row["obs"] != row["action"]:
            rec.violate("one_step_row", "not_an_observed_obs_action_pair", SITE_PAIR, slot=slot, row=row, **self.ctx)
            return
        t, e = loc
        i = _tid(t, e, self.E)
        if not (_close(row["reward"], _reward(i), 16.0) and row["next"] == i and row["done"] == float(self.dones[t][e])):
            rec.violate(
                "one_step_row",
                "one_step_row_is_not_the_raw_transition",
                SITE_PAIR,
                slot=slot,
                got=row,
                want={"reward": _reward(i), "next": i, "done": float(self.dones[t][e])},
                **self.ctx,
            )

    def check_alignment(self, nrows, orows):
        rec = self.rec
        rec.hit("alignment_checks")
        if len(nrows) != len(orows):
            rec.violate("alignment", "buffers_hold_different_numbers_of_rows", SITE_PAIR, n_step=len(nrows), one_step=len(orows), **self.ctx)
        for s in range(min(len(nrows), len(orows))):
            rec.hit("alignment_rows_compared")
            a, b = nrows[s], orows[s]
            if (a["obs"], a["action"]) != (b["obs"], b["action"]):
                rec.violate(
                    "alignment",
                    "kth_rows_describe_different_obs_action",
                    SITE_PAIR,
                    slot=s,
                    n_step=[a["obs"], a["action"]],
                    one_step=[b["obs"], b["action"]],
                    **self.ctx,
                )


def _ids_of(td, key):
    t = td[key]
    B = t.shape[0]
    a = t.reshape(B, -1).numpy().astype(np.float64)
    return a[:, 0].tolist()


def _run_stream(rec, dones, E, n, gamma, cap, vect, memkind, seed, ctx, check_every_step=True, extra_flags=None):
    import torch
    from agilerl.components.data import Transition
    from agilerl.components.replay_buffer import MultiStepReplayBuffer, PrioritizedReplayBuffer, ReplayBuffer
    from agilerl.components.sampler import Sampler

    torch.manual_seed(seed)
    num_envs = E
    is_vectorised = vect
    n_step_memory = MultiStepReplayBuffer(max_size=cap, n_step=n, gamma=gamma)
    per = memkind == "per"
    memory = PrioritizedReplayBuffer(max_size=cap, alpha=0.6) if per else ReplayBuffer(max_size=cap)
    sampler = Sampler(memory=memory)
    n_step_sampler = Sampler(memory=n_step_memory)
    orc = _Oracle(rec, dones, E, n, gamma, ctx)
    stored = 0
    T = len(dones)
    for t in range(T):
        ids = np.asarray([_tid(t, e, E) for e in range(E)], dtype=np.float32)
        if is_vectorised:
            state = np.broadcast_to(ids[:, None], (E, 3)).copy()
            action = ids.copy()
            reward = np.asarray([_reward(int(i)) for i in ids], dtype=np.float64)
            next_state = state + np.float32(0.5)
            done = np.asarray(dones[t], dtype=bool)
        else:
            state = np.full((3,), ids[0], dtype=np.float32)
            action = np.float32(ids[0])
            reward = float(_reward(int(ids[0])))
            next_state = state + np.float32(0.5)
            done = np.array([dones[t][0]])
        # ---- literal copy of train_off_policy.py:307-325
        transition = Transition(
            obs=state,
            action=action,
            reward=reward,
            next_obs=next_state,
            done=done,
        )
        if not is_vectorised:
            transition = transition.unsqueeze(0)
        transition = transition.to_tensordict()
        transition.batch_size = [num_envs]
        if extra_flags:
            # gymnasium-style transitions that carry further episode-end fields next to `done`: the documented key
            # order is done, termination, terminated, so `done` (here: terminated OR truncated) still ends the window
            import torch

            sub = torch.as_tensor(np.asarray(done, dtype=bool) & np.asarray([(t + e) % 2 == 0 for e in range(num_envs)])).reshape(
                transition["done"].shape).to(transition["done"].dtype)
            for key in extra_flags:
                transition[key] = sub.clone()
            rec.hit("transitions_with_extra_episode_end_fields")
        if n_step_memory is not None:
            one_step_transition = n_step_memory.add(transition)
            if one_step_transition is not None:
                memory.add(one_step_transition)
                stored += num_envs
        else:
            memory.add(transition)
        # ---- monitors (quiescent point)
        orc.t_seen = t + 1
        if check_every_step or t == T - 1:
            nrows = _decode_storage(n_step_memory, rec, "n_step_memory.storage")
            orows = _decode_storage(memory, rec, "memory.storage")
            if nrows is None or orows is None:
                continue
            for s, row in enumerate(nrows):
                orc.check_nstep_row(s, row)
            for s, row in enumerate(orows):
                orc.check_one_step_row(s, row)
            orc.check_alignment(nrows, orows)
        # ---- paired batches as the training loop draws them
        if len(memory) >= 1 and (t == T - 1 or t % 4 == 3):
            B = min(len(memory), 4)
            if per:
                experiences = sampler.sample(B, 0.4)
            else:
                experiences = sampler.sample(B, return_idx=True)
            a_obs, a_act = _ids_of(experiences, "obs"), _ids_of(experiences, "action")
            if not per and (t // 4) % 2 == 1:
                # double-buffered learner: a second batch is drawn before the n-step rows of the first one are gathered
                # with the indices that were handed out with it (no addition in between, both buffers unchanged)
                sampler.sample(B, return_idx=True)
                rec.hit("paired_batches_gathered_after_a_later_draw")
            n_step_experiences = n_step_sampler.sample(experiences["idxs"])
            rec.hit("paired_batches_checked")
            b_obs, b_act = _ids_of(n_step_experiences, "obs"), _ids_of(n_step_experiences, "action")
            if (a_obs, a_act) != (b_obs, b_act):
                rec.violate(
                    "alignment",
                    "paired_batch_rows_describe_different_obs_action",
                    SITE_PAIR,
                    one_step=[a_obs, a_act],
                    n_step=[b_obs, b_act],
                    idxs=experiences["idxs"].reshape(-1).tolist(),
                    **ctx,
                )
    if stored > cap:
        rec.hit("streams_wrapped_both_buffers")
    return orc.saw_terminal_window


def finalize(ctx):
    """Measured completeness of the enumerated sub-spaces (all terminal placements for fixed L, E, n, gamma, capacity)."""
    spaces = {}
    for idx, case in enumerate(ctx["cases"]):
        if case.get("kind") != "exhaustive":
            continue
        key = "L=%d,E=%d" % (case["L"], case["E"])
        cfg = (case["n"], case["gamma"], case["cap"])
        sp = spaces.setdefault(key, {"patterns_per_config": 1 << (case["L"] * case["E"]), "configs": {}})
        r = ctx["results"].get(idx)
        done = 0
        if r is not None and r.get("status") == "ok":
            done = int(r.get("counters", {}).get("streams", 0))
        sp["configs"][cfg] = sp["configs"].get(cfg, 0) + done
    out = {}
    for key, sp in spaces.items():
        full = sp["patterns_per_config"]
        out[key] = {
            "configs_n_gamma_capacity": len(sp["configs"]),
            "patterns_per_config": full,
            "streams_enumerated": int(sum(sp["configs"].values())),
            "exhaustive": all(v == full for v in sp["configs"].values()),
        }
    c = ctx["counters"]
    if c.get("loop_monitor_errors", 0) > 0:
        ex = []
        for r in ctx["results"].values():
            ex += (r.get("extra") or {}).get("loop_monitor_errors", [])
        ctx["inconclusive"].append(f"loop workload: {int(c['loop_monitor_errors'])} monitor errors: {ex[:2]}")
    return {"exhaustive_subspaces": out} if out else {}


def run_case(case):
    from vf.core import CaseTimeout

    rec = Recorder()
    if case.get("mode") == "loop":
        from vf.props.c10_loops import run_loop_case

        try:
            run_loop_case(case, rec)
        except CaseTimeout:
            raise
        except Exception as e:
            rec.crash(e, "crash", "train_off_policy loop workload (driver)")
            rec.nontrivial = True
        return rec.result()
    E, n, gamma, cap = case["E"], case["n"], case["gamma"], case["cap"]
    saw = False
    try:
        if case["kind"] == "exhaustive":
            L = case["L"]
            lo, hi = case["patterns"]
            for bits in range(lo, hi):
                dones = _stream_from_pattern(bits, L, E)
                ctx = {"n": n, "gamma": gamma, "cap": cap, "envs": E, "pattern_bits": bits, "stream_len": L}
                rec.hit("streams")
                saw = _run_stream(rec, dones, E, n, gamma, cap, case["vect"], case["mem"], bits, ctx) or saw
        else:
            dones = _stream_random(case)
            ctx = {"n": n, "gamma": gamma, "cap": cap, "envs": E, "stream_len": len(dones)}
            rec.hit("streams")
            saw = _run_stream(rec, dones, E, n, gamma, cap, case["vect"], case["mem"], case["seed"], ctx,
                              extra_flags=case.get("extra_flags"))
    except CaseTimeout:
        raise
    except Exception as e:  # a legal stream made the buffers raise
        rec.crash(e, "crash", "n-step stream")
        saw = True
    rec.nontrivial = bool(saw and rec.counters.get("alignment_rows_compared", 0) > 0)
    return rec.result()
