"""C08 - value-based learning uses the Bellman target and really tracks its target net.

Monitors around every real learn() call (pre-state captured with copy.deepcopy of the agent):
  bellman_loss      returned loss vs. a reference written from the statement
                    (y = r + gamma (1-d) V_target(s'), algorithm's documented loss form), computed on the pre-step copy
  terminal_masking  metamorphic: a twin (deep copy of the pre-step agent) learns from the same batch whose next
                    observations are replaced by large random values wherever done=1 -> same loss, same update
  soft_update       every target parameter == tau*online_after + (1-tau)*target_before when an update is due
                    (each step; each policy_freq-th step for DDPG/TD3/MATD3), unchanged otherwise; leaves are
                    enumerated with the module leaf walker so a target that exposes no parameters cannot pass vacuously
"""

from __future__ import annotations

import copy
import os
import shutil
import tempfile

import numpy as np

from vf.core import CaseTimeout, Recorder

PROPERTY = "C08"
LEVEL = "exploration"
RULE = (
    "case = (learner in DQN plain/double, CQN plain/double, RainbowDQN {1-step, n-step, PER, PER+n-step, combined}, DDPG, "
    "TD3, MADDPG, MATD3; observation family; gamma in {0,.5,.99,1}; tau in {1e-3,.3,1}; policy delay 1..3; done pattern "
    "all-0 / all-1 / mixed; 1..6 consecutive learn steps; optionally directly after clone / a mutation kind / checkpoint "
    "load; seed). Every learn step is one evaluation of the three monitors. Non-trivial = mixed done pattern (masking "
    "metamorphic test ran) AND at least one soft update was due AND >= 10 target leaves compared; distinct = distinct cases"
    " Added: every third case hands ONE experiences object to all its learn steps (importance weights of a re-used prioritised batch stay those of its first use); every second multi-agent case rolls the done vector per agent (the masking twin then scrambles only rows in which every agent is done)"
)
ASSUMPTIONS = [
    "DDPG/TD3 reference loss is evaluated with policy_noise=0 (the noise is an input of learn()); the masking twin runs "
    "under the same RNG state so noise is identical on both sides",
    "RainbowDQN's loss form is C18's subject; here only terminal masking and target tracking are decided for it",
    "loss tolerance 1e-4 relative (+1e-6): reference and code run the same float32 arithmetic on different objects",
    "soft-update relation is demanded for parameters (weights); buffers such as batch-norm statistics or noisy-layer "
    "epsilons are not weights in the statement's sense",
    "twin comparison tolerance as in C01 (optimizer moments rel 1e-4, weights 2.1 learning rates)",
    "terminal masking is tested on networks without batch norm (vector / discrete observations, CNNs built with "
    "layer_norm=False): batch norm in training mode couples the rows of a batch through its statistics by design",
]
REQUIRED_COUNTERS = ["learn_steps", "bellman_loss_checks", "soft_update_leaves", "terminal_masking_checks"]
CASE_TIMEOUT_S = 1500


def preload():
    import agilerl.algorithms  # noqa
    import agilerl.hpo.mutation  # noqa
    from vf.core import quiet_torch

    quiet_torch()


VARIANTS = [
    ("DQN", {"double": False}), ("DQN", {"double": True}), ("CQN", {"double": False}), ("CQN", {"double": True}),
    ("RainbowDQN", {"mode": "1step"}), ("RainbowDQN", {"mode": "nstep"}), ("RainbowDQN", {"mode": "per"}),
    ("RainbowDQN", {"mode": "per_nstep"}), ("RainbowDQN", {"mode": "combined"}),
    ("DDPG", {}), ("TD3", {}), ("MADDPG", {}), ("MATD3", {}),
]


def cases(tier, seed):
    rng = np.random.default_rng(8100 + seed)
    out = []
    reps = 6 if tier == "quick" else 120
    afters = ["none", "none", "clone", "mut:arch", "mut:param", "mut:act", "mut:rl_hp", "mut:none", "checkpoint"]
    for algo, var in VARIANTS:
        for r in range(reps):
            c = {
                "algo": algo,
                "var": var,
                "obs": ["vector", "vector", "image", "dict", "discrete", "tuple"][int(rng.integers(6))] if r else "vector",
                "gamma": [0.0, 0.5, 0.99, 1.0][r % 4],
                "tau": [1e-3, 0.3, 1.0][(r // 2) % 3],
                "policy_freq": int(1 + r % 3),
                "done": ["mixed", "mixed", "all0", "all1"][r % 4] if r else "mixed",
                "steps": int(rng.integers(1, 7)),
                "after": afters[int(rng.integers(len(afters)))] if r else "none",
                "op_again_at": int(rng.integers(1, 5)),
                "seed": int(rng.integers(1 << 30)),
            }
            c["rand_w"] = bool(r % 2 == 0 and r > 0) or bool(rng.random() < 0.3)
            # a caller that makes several updates from ONE sampled batch: the same experiences object is handed to every
            # learn step of the case (each step is judged against the values the caller put in)
            c["reuse_batch"] = bool(r % 3 == 1)
            if c["reuse_batch"]:
                c["steps"] = max(2, c["steps"])
            if algo in ("DDPG", "TD3"):
                c["share_encoders"] = bool(r % 2)
                # asymmetric / per-dimension action bounds and target-policy smoothing noise large enough to leave them
                c["act"] = ["box", "box_asym3", "box_asym", "box_asym3"][(r + (algo == "TD3")) % 4]
                c["policy_noise"] = [0.0, 0.2, 0.8][r % 3]
                c["noise_clip"] = [0.5, 1.5][(r // 3) % 2]
            if algo in ("MADDPG", "MATD3"):
                c["act"] = ["box", "box_asym3", "box_asym"][r % 3]
                # agents of one name group interleaved with another group: columns of the joint action / observation have
                # to follow agent_ids, not the grouping
                c["ids"] = [None, ["agent_0", "other_0", "agent_1"], ["bob_1", "alice_0", "bob_0"]][r % 3]
                # agents whose episodes end at different transitions (each agent's target masks with ITS OWN done flag)
                c["per_agent_done"] = bool(r % 2 == 1)
            if c["obs"] == "image":
                c["no_batch_norm"] = bool(rng.random() < 0.7)
            out.append(c)
    # directed: the recorded carrier of the known finding rainbow-clamped-target-mass-depends-on-next-obs (a parameter
    # mutation makes the target network peaked enough for clamp(min=1e-3) to inflate the target mass)
    out.append({"algo": "RainbowDQN", "var": {"mode": "per_nstep"}, "obs": "vector", "gamma": 0.5, "tau": 0.001,
                "policy_freq": 2, "done": "mixed", "steps": 5, "after": "mut:param", "op_again_at": 2,
                "seed": 703024307})
    return out


# ------------------------------------------------------------------ helpers
def _build(case):
    from vf import agentops, zoo

    algo = case["algo"]
    kw = {"gamma": case["gamma"], "tau": case["tau"]}
    kw.update({k: v for k, v in case["var"].items() if k == "double"})
    if algo in ("DDPG", "TD3", "MATD3"):
        kw["policy_freq"] = case["policy_freq"]
    if "share_encoders" in case:
        kw["share_encoders"] = case["share_encoders"]
    if algo == "RainbowDQN":
        kw["n_step"] = 3
        kw["combined_reward"] = case["var"]["mode"] == "combined"
    if case["obs"] == "image" and case.get("no_batch_norm"):
        kw["net_config"] = {
            "encoder_config": {"channel_size": [8], "kernel_size": [3], "stride_size": [1], "layer_norm": False},
        }
    agentops.seed_all(case["seed"])
    if case.get("ids"):
        kw["agent_ids"] = list(case["ids"])
    agent = zoo.make_agent(algo, case["obs"], case.get("act"), hp_config=zoo.tiny_hp_config(algo), **kw)
    if case.get("rand_w"):
        _randomise_online(agent, case["seed"])
    return agent


def _randomise_online(agent, seed):
    """Freshly built networks end in vanishing output layers: targets barely react to their inputs and online == target.
    Every weight matrix of the online AND the target networks is redrawn independently (in place, N(0, 1/sqrt(fan_in))),
    so online and target differ and target values really depend on next observations and next actions."""
    import torch
    import torch.nn as nn

    gen = torch.Generator().manual_seed(int(seed) % (2**31))
    names = []
    for g in agent.registry.groups:
        names.append(g.eval)
        if g.shared is not None:
            names += list(g.shared) if isinstance(g.shared, list) else [g.shared]
    for name in names:
        nets = getattr(agent, name)
        for net in nets if isinstance(nets, list) else [nets]:
            if not isinstance(net, nn.Module):
                continue
            with torch.no_grad():
                # walk the sub-modules' own tables: DQN installs plain tensors (TensorDict.to_module) in its target
                for m in nn.Module.modules(net):
                    for t in m._parameters.values():
                        if t is not None and t.dim() >= 2:
                            fan_in = max(1, int(t[0].numel()))
                            t.data.copy_(torch.randn(t.shape, generator=gen) * (1.0 / fan_in**0.5))


def _apply_after(agent, case, rec):
    from vf import agentops, zoo

    op = case["after"]
    # warm-up so that optimizer moments / lagging targets exist AND at least one soft update has been executed
    # before the operation (delayed learners only update targets every policy_freq-th step)
    for w in range(int(getattr(agent, "policy_freq", 1) or 1)):
        zoo.learn(agent, batch_seed=case["seed"] % 977 + w)
    if op == "none":
        return agent
    if op == "clone":
        return agent.clone()
    if op.startswith("mut:"):
        m = agentops.make_mutations(op.split(":")[1], seed=case["seed"] % 100000)
        agentops.seed_all(case["seed"] + 1)
        return m.mutation([agent])[0]
    if op == "checkpoint":
        d = tempfile.mkdtemp(prefix="vf_c08_")
        try:
            p = os.path.join(d, "a.pt")
            agent.save_checkpoint(p)
            return type(agent).load(p)
        finally:
            shutil.rmtree(d, ignore_errors=True)
    raise ValueError(op)


def _has_batch_norm(agent) -> bool:
    """Batch norm in training mode couples the rows of a batch through the batch statistics: the next observation
    of a done transition then legitimately reaches the other rows' targets.  The masking test needs row-wise nets."""
    import torch.nn as nn

    for v in vars(agent).values():
        mods = v if isinstance(v, list) else [v]
        for m in mods:
            if isinstance(m, nn.Module) and any(isinstance(x, nn.modules.batchnorm._BatchNorm) for x in nn.Module.modules(m)):
                return True
    return False


def _done_vector(kind, n, rng):
    if kind == "all0":
        return np.zeros(n, np.float32)
    if kind == "all1":
        return np.ones(n, np.float32)
    d = (rng.random(n) < 0.5).astype(np.float32)
    d[0], d[-1] = 1.0, 0.0
    return d


def _scramble_next_obs(batch, rng):
    """Copy of the neutral batch with next_obs replaced by large random values where done == 1."""
    b = copy.deepcopy(batch)

    def scr(x, mask):
        if isinstance(x, dict):
            return {k: scr(v, mask) for k, v in x.items()}
        if isinstance(x, tuple):
            return tuple(scr(v, mask) for v in x)
        x = np.array(x, copy=True)
        m = mask.reshape(-1).astype(bool)
        if np.issubdtype(x.dtype, np.integer):
            # discrete observations: another legal category
            hi = int(x.max()) + 1
            x[m] = (x[m] + 1 + rng.integers(0, max(hi, 1), size=x[m].shape)) % max(hi + 1, 2) if hi > 0 else x[m]
            x[m] = np.clip(x[m], 0, max(hi - 1, 0)) if False else x[m] % max(hi, 1)
        else:
            x[m] = (rng.normal(size=x[m].shape) * 50.0 + 100.0).astype(x.dtype)
        return x

    if b["multi"]:
        # centralised critics see every agent's next observation: only rows in which EVERY agent is done may not depend on any
        # next observation (with shared flags this is each agent's own flag)
        all_done = np.min(np.stack([np.asarray(b["done"][aid]).reshape(-1) for aid in b["done"]]), axis=0)
        for aid in b["next_obs"]:
            b["next_obs"][aid] = scr(b["next_obs"][aid], all_done)
    else:
        b["next_obs"] = scr(b["next_obs"], b["done"])
    return b


def _rainbow_extras(exp, n, mode, rng):
    import torch

    if mode in ("per", "per_nstep"):
        exp["weights"] = torch.as_tensor(rng.uniform(0.2, 1.0, size=(n, 1)).astype(np.float32))
    if mode != "1step":
        exp["idxs"] = torch.arange(n).reshape(n, 1)
    return exp


def _do_learn(agent, case, batch, nbatch, wseed, cache=None, extras_seed=None):
    """Calls the real learn() in the algorithm's own format; returns its return value.
    cache: dict that keeps the experiences objects of the first call (the caller re-uses its sampled batch)."""
    from vf import zoo

    algo = case["algo"]
    if cache is not None and "exp" in cache:
        exp = cache["exp"]
    else:
        exp = zoo.as_experiences(agent, batch)
        if cache is not None:
            cache["exp"] = exp
    if algo == "RainbowDQN":
        mode = case["var"]["mode"]
        rng = np.random.default_rng(wseed if extras_seed is None else extras_seed)
        if cache is None or not cache.get("extras"):
            exp = _rainbow_extras(exp, batch["n"], mode, rng)
            if cache is not None:
                cache["extras"] = True
        if cache is not None and "n_exp" in cache:
            n_exp = cache["n_exp"]
        else:
            n_exp = zoo.as_experiences(agent, nbatch) if mode in ("nstep", "per_nstep", "combined") else None
            if cache is not None:
                cache["n_exp"] = n_exp
        if mode == "combined" and "idxs" not in exp.keys():
            import torch

            exp["idxs"] = torch.arange(batch["n"]).reshape(-1, 1)
        return agent.learn(exp, n_experiences=n_exp, per=mode in ("per", "per_nstep"))
    if algo in ("DDPG", "TD3"):
        import torch

        # target-policy smoothing: the noise is the first random draw inside learn(); seeding it here lets the
        # reference replay exactly the same sample
        torch.manual_seed(int(wseed) % (2**31))
        return agent.learn(exp, policy_noise=float(case.get("policy_noise", 0.0)), noise_clip=float(case.get("noise_clip", 0.5)))
    return agent.learn(exp)


def _reference_loss(ref, case, batch, wseed=0):
    """Loss the statement defines, computed on the pre-step copy `ref` (float32, no grad)."""
    import torch
    import torch.nn.functional as F

    from vf import zoo

    algo = case["algo"]
    g = float(case["gamma"])
    with torch.no_grad():
        if algo in ("DQN", "CQN"):
            if algo == "CQN":
                s, a, r, s2, d = zoo.as_experiences(ref, batch)
            else:
                e = zoo.as_experiences(ref, batch)
                s, a, r, s2, d = e["obs"], e["action"], e["reward"], e["next_obs"], e["done"]
            s, s2 = ref.preprocess_observation(s), ref.preprocess_observation(s2)
            qt = ref.actor_target(s2)
            if case["var"].get("double"):
                idx = ref.actor(s2).argmax(dim=1, keepdim=True)
                v = qt.gather(1, idx)
            else:
                v = qt.max(dim=1, keepdim=True)[0]
            y = r + g * (1 - d) * v
            qs = ref.actor(s)
            q = qs.gather(1, a.long())
            mse = F.mse_loss(q, y)
            if algo == "CQN":
                return {"loss": float(0.5 * mse + (torch.logsumexp(qs, dim=1).mean() - qs.mean()))}
            return {"loss": float(mse)}
        if algo in ("DDPG", "TD3"):
            if algo == "TD3":
                s, a, r, s2, d = zoo.as_experiences(ref, batch)
            else:
                e = zoo.as_experiences(ref, batch)
                s, a, r, s2, d = e["obs"], e["action"], e["reward"], e["next_obs"], e["done"]
            s, s2 = ref.preprocess_observation(s), ref.preprocess_observation(s2)
            na = ref.actor_target(s2)
            lo = torch.as_tensor(ref.action_space.low)
            hi = torch.as_tensor(ref.action_space.high)
            pn, nc = float(case.get("policy_noise", 0.0)), float(case.get("noise_clip", 0.5))
            if pn > 0:
                # the smoothing noise learn() draws (same generator state, same shape and dtype as the action batch),
                # clipped to +-noise_clip; the smoothed action is then clipped to the ACTION SPACE [low, high]
                torch.manual_seed(int(wseed) % (2**31))
                noise = torch.empty_like(a).normal_(0, pn)
                na = na + torch.clamp(noise, -nc, nc)
            na = torch.max(torch.min(na, hi), lo)
            if algo == "DDPG":
                y = r + (1 - d) * g * ref.critic_target(s2, na)
                return {"critic_loss": float(F.mse_loss(ref.critic(s, a), y))}
            v = torch.min(ref.critic_target_1(s2, na), ref.critic_target_2(s2, na))
            y = r + (1 - d) * g * v
            return {"critic_loss": float(F.mse_loss(ref.critic_1(s, a), y) + F.mse_loss(ref.critic_2(s, a), y))}
        if algo in ("MADDPG", "MATD3"):
            s, a, r, s2, d = zoo.as_experiences(ref, batch)
            s, s2 = ref.preprocess_observation(s), ref.preprocess_observation(s2)
            na = [ref.actor_targets[i](s2[aid]) for i, aid in enumerate(ref.agent_ids)]
            S, S2 = ref.stack_critic_observations(s), ref.stack_critic_observations(s2)
            A = torch.cat([a[aid] for aid in ref.agent_ids], dim=1)
            A2 = torch.cat(na, dim=1)
            out = {}
            for i, aid in enumerate(ref.agent_ids):
                if algo == "MADDPG":
                    y = r[aid] + (1 - d[aid]) * g * ref.critic_targets[i](S2, A2)
                    out[aid] = float(F.mse_loss(ref.critics[i](S, A), y))
                else:
                    v = torch.min(ref.critic_targets_1[i](S2, A2), ref.critic_targets_2[i](S2, A2))
                    y = r[aid] + (1 - d[aid]) * g * v
                    out[aid] = float(F.mse_loss(ref.critics_1[i](S, A), y) + F.mse_loss(ref.critics_2[i](S, A), y))
            return out
    return None


def _clamped_mass_active(ref, batches) -> bool:
    """True iff, for some done row of some batch variant, the target network's return 'distribution' at the next
    observation does not sum to one (clamp(min=1e-3) active)."""
    import torch

    from vf import zoo

    try:
        with torch.no_grad():
            for b in batches:
                e = zoo.as_experiences(ref, b)
                nxt = ref.preprocess_observation(e["next_obs"])
                dist = ref.actor_target(nxt, q=False)
                mass = dist.sum(dim=-1)
                rows = e["done"].reshape(-1) > 0
                if rows.any() and float((mass[rows] - 1.0).abs().max()) > 1e-6:
                    return True
    except Exception:
        return False
    return False


def _returned_losses(ret, case):
    algo = case["algo"]
    if algo in ("DQN", "CQN"):
        return {"loss": float(ret)}
    if algo in ("DDPG", "TD3"):
        return {"critic_loss": float(ret[1])}
    if algo in ("MADDPG", "MATD3"):
        return {aid: float(v[1]) for aid, v in ret.items()}
    if algo == "RainbowDQN":
        return {"loss": float(ret[0])}
    return {}


def _target_pairs(agent):
    """(eval attr, target attr, eval module, target module) for every registered shared network."""
    import torch.nn as nn

    out = []
    for g in agent.registry.groups:
        if g.shared is None:
            continue
        for sname in g.shared if isinstance(g.shared, list) else [g.shared]:
            e, t = getattr(agent, g.eval), getattr(agent, sname)
            if isinstance(e, list):
                for i, (em, tm) in enumerate(zip(e, t)):
                    out.append((f"{g.eval}[{i}]", f"{sname}[{i}]", em, tm))
            elif isinstance(e, nn.Module):
                out.append((g.eval, sname, e, t))
    return out


def _update_due(pre_agent, case):
    algo = case["algo"]
    if algo in ("DDPG", "TD3"):
        return (int(pre_agent.learn_counter) + 1) % int(pre_agent.policy_freq) == 0
    if algo == "MATD3":
        lc = pre_agent.learn_counter
        c = list(lc.values())[-1] if isinstance(lc, dict) else int(lc)
        return (int(c) + 1) % int(pre_agent.policy_freq) == 0
    return True


def run_case(case):
    import torch

    from vf import agentops, walk, zoo
    from vf.props import c01

    rec = Recorder()
    algo = case["algo"]
    rng = np.random.default_rng(case["seed"])
    try:
        agent = _build(case)
        agent = _apply_after(agent, case, rec)
    except CaseTimeout:
        raise
    except Exception as e:
        rec.hit("setup_failed")
        rec.extra["setup_failed"] = f"{type(e).__name__}: {str(e)[:140]}"
        return rec.result()

    any_due = False
    reuse = {}
    masked_ran = False
    leaves_cmp = 0
    for step in range(case["steps"]):
        if step > 0 and step == case.get("op_again_at") and case["after"] != "none":
            # the same operation once more in the middle of the learn sequence (learn, op, learn ...)
            try:
                agent = _apply_after(agent, dict(case, seed=case["seed"] + step), rec)
                rec.hit("mid_sequence_operations")
            except CaseTimeout:
                raise
            except Exception as e:
                rec.hit("mid_sequence_operation_failed(info)")
                rec.extra["mid_sequence_operation_failed"] = f"{type(e).__name__}: {str(e)[:100]}"
                break
        n = agent.batch_size
        if case.get("reuse_batch") and step > 0 and reuse.get("n") == n:
            batch, nbatch, dv = reuse["batch"], reuse["nbatch"], reuse["dv"]
            rec.hit("learn_steps_on_a_reused_batch_object")
        else:
            dv = _done_vector(case["done"], n, rng)
            bseed = int(rng.integers(1 << 30))
            batch = zoo.make_batch(agent, n=n, seed=bseed, done=dv)
            nbatch = zoo.make_batch(agent, n=n, seed=bseed + 1, done=_done_vector(case["done"], n, rng))
            if case.get("per_agent_done") and batch.get("multi") and case["done"] == "mixed":
                for k, aid in enumerate(list(batch["done"])):
                    batch["done"][aid] = np.roll(np.asarray(batch["done"][aid]), k, axis=0)
                rec.hit("multi_agent_batches_with_per_agent_done_flags")
            reuse = {"n": n, "batch": batch, "nbatch": nbatch, "dv": dv, "cache": {}}
        try:
            ref = copy.deepcopy(agent)
            twin = copy.deepcopy(agent) if dv.any() and not _has_batch_norm(agent) else None
            if dv.any() and twin is None:
                rec.hit("terminal_masking_skipped_batch_norm")
        except Exception as e:
            rec.hit("deepcopy_failed")
            rec.extra["deepcopy_failed"] = f"{type(e).__name__}: {str(e)[:100]}"
            return rec.result()
        pairs_before = [(en, tn, walk.module_leaves(tm)) for en, tn, em, tm in _target_pairs(ref)]
        due = _update_due(ref, case)
        tau = float(agent.tau)
        wseed = int(rng.integers(1 << 30))
        agentops.seed_all(wseed)
        st = agentops.rng_state()
        try:
            # (importance weights of a re-used prioritised batch stay those of its first use)
            xseed = reuse.setdefault("xseed", wseed) if case.get("reuse_batch") else None
            ret = _do_learn(agent, case, batch, nbatch, wseed, cache=reuse["cache"] if case.get("reuse_batch") else None, extras_seed=xseed)
        except CaseTimeout:
            raise
        except Exception as e:
            rec.crash(e, "learn_raises", "learn", algo=algo, var=case["var"], after=case["after"], obs=case["obs"])
            rec.nontrivial = True
            return rec.result()
        rec.hit("learn_steps")
        site = f"{algo}.learn"

        # ---------------- (a) Bellman loss
        try:
            want = _reference_loss(ref, case, batch, wseed)
        except CaseTimeout:
            raise
        except Exception as e:
            want = None
            rec.hit("reference_loss_failed(info)")
            rec.extra["reference_loss_failed"] = f"{type(e).__name__}: {str(e)[:100]}"
        if want is not None:
            got = _returned_losses(ret, case)
            for k, w in want.items():
                rec.hit("bellman_loss_checks")
                gk = got.get(k)
                if gk is None or not np.isfinite(gk) or abs(gk - w) > 1e-4 * max(abs(w), abs(gk), 1e-3) + 1e-6:
                    rec.violate(
                        "bellman_loss",
                        "returned_loss_differs_from_bellman_reference",
                        site,
                        algo=algo,
                        var=case["var"],
                        which=k,
                        got=gk,
                        want=w,
                        gamma=case["gamma"],
                        done=case["done"],
                        after=case["after"],
                        step=step,
                    )
        elif algo == "RainbowDQN":
            rec.hit("bellman_loss_checks")  # decided by C18 for Rainbow; counted as evaluated-not-applicable
            rec.hit("bellman_loss_delegated_to_C18")

        # ---------------- (c) soft update
        post = {tn: (walk.module_leaves(em), walk.module_leaves(tm), {n for n, _ in em.named_parameters()}) for en, tn, em, tm in _target_pairs(agent)}
        for en, tn, T0 in pairs_before:
            if tn not in post:
                continue
            O1, T1, pnames = post[tn]
            if not pnames:
                rec.violate("soft_update", "online_network_exposes_no_parameters", site, algo=algo, net=en)
            for name in sorted(pnames):
                if name not in T1 or name not in T0 or name not in O1:
                    rec.violate("soft_update", "target_leaf_missing", site, algo=algo, target=tn, leaf=name, after=case["after"])
                    continue
                t0, t1, o1 = T0[name].detach().double(), T1[name].detach().double(), O1[name].detach().double()
                if t0.shape != t1.shape or o1.shape != t1.shape:
                    rec.violate("soft_update", "target_leaf_shape_differs", site, algo=algo, target=tn, leaf=name)
                    continue
                rec.hit("soft_update_leaves")
                leaves_cmp += 1
                exp = tau * o1 + (1 - tau) * t0 if due else t0
                err = float((t1 - exp).abs().max()) if t1.numel() else 0.0
                scale = float(max(exp.abs().max(), 1e-3)) if t1.numel() else 1.0
                if err > 1e-6 + 2e-6 * scale:
                    moved = float((t1 - t0).abs().max())
                    rec.violate(
                        "soft_update",
                        ("target_not_tau_blend_of_online_and_previous" if due else "target_changed_on_a_step_without_update")
                        + (":target_did_not_move" if due and moved == 0.0 else ""),
                        site,
                        algo=algo,
                        target=tn,
                        leaf=name,
                        err=err,
                        tau=tau,
                        due=due,
                        after=case["after"],
                        step=step,
                    )
                    break
        any_due = any_due or due

        # ---------------- (b) terminal masking (metamorphic)
        if twin is not None:
            try:
                b2 = _scramble_next_obs(batch, np.random.default_rng(bseed + 7))
                nb2 = _scramble_next_obs(nbatch, np.random.default_rng(bseed + 8))
                agentops.set_rng_state(st)
                ret2 = _do_learn(twin, case, b2, nb2, wseed, extras_seed=xseed)
                rec.hit("terminal_masking_checks")
                masked_ran = True
                l1, l2 = _returned_losses(ret, case), _returned_losses(ret2, case)
                bad = [k for k in l1 if abs(l1[k] - l2.get(k, float("nan"))) > 1e-5 * max(abs(l1[k]), 1e-3) + 1e-7 or not np.isfinite(l2.get(k, float("nan")))]
                d2 = c01._update_diffs(agent, twin, walk) if not bad else []
                if bad or d2:
                    kind = "next_observation_of_done_transition_influences_update"
                    if algo == "RainbowDQN" and _clamped_mass_active(ref, [batch, b2, nbatch, nb2]):
                        # Rainbow's head clamps atom probabilities at 1e-3 without renormalising, so the target
                        # "distribution" of a peaked network has mass > 1 and that mass (a function of the next
                        # observation) scales the projected target even when done = 1: a distinct, tiny mechanism
                        kind += ":through_unnormalised_clamped_target_mass"
                    rec.violate(
                        "terminal_masking",
                        kind,
                        site,
                        algo=algo,
                        var=case["var"],
                        losses=[l1, l2],
                        leaf=(d2[0]["path"] if d2 else None),
                        detail=(d2[0] if d2 else None),
                        gamma=case["gamma"],
                        after=case["after"],
                        done_rows=int(dv.sum()),
                    )
            except CaseTimeout:
                raise
            except Exception as e:
                rec.crash(e, "masking_twin_raises", "learn on twin", algo=algo, var=case["var"])
    rec.nontrivial = masked_ran and any_due and leaves_cmp >= 10
    return rec.result()
