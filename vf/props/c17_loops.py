"""C17, second workload: the REAL training loops build the rollouts.

The first C17 workload assembles rollouts itself "exactly as the loops do"; a change inside
`train_on_policy` / `train_multi_agent_on_policy` (both are anchors of the property: "done flags recorded one step
late", "each estimate, old log-probability and old value is applied to exactly the observation and action ... it was
computed for") would be invisible to it.  Here the real loop runs on a scripted environment that keeps its own
ground-truth log; a boundary wrapper around `learn()` (class level, so clones are covered) compares what the loop
hands to the learner with that log and with the policy the rollout was collected with:

  loop_alignment   states[t] == the observation the environment handed out before step t (per agent, env)
                   rewards[t] == the reward the environment returned for step t
                   next observation == the environment's latest observation
  loop_done_flags  dones[t] (t >= 1) == done of step t-1 of THIS rollout, next_done == done of the last step; dones[0]
                   is never read by the recursion and is not judged
  loop_old_logprob stored old log-prob == log-prob of the STORED action under the (not yet updated) policy at the
                   stored observation; the action the environment received == clip / scale of the stored action
  loop_old_value   stored old value == critic(stored observation)

The estimates themselves are then decided by the taps of the first workload (not repeated here).
"""

from __future__ import annotations

import contextlib
import io

import numpy as np

MA_IDS = ["a_0", "a_1", "b_0"]
OBS_DIM = 4


# ------------------------------------------------------------------ scripted environments with a ground-truth log
def _obs_vec(env_i, ai, ep, t, salt):
    h = (salt * 7919 + env_i * 104729 + ai * 1299709 + ep * 15485863 + t * 32452843) % 1000003
    return np.array([(env_i + 1) / 8.0, ((ep % 16) + 1) / 17.0 * (1 if ai % 2 == 0 else -1), (t % 16) / 16.0, h / 1000003.0 * 2 - 1],
                    dtype=np.float32)


def _code(action):
    try:
        return int(abs(float(np.asarray(action, dtype=np.float64).reshape(-1).sum())) * 8) % 7
    except Exception:
        return 0


class _Sub:
    """One deterministic episodic sub-environment for `n_agents` agents that end together."""

    def __init__(self, idx, ep_len, end, salt, n_agents):
        self.idx, self.ep_len, self.end, self.salt, self.n_agents = idx, int(ep_len), end, salt, n_agents
        self.ep, self.t = -1, 0

    def obs(self):
        return [_obs_vec(self.idx, a, self.ep, self.t, self.salt) for a in range(self.n_agents)]

    def reset(self):
        self.ep += 1
        self.t = 0
        return self.obs()

    def step(self, actions):
        self.t += 1
        done = self.t >= self.ep_len
        term = bool(done and (self.end == "term" or (self.end == "mixed" and self.ep % 2 == 0)))
        trunc = bool(done and not term)
        rew = [float(((self.t * 3 + _code(actions[a]) + a * 5 + self.idx + self.salt) % 11) - 5) / 4.0 for a in range(self.n_agents)]
        return self.obs(), rew, term, trunc


def _spaces(case):
    from gymnasium import spaces

    o = spaces.Box(-1.0, 1.0, (OBS_DIM,), np.float32)
    a = case["act"]
    if a == "discrete":
        return o, spaces.Discrete(3)
    lo, hi = {"box_tight": (-0.3, 0.3), "box_asym": (-2.0, 0.5), "box_wide": (-50.0, 50.0)}[a]
    return o, spaces.Box(lo, hi, (2,), np.float32)


class _Log:
    def __init__(self):
        self.steps = []  # dict(before, received, reward, done, after), leading dims (agent, env)
        self.current = None


def make_single_env(case):
    """gym-style (vectorised: same-step auto-reset, `num_envs`) single-agent environment + log."""
    from gymnasium.vector.utils import batch_space

    osp, asp = _spaces(case)
    n = int(case["n_envs"])
    vect = bool(case["vect"])
    log = _Log()
    subs = [_Sub(i, case["ep_lens"][i % len(case["ep_lens"])], case["end"], case["seed"] % 9973, 1) for i in range(n)]

    class Env:
        metadata = {}
        render_mode = None

        def __init__(self):
            self.single_observation_space, self.single_action_space = osp, asp
            if vect:
                self.num_envs = n
                self.observation_space, self.action_space = batch_space(osp, n), batch_space(asp, n)
            else:
                self.observation_space, self.action_space = osp, asp

        def reset(self, seed=None, options=None):
            cur = np.stack([s.reset()[0] for s in subs])
            log.current = cur[None]
            return (cur.copy() if vect else cur[0].copy()), {}

        def step(self, action):
            acts = np.asarray(action)
            acts = acts.reshape((n,) + acts.shape[1:]) if vect else acts[None]
            before = log.current
            obs, rew, term, trunc = [], [], [], []
            for i, s in enumerate(subs):
                o, r, te, tr = s.step([acts[i]])
                if (te or tr) and vect:
                    o = s.reset()
                obs.append(o[0]); rew.append(r[0]); term.append(te); trunc.append(tr)
            cur = np.stack(obs)
            log.steps.append({"before": before, "received": acts.copy()[None], "reward": np.asarray(rew, np.float64)[None],
                              "done": np.asarray([a or b for a, b in zip(term, trunc)])[None], "after": cur[None]})
            log.current = cur[None]
            if vect:
                return cur.copy(), np.asarray(rew, np.float32), np.asarray(term), np.asarray(trunc), {}
            return cur[0].copy(), float(rew[0]), bool(term[0]), bool(trunc[0]), {}

        def close(self):
            pass

    return Env(), log


def make_multi_env(case):
    """PettingZoo-parallel style environment (vectorised facade with same-step auto-reset, or a bare one) + log."""
    from gymnasium.vector.utils import batch_space

    osp, asp = _spaces(case)
    n = int(case["n_envs"])
    vect = bool(case["vect"])
    ids = list(MA_IDS)
    log = _Log()
    subs = [_Sub(i, case["ep_lens"][i % len(case["ep_lens"])], case["end"], case["seed"] % 9973, len(ids)) for i in range(n)]

    def pack(rows):  # rows[env][agent] -> (agent, env, ...)
        return np.stack([np.stack([rows[e][a] for e in range(n)]) for a in range(len(ids))])

    class Env:
        metadata = {"name": "c17_loop_v0"}
        render_mode = None

        def __init__(self):
            self.possible_agents = list(ids)
            self.agents = list(ids)
            self.num_agents = len(ids)
            if vect:
                self.num_envs = n

        def observation_space(self, agent):
            return batch_space(osp, n) if vect else osp

        def action_space(self, agent):
            return batch_space(asp, n) if vect else asp

        def single_observation_space(self, agent):
            return osp

        def single_action_space(self, agent):
            return asp

        def _out(self, cur):
            return {a: (cur[i].copy() if vect else cur[i][0].copy()) for i, a in enumerate(ids)}

        def reset(self, seed=None, options=None):
            cur = pack([s.reset() for s in subs])
            log.current = cur
            self.agents = list(ids)
            return self._out(cur), {a: {} for a in ids}

        def step(self, actions):
            acts = []
            for a in ids:
                x = np.asarray(actions[a])
                acts.append(x.reshape((n,) + x.shape[1:]) if vect else x[None])
            before = log.current
            obs, rew, done, terms, truncs = [], [], [], [], []
            for e, s in enumerate(subs):
                o, r, te, tr = s.step([acts[i][e] for i in range(len(ids))])
                if (te or tr) and vect:
                    o = s.reset()
                obs.append(o); rew.append(r); done.append(te or tr); terms.append(te); truncs.append(tr)
            cur = pack(obs)
            R = np.asarray(rew, np.float64).T  # (agent, env)
            D = np.repeat(np.asarray(done)[None], len(ids), axis=0)
            log.steps.append({"before": before, "received": [a.copy() for a in acts], "reward": R, "done": D, "after": cur})
            log.current = cur
            if vect:
                return (self._out(cur), {a: R[i].astype(np.float32) for i, a in enumerate(ids)},
                        {a: np.asarray(terms) for a in ids}, {a: np.asarray(truncs) for a in ids}, {a: {} for a in ids})
            if done[0]:
                self.agents = []
            return (self._out(cur), {a: float(R[i][0]) for i, a in enumerate(ids)}, {a: bool(terms[0]) for a in ids},
                    {a: bool(truncs[0]) for a in ids}, {a: {} for a in ids})

        def close(self):
            pass

    return Env(), log


# ------------------------------------------------------------------ cases
def loop_cases(tier, seed):
    rng = np.random.default_rng(1700 + seed)
    out = []
    n = 14 if tier == "quick" else 160
    acts = ["box_tight", "discrete", "box_asym", "box_tight", "box_wide"]
    for i in range(n):
        multi = bool(i % 2)
        vect = bool(i % 4 < 2) if multi else bool(i % 6 != 4)
        n_envs = int(rng.integers(2, 4)) if vect else 1
        T = int(rng.integers(3, 8))
        c = {
            "mode": "loop",
            "algo": "IPPO" if multi else "PPO",
            "vect": vect,
            "n_envs": n_envs,
            "T_target": T,
            "learn_step": T * n_envs,
            # episodes end in the MIDDLE of rollouts, at different steps per sub-environment; a single un-vectorised
            # gym environment is never reset by train_on_policy (C20's subject), so its episode outlasts the run
            "ep_lens": [int(x) for x in rng.integers(2, 5, size=n_envs)] if (vect or multi) else [10_000],
            "end": ["term", "trunc", "mixed"][int(rng.integers(3))],
            "act": acts[i % len(acts)],
            "squash": bool(not multi and i % 5 == 2),
            "rollouts": int(rng.integers(2, 4)),
            "seed": int(rng.integers(1 << 30)),
        }
        out.append(c)
    return out


# ------------------------------------------------------------------ the learn() boundary
def _np(x):
    import torch

    if isinstance(x, torch.Tensor):
        return x.detach().cpu().numpy()
    return np.asarray(x)


def _close(a, b, tol):
    a, b = np.asarray(a, np.float64), np.asarray(b, np.float64)
    return a.shape == b.shape and bool(np.all(np.abs(a - b) <= tol * (1.0 + np.abs(b))))


def _policy_view(actor, critic, obs, action):
    """(log-prob of `action`, value) under the current networks at `obs` - RNG neutral."""
    import torch

    st = torch.get_rng_state()
    try:
        with torch.no_grad():
            o = torch.as_tensor(np.asarray(obs, np.float32))
            actor(o)
            lp = actor.action_log_prob(torch.as_tensor(np.asarray(action)))
            v = critic(o).squeeze(-1)
        return _np(lp).astype(np.float64), _np(v).astype(np.float64)
    finally:
        torch.set_rng_state(st)


def _expected_received(actor, space, stored):
    from gymnasium import spaces

    if not isinstance(space, spaces.Box):
        return np.asarray(stored)
    if getattr(actor, "squash_output", False):
        return _np(actor.scale_action(np.asarray(stored)))
    return np.clip(np.asarray(stored), space.low, space.high)


def _judge_column(rec, site, ctx, log_steps, ai, T, E, states, actions, log_probs, rewards, dones, values, next_state, next_done,
                  actor, critic, space):
    """One agent: arrays indexed [t] with leading env dim E (already normalised)."""
    for t in range(T):
        gt = log_steps[t]
        rec.hit("loop_rows_checked", E)
        s = np.asarray(states[t], np.float32).reshape(E, -1)
        if not np.array_equal(s, gt["before"][ai].reshape(E, -1)):
            rec.violate("loop_alignment", "stored_observation_is_not_the_one_acted_on", site, t=t, **ctx)
            return
        r = np.asarray(rewards[t], np.float64).reshape(-1)
        if not _close(r, gt["reward"][ai].reshape(-1), 1e-6):
            rec.violate("loop_alignment", "stored_reward_is_not_the_reward_of_that_step", site, t=t, got=r, want=gt["reward"][ai], **ctx)
            return
        a = np.asarray(_np(actions[t])).reshape((E,) + tuple(space.shape))  # Discrete: (E,), Box: (E, dims)
        recv = np.asarray(gt["received"][ai]).reshape(a.shape)
        want_recv = np.asarray(_expected_received(actor, space, a)).reshape(a.shape)
        rec.hit("loop_action_checks", E)
        if not _close(recv.astype(np.float64), want_recv.astype(np.float64), 1e-6):
            rec.violate("loop_old_logprob", "environment_received_another_action_than_the_stored_one_clipped", site, t=t,
                        stored=a[0], received=recv[0], **ctx)
            return
        lp_ref, v_ref = _policy_view(actor, critic, s, a)
        lp = np.asarray(_np(log_probs[t]), np.float64).reshape(-1)
        rec.hit("loop_logprob_checks", E)
        if not _close(lp, lp_ref.reshape(-1), 2e-4):
            rec.violate("loop_old_logprob", "old_log_prob_is_not_the_log_prob_of_the_stored_action", site, t=t,
                        stored_log_prob=lp, log_prob_of_stored_action=lp_ref.reshape(-1), clipped=bool(not np.array_equal(want_recv, a)), **ctx)
            return
        v = np.asarray(_np(values[t]), np.float64).reshape(-1)
        rec.hit("loop_value_checks", E)
        if not _close(v, v_ref.reshape(-1), 2e-4):
            rec.violate("loop_old_value", "old_value_is_not_the_critic_value_of_the_stored_observation", site, t=t, got=v, want=v_ref, **ctx)
            return
        if t >= 1:
            d = np.asarray(_np(dones[t]), np.float64).reshape(-1)
            want = log_steps[t - 1]["done"][ai].astype(np.float64).reshape(-1)
            rec.hit("loop_done_flag_checks", E)
            if int(want.sum()) > 0:
                rec.hit("loop_done_flags_set_mid_rollout", int(want.sum()))
            if not np.array_equal(d, want):
                rec.violate("loop_done_flags", "recorded_done_is_not_the_done_of_the_previous_step", site, t=t, got=d, want=want, **ctx)
                return
    nd = np.asarray(_np(next_done), np.float64).reshape(-1)
    want = log_steps[T - 1]["done"][ai].astype(np.float64).reshape(-1)
    rec.hit("loop_done_flag_checks", E)
    if not np.array_equal(nd, want):
        rec.violate("loop_done_flags", "next_done_is_not_the_done_of_the_last_step", site, got=nd, want=want, **ctx)
    ns = np.asarray(next_state, np.float32).reshape(E, -1)
    if not np.array_equal(ns, log_steps[T - 1]["after"][ai].reshape(E, -1)):
        rec.violate("loop_alignment", "next_observation_is_not_the_environments_latest", site, **ctx)


@contextlib.contextmanager
def _patched_learn(cls, hook):
    orig = cls.learn

    def learn(self, experiences, *a, **k):
        hook(self, experiences)
        return orig(self, experiences, *a, **k)

    cls.learn = learn
    try:
        yield
    finally:
        cls.learn = orig


def run_loop_case(case, rec):
    from vf import agentops
    from vf.core import CaseTimeout

    multi = case["algo"] == "IPPO"
    agentops.seed_all(case["seed"])
    osp, asp = _spaces(case)
    E = int(case["n_envs"])
    ctx = {k: case[k] for k in ("algo", "vect", "n_envs", "act", "squash", "end", "ep_lens", "learn_step")}
    kw = dict(batch_size=64, learn_step=int(case["learn_step"]), update_epochs=1, lr=1e-3)
    if not multi:
        # with share_encoders=True get_action evaluates the critic head on the ACTOR's latent while the critic's own
        # encoder is a stale copy (known finding of C01 / C07): the reference below calls the critic as a network
        kw["share_encoders"] = False
    if case["squash"]:
        kw["net_config"] = {"squash_output": True, "encoder_config": {"hidden_size": [16]}, "head_config": {"hidden_size": [16]}}
    else:
        kw["net_config"] = {"encoder_config": {"hidden_size": [16]}, "head_config": {"hidden_size": [16]}}
    sink = io.StringIO()
    with contextlib.redirect_stdout(sink), contextlib.redirect_stderr(sink):
        if multi:
            from agilerl.algorithms.ippo import IPPO as cls
            from agilerl.training.train_multi_agent_on_policy import train_multi_agent_on_policy as fn

            env, log = make_multi_env(case)
            env.reset()
            agent = cls([osp] * len(MA_IDS), [asp] * len(MA_IDS), agent_ids=list(MA_IDS), **kw)
            site = "train_multi_agent_on_policy -> IPPO.learn"
        else:
            from agilerl.algorithms.ppo import PPO as cls
            from agilerl.training.train_on_policy import train_on_policy as fn

            env, log = make_single_env(case)
            agent = cls(osp, asp, **kw)
            site = "train_on_policy -> PPO.learn"
        # un-trained Gaussian heads rarely leave wide boxes; a larger log-std makes clipping frequent for the tight ones
        seen = {"learn": 0}

        def hook(ag, experiences):
            seen["learn"] += 1
            rec.hit("loop_learn_calls")
            states, actions, log_probs, rewards, dones, values, next_state, next_done = experiences
            try:
                if multi:
                    T = len(states[MA_IDS[0]])
                    steps = log.steps[-T:]
                    if len(steps) < T:
                        rec.hit("loop_observability_lost")
                        return
                    for ai, aid in enumerate(MA_IDS):
                        gi = ag.shared_agent_ids.index(ag.get_homo_id(aid))
                        _judge_column(rec, site, dict(ctx, agent=aid), steps, ai, T, E, states[aid], actions[aid], log_probs[aid],
                                      rewards[aid], dones[aid], values[aid], next_state[aid], next_done[aid],
                                      ag.actors[gi], ag.critics[gi], ag.action_space[aid])
                else:
                    T = len(states)
                    steps = log.steps[-T:]
                    if len(steps) < T:
                        rec.hit("loop_observability_lost")
                        return
                    _judge_column(rec, site, ctx, steps, 0, T, E, states, actions, log_probs, rewards, dones, values, next_state,
                                  next_done, ag.actor, ag.critic, ag.action_space)
            except CaseTimeout:
                raise
            except Exception as e:  # a bug of the monitor must not look like a defect of the loop
                rec.hit("loop_monitor_errors")
                rec.extra.setdefault("loop_monitor_errors", []).append(f"{type(e).__name__}: {e}"[:300])

        budget = int(case["learn_step"]) * int(case["rollouts"])
        with _patched_learn(cls, hook):
            try:
                fn(env, "c17-loop", case["algo"], [agent], max_steps=budget, evo_steps=budget, eval_steps=3, eval_loop=1,
                   tournament=None, mutation=None, wb=False, verbose=False)
            except CaseTimeout:
                raise
            except Exception as e:
                # whether the loop runs to completion is C20's subject; what it handed to learn() before is judged above
                rec.hit("loop_run_aborted(info)")
                rec.extra.setdefault("loop_aborts", []).append(f"{type(e).__name__}: {e}"[:300])
    rec.hit("loop_cases")
    rec.nontrivial = seen["learn"] >= 1 and rec.counters.get("loop_logprob_checks", 0) > 0
