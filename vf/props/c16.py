"""C16 - stochastic policies report the true log-probability and entropy of their actions.

Boundary wrappers + reference model.  Class-level wrappers on
``EvolvableDistribution.forward``, ``StochasticActor.forward``,
``StochasticActor.action_log_prob`` and ``PPO.evaluate_actions`` observe every
call the real code makes (directly on the actor, through ``PPO.get_action`` /
``PPO.learn`` and through ``IPPO.get_action`` / ``IPPO.learn``).  A tap on the
wrapped head network's forward (instance-level interposition) captures the logits *of the very call under
observation*; log-probability and entropy are then recomputed in float64 numpy
(no torch.distributions) from those logits, the mask passed in, the current
log-std parameter and the action that was actually *returned* (forward) or
*passed in* (re-evaluation), and compared with what the code reported.
"""

from __future__ import annotations

import math

import numpy as np

from vf.core import Recorder

PROPERTY = "C16"
LEVEL = "exploration"
RULE = (
    "case = (entry actor|ppo|ippo, action space Discrete 1-6 | MultiDiscrete | MultiBinary | Box dims 1-4 incl. (1,), "
    "log-std -2|0|1 (+ per-dimension jitter), squash on/off, bounds, mask kind none|random|all-but-one, weight scale, "
    "batch/rollout shape, seed). actor: forwards + re-evaluation of a stored action after a parameter change and a "
    "fresh sample; ppo/ippo: real get_action rollout, then the real learn() with the stored lists (monitors see the "
    "tensors learn passes to action_log_prob/evaluate_actions); hist: the same batteries on an actor after 1-3 "
    "network-level operations applied as Mutations.architecture_mutate applies them (clone, then add/remove_latent_node "
    "incl. bound-stopped, head_net.*/encoder.* node and layer methods on the clone; plain clone()), and on a PPO agent "
    "after the real Mutations.mutation with architecture probability 1 (free choice or a fed method name). non-trivial = at least one returned-action log-prob "
    "row AND one re-evaluated stored-action row were compared with the float64 reference; distinct = distinct case "
    "descriptions"
    " Added: 40 % of the masked cases keep ONE mask buffer (int8 / bool / float32 / int64; array, tensor, object array) and rewrite it in place between calls; wide spaces (MultiDiscrete / MultiBinary with 8-12 components, a 160-bit MultiBinary, Discrete up to 19, Box up to 12 dims); 12 % of the non-Box cases use weight scale 30 (confident policies)"
)
ASSUMPTIONS = [
    "the policy's distribution is the one defined by the head network's output captured by a tap on its forward during "
    "the observed call, the mask passed to that call and the log_std parameter read right after the call",
    "squashed policies: the density is checked in the tanh coordinates (action rescaled to [-1,1]); the constant "
    "Jacobian of the affine map to [low,high] is not demanded (the statement names only the tanh correction)",
    "squashed policies: rows with 1-a^2 < 1e-3 in some dimension are skipped (float32 tanh is not invertible there); "
    "the tolerance is widened by the conditioning of atanh and by a 1e-6 clamp inside the logarithm",
    "squashed policies have no closed-form entropy: the actor returns None and PPO reports -mean(log_prob); only "
    "finiteness is checked for that value, the exact entropy check covers all non-squashed distributions",
    "re-evaluation is compared with the distribution of the latest forward of the same actor (that is what "
    "action_log_prob/evaluate_actions define as the current policy); PPO/IPPO.learn re-evaluate without the rollout's "
    "action mask and this is not counted against them",
    "actor-level re-evaluation of a squashed action passes the action in tanh coordinates (what PPO stores); "
    "direct evaluate_actions calls pass actions as (B, n_components) resp. (B,) for Discrete; learn() passes whatever "
    "the real learn() derives from the stored rollout",
    "masks leave at least one action allowed per categorical component; an all-masked component is not generated; "
    "masks are numpy int8 arrays, object arrays of per-env arrays or bool tensors (IPPO: nested lists in the info dict)",
    "PPO/IPPO constructors require action_std_init >= 0, so log-std -2 is set on the parameter after construction there",
    "tolerance 1e-4*(1+|ref|) for log-prob and entropy (float32 code vs float64 reference)",
    "whether squashing is enabled is taken from the configuration the policy was constructed with (case description), "
    "not from the flag of the current distribution head: mutations and clones rebuild the head",
    "history cases: a log_std that an operation resets is not a C16 matter (the oracle reads the current parameter); it "
    "is only counted as information; forced PPO mutations feed the method name through the module attribute "
    "agilerl.hpo.mutation.get_architecture_mut_method, everything else is done by Mutations itself",
]
REQUIRED_COUNTERS = [
    "support_rows",
    "forward_logprob_rows",
    "forward_entropy_rows",
    "masked_entries_checked",
    "reeval_rows",
    "reeval_calls[actor]",
    "reeval_calls[PPO.learn]",
    "reeval_calls[IPPO.learn]",
    "agent_boundary_rows",
    "post_op_forward_rows",
    "post_op_reeval_rows",
    "hist_latent_ops_effective",
    "hist_latent_ops_bound_stopped",
    "hist_ppo_mutations",
]
CASE_TIMEOUT_S = 600

LOG2PI = math.log(2.0 * math.pi)
_STATE = {
    "rec": None,
    "ctx": "idle",
    "installed": False,
    "last_fwd": {},
    "last_actor_fwd": {},
    "last_alp": None,
    "cfg_squash": None,  # squashing as configured for the case (the statement's "when it is enabled")
    "after_op": None,  # name of the latest network-level operation applied in this case (history cases)
}


def preload():
    import torch  # noqa
    import gymnasium  # noqa
    import agilerl.networks.actors  # noqa
    import agilerl.networks.distributions  # noqa
    import agilerl.algorithms.ppo  # noqa
    import agilerl.algorithms.ippo  # noqa
    import agilerl.hpo.mutation  # noqa
    from vf.core import quiet_torch

    quiet_torch()


# ------------------------------------------------------------------ spaces
def _mk_space(desc):
    from gymnasium import spaces

    k = desc["kind"]
    if k == "disc":
        return spaces.Discrete(int(desc["n"]))
    if k == "md":
        return spaces.MultiDiscrete(list(desc["nvec"]))
    if k == "mb":
        return spaces.MultiBinary(int(desc["n"]))
    if k == "box":
        d = int(desc["dim"])
        lo, hi = desc.get("low", -1.0), desc.get("high", 1.0)
        lo = np.full((d,), lo, dtype=np.float32) if not isinstance(lo, list) else np.asarray(lo, dtype=np.float32)
        hi = np.full((d,), hi, dtype=np.float32) if not isinstance(hi, list) else np.asarray(hi, dtype=np.float32)
        return spaces.Box(lo, hi, dtype=np.float32)
    raise ValueError(k)


def _space_info(space):
    """(kind, n_logits, n_components, splits)"""
    from gymnasium import spaces

    if isinstance(space, spaces.Box):
        d = int(np.prod(space.shape))
        return "box", d, d, None
    if isinstance(space, spaces.Discrete):
        return "disc", int(space.n), 1, [int(space.n)]
    if isinstance(space, spaces.MultiDiscrete):
        nv = [int(x) for x in space.nvec]
        return "md", sum(nv), len(nv), nv
    if isinstance(space, spaces.MultiBinary):
        return "mb", int(space.n), int(space.n), None
    raise ValueError(space)


# ------------------------------------------------------------------ reference model (float64 numpy)
def _lse(x):
    m = np.max(x, axis=1, keepdims=True)
    m = np.where(np.isfinite(m), m, 0.0)
    with np.errstate(divide="ignore"):
        return (m + np.log(np.sum(np.exp(x - m), axis=1, keepdims=True)))[:, 0]


def _log_sigmoid(x):
    return -np.logaddexp(0.0, -x)


def _cat_component(logits, mask, a):
    """log-prob of a (B,), entropy (B,), valid rows, support problems for one categorical component."""
    B, n = logits.shape
    problems = []
    ml = logits if mask is None else np.where(mask, logits, -np.inf)
    valid = np.ones(B, dtype=bool) if mask is None else mask.any(axis=1)
    lse = _lse(np.where(valid[:, None], ml, 0.0))
    logp_all = ml - lse[:, None]
    ai = np.rint(a).astype(np.int64)
    in_range = (ai >= 0) & (ai < n) & (np.abs(a - ai) < 1e-9)
    for r in np.nonzero(~in_range)[0][:3]:
        problems.append(("category_out_of_range", int(r), float(a[r])))
    ai_c = np.clip(ai, 0, n - 1)
    lp = logp_all[np.arange(B), ai_c]
    if mask is not None:
        hit = valid & in_range & ~mask[np.arange(B), ai_c]
        for r in np.nonzero(hit)[0][:3]:
            problems.append(("masked_category_sampled", int(r), int(ai_c[r])))
    with np.errstate(invalid="ignore", over="ignore"):
        p = np.exp(logp_all)
        ent = -np.sum(np.where(p > 0, p * np.where(np.isfinite(logp_all), logp_all, 0.0), 0.0), axis=1)
    return lp, ent, valid & in_range, problems


def reference(kind, splits, logits, mask, log_std, act, squash):
    """Independent log-prob / entropy of `act` under the distribution defined by `logits`.

    logits (B,F) float64, mask bool (B,F)|None, log_std (F,) float64|None, act (B,ncomp) float64 (unit coords if
    squash).  Returns dict(lp, ent|None, tol, ok rows, problems, skipped)."""
    B = logits.shape[0]
    problems = []
    ok = np.ones(B, dtype=bool)
    extra_tol = np.zeros(B)
    skipped = 0
    if kind == "box":
        sigma = np.exp(log_std)[None, :]
        fin = np.isfinite(act).all(axis=1)
        for r in np.nonzero(~fin)[0][:3]:
            problems.append(("non_finite_action", int(r), None))
        ok &= fin
        if squash:
            outside = (np.abs(act) > 1.0 + 1e-6).any(axis=1)
            for r in np.nonzero(outside & fin)[0][:3]:
                problems.append(("squashed_action_outside_bounds", int(r), float(np.max(np.abs(act[r])))))
            one_m = 1.0 - act**2
            sat = (one_m < 1e-3).any(axis=1)
            skipped = int((sat & ~outside & fin).sum())
            ok &= ~sat & ~outside
            a_s = np.where(ok[:, None], act, 0.0)
            one_m = 1.0 - a_s**2
            u = np.arctanh(a_s)
            z = (u - logits) / sigma
            lp = np.sum(-0.5 * z**2 - log_std[None, :] - 0.5 * LOG2PI, axis=1) - np.sum(np.log(one_m), axis=1)
            extra_tol = np.sum((2.5e-6 / one_m) * (1.0 + np.abs(z) / sigma), axis=1)
            ent = None
        else:
            a_s = np.where(fin[:, None], act, 0.0)
            z = (a_s - logits) / sigma
            lp = np.sum(-0.5 * z**2 - log_std[None, :] - 0.5 * LOG2PI, axis=1)
            ent = np.sum(0.5 + 0.5 * LOG2PI + log_std[None, :], axis=1) * np.ones(B)
    elif kind in ("disc", "md"):
        lp = np.zeros(B)
        ent = np.zeros(B)
        off = 0
        for ci, n in enumerate(splits):
            m = None if mask is None else mask[:, off : off + n]
            l, e, v, pr = _cat_component(logits[:, off : off + n], m, act[:, ci])
            lp += np.where(v, l, 0.0)
            ent += e
            ok &= v
            problems += [(k, r, {"component": ci, "value": val}) for k, r, val in pr]
            off += n
    elif kind == "mb":
        ml = logits if mask is None else np.where(mask, logits, -np.inf)
        binary = (act == 0.0) | (act == 1.0)
        for r in np.nonzero(~binary.all(axis=1))[0][:3]:
            problems.append(("non_binary_action", int(r), None))
        ok &= binary.all(axis=1)
        if mask is not None:
            hit = (~mask) & (act == 1.0)
            for r in np.nonzero(hit.any(axis=1))[0][:3]:
                problems.append(("masked_bit_set", int(r), None))
            ok &= ~hit.any(axis=1)
        a = np.where(binary, act, 0.0)
        with np.errstate(invalid="ignore"):
            t1 = np.where(a == 1.0, _log_sigmoid(ml), 0.0)
            t0 = np.where(a == 0.0, _log_sigmoid(-ml), 0.0)
        lp = np.sum(np.where(np.isfinite(t1), t1, 0.0) + t0, axis=1)
        p = 1.0 / (1.0 + np.exp(-ml))
        with np.errstate(divide="ignore", invalid="ignore"):
            h = -(np.where(p > 0, p * np.log(p), 0.0) + np.where(p < 1, (1 - p) * np.log1p(-p), 0.0))
        ent = np.sum(np.where(np.isfinite(h), h, 0.0), axis=1)
    else:
        raise ValueError(kind)
    tol = 1e-4 * (1.0 + np.abs(np.where(np.isfinite(lp), lp, 0.0))) + extra_tol
    return {"lp": lp, "ent": ent, "tol": tol, "ok": ok, "problems": problems, "skipped": skipped}


def _alt_squeezed_broadcast(kind, logits, log_std, act_flat):
    """What a (B,) action vector broadcast against (B,1) parameters and summed over dim 1 would give."""
    if kind == "box":
        sigma = math.exp(log_std[0])
        z = (act_flat[None, :] - logits[:, :1]) / sigma
        return np.sum(-0.5 * z**2 - log_std[0] - 0.5 * LOG2PI, axis=1)
    if kind == "mb":
        l = logits[:, :1]
        a = act_flat[None, :]
        return np.sum(a * _log_sigmoid(l) + (1 - a) * _log_sigmoid(-l), axis=1)
    return None


# ------------------------------------------------------------------ monitors
def _np64(t):
    return t.detach().to("cpu").double().numpy().copy()


def _mask_to_np(mask, shape):
    import torch

    if mask is None:
        return None
    if isinstance(mask, (list, tuple)) or (isinstance(mask, np.ndarray) and mask.dtype == np.object_):
        mask = np.stack(mask)
    return torch.as_tensor(mask, dtype=torch.bool).reshape(shape).numpy().copy()


def _monitor_error(rec, exc, where):
    rec.hit("monitor_errors")
    rec.extra.setdefault("monitor_errors", []).append(f"{where}: {type(exc).__name__}: {exc}"[:300])


def _ctx():
    return _STATE["ctx"]


def _site():
    """Witness site: entry point, plus the network-level operation the policy went through before (if any)."""
    op = _STATE["after_op"]
    return _STATE["ctx"] if not op else f'{_STATE["ctx"]}@after:{op}'


def _unit_coords(head, actor_low_high, action64):
    if actor_low_high is None:
        return action64
    lo, hi = actor_low_high
    return 2.0 * (action64 - lo[None, :]) / (hi - lo)[None, :] - 1.0


def _observe_dist_forward(rec, head, cap, action_mask, out):
    """Postcondition of EvolvableDistribution.forward(latent, mask) -> (action, log_prob, entropy)."""
    action, log_prob, entropy = out
    site = _site()
    if len(cap) != 1 or cap[0] is None:
        rec.hit("observability_lost")
        rec.extra["observability_lost"] = f"head network called {len(cap)} times inside one forward"
        return
    kind, nlog, ncomp, splits = _space_info(head.action_space)
    logits = _np64(cap[0]).reshape(-1, nlog)
    B = logits.shape[0]
    mask = _mask_to_np(action_mask, (B, nlog))
    # squashing is a property of the policy's configuration, not of whatever flag the (possibly rebuilt) head carries
    cfg = _STATE["cfg_squash"]
    squash = bool(head.squash_output) if cfg is None else bool(cfg and kind == "box")
    if kind == "box":
        rec.hit("squash_config_checks")
        if bool(head.squash_output) != squash:
            rec.violate(
                "squash_config",
                "distribution_head_does_not_carry_the_configured_squashing",
                site,
                configured=squash,
                head_flag=bool(head.squash_output),
            )
    log_std = _np64(head.log_std).reshape(-1) if kind == "box" else None
    act = _np64(action).reshape(B, -1) if action.numel() == B * ncomp else None
    record = {
        "kind": kind,
        "splits": splits,
        "logits": logits,
        "mask": mask,
        "log_std": log_std,
        "squash": squash,
        "action": act,
        "logp": _np64(log_prob) if log_prob is not None else None,
        "ent": _np64(entropy) if entropy is not None else None,
        "pre": _np64(head.dist.sampled_action) if getattr(head.dist, "sampled_action", None) is not None else None,
        "B": B,
        "ncomp": ncomp,
    }
    _STATE["last_fwd"][id(head)] = record
    if act is None:
        rec.violate("support", "action_shape_not_batch_by_components", site, shape=list(action.shape), B=B, ncomp=ncomp)
        return
    ref = reference(kind, splits, logits, mask, log_std, act, squash)
    rec.hit("support_rows", B)
    rec.hit(f"forward_calls[{_ctx()}]")
    rec.hit(f"forward_rows[{kind}{'+squash' if squash else ''}]", B)
    if _STATE["after_op"]:
        rec.hit("post_op_forward_rows", B)
        rec.hit(f"post_op_forward_rows[{kind}{'+squash' if squash else ''}]", B)
    for pk, row, val in ref["problems"]:
        rec.violate("support", pk, site, row=row, value=val, space=repr(head.action_space), action=act[row])
    if ref["skipped"]:
        rec.hit("squash_rows_skipped_saturated", ref["skipped"])
    # masked actions have zero probability under the distribution the code built
    if mask is not None and kind != "box":
        d = head.dist.distribution
        probs = np.concatenate([_np64(x.probs) for x in d], axis=1) if isinstance(d, list) else _np64(d.probs).reshape(B, -1)
        allowed_somewhere = np.ones(B, dtype=bool)
        if kind in ("disc", "md"):
            off = 0
            for n in splits:
                allowed_somewhere &= mask[:, off : off + n].any(axis=1)
                off += n
        sel = (~mask) & allowed_somewhere[:, None]
        rec.hit("masked_entries_checked", int(sel.sum()))
        if sel.any() and float(probs[sel].max()) > 1e-30:
            r, c = [int(x[0]) for x in np.nonzero(sel & (probs > 1e-30))]
            rec.violate("masked_prob", "masked_action_has_positive_probability", site, row=r, index=c, prob=float(probs[r, c]))
    # log-probability of the returned action
    ok = ref["ok"]
    got = record["logp"]
    if got is None or got.shape != (B,):
        rec.violate("logprob_forward", "log_prob_shape_not_batch", site, shape=None if got is None else list(got.shape), B=B)
    else:
        rec.hit("forward_logprob_rows", int(ok.sum()))
        bad = ok & ~(np.abs(got - ref["lp"]) <= ref["tol"])
        if bad.any():
            r = int(np.nonzero(bad)[0][0])
            rec.violate(
                "logprob_forward",
                "reported_log_prob_differs_from_density_of_returned_action",
                site,
                dist=kind + ("+squash" if squash else ""),
                row=r,
                reported=float(got[r]),
                reference=float(ref["lp"][r]),
                action=act[r],
                logits=logits[r],
                log_std=log_std,
                mask=None if mask is None else mask[r],
            )
    # entropy
    if ref["ent"] is not None:
        e = record["ent"]
        if e is None or e.shape != (B,):
            rec.violate("entropy_forward", "entropy_shape_not_batch", site, shape=None if e is None else list(e.shape), B=B)
        else:
            valid = np.ones(B, dtype=bool)
            if mask is not None and kind in ("disc", "md"):
                off = 0
                for n in splits:
                    valid &= mask[:, off : off + n].any(axis=1)
                    off += n
            rec.hit("forward_entropy_rows", int(valid.sum()))
            tol = 1e-4 * (1.0 + np.abs(ref["ent"]))
            bad = valid & ~(np.abs(e - ref["ent"]) <= tol)
            if bad.any():
                r = int(np.nonzero(bad)[0][0])
                rec.violate(
                    "entropy_forward",
                    "reported_entropy_differs_from_entropy_of_distribution",
                    site,
                    dist=kind,
                    row=r,
                    reported=float(e[r]),
                    reference=float(ref["ent"][r]),
                    logits=logits[r],
                    log_std=log_std,
                )
    else:
        rec.hit("entropy_squashed_uncheckable(info)")
        if entropy is not None and not bool(np.isfinite(_np64(entropy)).all()):
            rec.violate("entropy_forward", "non_finite_entropy", site)


def _observe_actor_forward(rec, actor, obs, out):
    """Postcondition of StochasticActor.forward: scaled action inside the bounds and consistent with the head's."""
    import torch

    action, log_prob, entropy = out
    inner = _STATE["last_fwd"].get(id(actor.head_net))
    site = _site()
    if inner is None or inner["action"] is None:
        return
    B = inner["B"]
    a = _np64(action).reshape(B, -1)
    rec.hit("actor_forward_checks")
    if inner["kind"] == "box" and bool(actor.squash_output) != inner["squash"]:
        rec.violate("squash_config", "actor_does_not_carry_the_configured_squashing", site, configured=inner["squash"])
    if inner["kind"] == "box" and inner["squash"]:
        lo, hi = _np64(actor.action_low).reshape(-1), _np64(actor.action_high).reshape(-1)
        if (a < lo[None, :] - 1e-5).any() or (a > hi[None, :] + 1e-5).any():
            rec.violate("support", "scaled_action_outside_box", site, low=lo, high=hi, action=a[0])
        want = lo[None, :] + 0.5 * (inner["action"] + 1.0) * (hi - lo)[None, :]
        if not np.allclose(a, want, rtol=1e-5, atol=1e-5):
            rec.violate("support", "scaled_action_is_not_affine_image_of_squashed_sample", site, got=a[0], want=want[0])
        if not np.allclose(hi - lo, 2.0):
            rec.hit("affine_jacobian_not_demanded(info)", B)
    elif not np.array_equal(a, inner["action"]):
        rec.violate("support", "actor_returns_other_action_than_distribution", site)
    if inner["logp"] is not None and not np.array_equal(_np64(log_prob), inner["logp"]):
        rec.violate("logprob_forward", "actor_returns_other_log_prob_than_distribution", site)
    o = obs.detach().cpu().numpy().copy() if isinstance(obs, torch.Tensor) else None
    _STATE["last_actor_fwd"][id(actor)] = {
        "obs": o,
        "action": a,
        "logp": _np64(log_prob),
        "ent": None if entropy is None else _np64(entropy),
    }


def _observe_action_log_prob(rec, actor, action, out):
    """Postcondition of StochasticActor.action_log_prob(stored_action)."""
    head = actor.head_net
    inner = _STATE["last_fwd"].get(id(head))
    site = _site()
    _STATE["last_alp"] = None
    if inner is None:
        rec.hit("observability_lost")
        rec.extra["observability_lost"] = "action_log_prob without an observed forward"
        return
    kind, splits, B, ncomp, squash = inner["kind"], inner["splits"], inner["B"], inner["ncomp"], inner["squash"]
    # the policy is the one of the latest forward; log_std is read now (parameters unchanged since that forward)
    log_std = _np64(head.log_std).reshape(-1) if kind == "box" else None
    rec.hit(f"reeval_calls[{_ctx()}]")
    rec.hit(f"reeval_calls[{kind}{'+squash' if squash else ''}]")
    got = _np64(out)
    if action.numel() != B * ncomp:
        rec.violate("reeval_logprob", "stored_actions_do_not_match_batch", site, action_shape=list(action.shape), B=B, ncomp=ncomp)
        return
    act = _np64(action).reshape(B, ncomp)
    ref = reference(kind, splits, inner["logits"], inner["mask"], log_std, act, squash)
    if ref["skipped"]:
        rec.hit("squash_rows_skipped_saturated", ref["skipped"])
    ok = ref["ok"]
    _STATE["last_alp"] = {"got": got, "ref": ref, "B": B, "inner": inner, "log_std": log_std}
    if got.shape != (B,):
        rec.violate(
            "reeval_logprob",
            "log_prob_shape_not_batch",
            site,
            dist=kind,
            action_shape=list(action.shape),
            out_shape=list(got.shape),
            B=B,
        )
        return
    rec.hit("reeval_rows", int(ok.sum()))
    if _STATE["after_op"]:
        rec.hit("post_op_reeval_rows", int(ok.sum()))
    bad = ok & ~(np.abs(got - ref["lp"]) <= ref["tol"])
    if not bad.any():
        return
    r = int(np.nonzero(bad)[0][0])
    # diagnose the mechanism from what was observed (keeps distinct defects apart)
    mech = "re_evaluated_log_prob_differs_from_density_of_stored_action"
    if squash and inner["pre"] is not None:
        sigma = np.exp(log_std)[None, :]
        z = (inner["pre"].reshape(B, -1) - inner["logits"]) / sigma
        with np.errstate(invalid="ignore", divide="ignore"):
            alt = np.sum(-0.5 * z**2 - log_std[None, :] - 0.5 * LOG2PI, axis=1) - np.sum(np.log(1 - act**2 + 1e-6), axis=1)
        same = np.isclose(got, alt, rtol=1e-4, atol=1e-4) | (np.isnan(got) & np.isnan(alt))
        if same[bad].all():
            mech = "squashed_re_evaluation_uses_density_of_fresh_presquash_sample"
    elif ncomp == 1 and action.dim() == 1 and kind in ("box", "mb") and inner["mask"] is None:
        alt = _alt_squeezed_broadcast(kind, inner["logits"], log_std, act[:, 0])
        if alt is not None and np.allclose(got, alt, rtol=1e-4, atol=1e-4):
            mech = "one_component_actions_squeezed_and_broadcast_over_batch"
    rec.violate(
        "reeval_logprob",
        mech,
        site,
        dist=kind + ("+squash" if squash else ""),
        action_shape=list(action.shape),
        row=r,
        reported=float(got[r]),
        reference=float(ref["lp"][r]),
        stored_action=act[r],
        logits=inner["logits"][r],
        log_std=log_std,
        bad_rows=int(bad.sum()),
        rows=B,
    )


def _observe_evaluate_actions(rec, agent, out):
    """PPO.evaluate_actions -> (log_prob, entropy, values): passes on action_log_prob and the forward's entropy."""
    log_prob, entropy, values = out
    alp = _STATE["last_alp"]
    site = _site()
    if alp is None:
        return
    rec.hit("evaluate_actions_checks")
    if not np.array_equal(_np64(log_prob), alp["got"], equal_nan=True):
        rec.violate("reeval_logprob", "evaluate_actions_returns_other_log_prob_than_action_log_prob", site)
    inner = alp["inner"]
    if not inner["squash"]:
        dummy = inner["action"] if inner["action"] is not None else np.zeros((alp["B"], inner["ncomp"]))
        ref = reference(inner["kind"], inner["splits"], inner["logits"], inner["mask"], alp["log_std"], dummy, False)
        e = _np64(entropy)
        if e.shape != (alp["B"],):
            rec.violate("reeval_entropy", "entropy_shape_not_batch", site, shape=list(e.shape))
        else:
            rec.hit("reeval_entropy_rows", alp["B"])
            if not np.allclose(e, ref["ent"], rtol=1e-4, atol=1e-4):
                rec.violate("reeval_entropy", "entropy_differs_from_entropy_of_current_distribution", site, got=e[:4], want=ref["ent"][:4])
    else:
        rec.hit("entropy_squashed_uncheckable(info)")


def _install():
    if _STATE["installed"]:
        return
    from agilerl.algorithms.ppo import PPO
    from agilerl.networks.actors import StochasticActor
    from agilerl.networks.distributions import EvolvableDistribution

    o_dist = EvolvableDistribution.forward
    o_actor = StochasticActor.forward
    o_alp = StochasticActor.action_log_prob
    o_eval = PPO.evaluate_actions

    def dist_forward(self, latent, action_mask=None):
        rec = _STATE["rec"]
        if rec is None:
            return o_dist(self, latent, action_mask)
        # EvolvableModule.__call__ goes straight to self.forward (torch forward hooks never fire), so the
        # head network's forward is shadowed on the instance for the duration of this one call
        cap = []
        inner = self.wrapped
        inner_forward = inner.forward

        def tapped_forward(*a, **k):
            o = inner_forward(*a, **k)
            try:
                cap.append(o.detach().clone())
            except Exception:
                cap.append(None)
            return o

        object.__setattr__(inner, "forward", tapped_forward)
        try:
            out = o_dist(self, latent, action_mask)
        finally:
            inner.__dict__.pop("forward", None)
        try:
            _observe_dist_forward(rec, self, cap, action_mask, out)
        except Exception as e:  # a monitor must never raise into the code under observation
            _monitor_error(rec, e, "dist_forward")
        return out

    def actor_forward(self, obs, action_mask=None):
        rec = _STATE["rec"]
        out = o_actor(self, obs, action_mask)
        if rec is not None:
            try:
                _observe_actor_forward(rec, self, obs, out)
            except Exception as e:
                _monitor_error(rec, e, "actor_forward")
        return out

    def action_log_prob(self, action):
        rec = _STATE["rec"]
        out = o_alp(self, action)
        if rec is not None:
            try:
                _observe_action_log_prob(rec, self, action, out)
            except Exception as e:
                _monitor_error(rec, e, "action_log_prob")
        return out

    def evaluate_actions(self, obs, actions):
        rec = _STATE["rec"]
        out = o_eval(self, obs, actions)
        if rec is not None:
            try:
                _observe_evaluate_actions(rec, self, out)
            except Exception as e:
                _monitor_error(rec, e, "evaluate_actions")
        return out

    for f, o in ((dist_forward, o_dist), (actor_forward, o_actor), (action_log_prob, o_alp), (evaluate_actions, o_eval)):
        f.__wrapped__ = o
        f.__doc__ = o.__doc__
    EvolvableDistribution.forward = dist_forward
    StochasticActor.forward = actor_forward
    StochasticActor.action_log_prob = action_log_prob
    PPO.evaluate_actions = evaluate_actions
    _STATE["installed"] = True


# ------------------------------------------------------------------ case generation
def _rand_space(rng):
    r = rng.random()
    if r < 0.25:
        return {"kind": "disc", "n": int(rng.integers(1, 7))}
    if r < 0.45:
        # every fifth MultiDiscrete space is wide (8-12 components of unequal sizes)
        k = int(rng.integers(1, 4)) if rng.random() < 0.8 else int(rng.integers(8, 13))
        return {"kind": "md", "nvec": [int(x) for x in rng.integers(1, 5 if k < 8 else 7, size=k)]}
    if r < 0.6:
        return {"kind": "mb", "n": int(rng.integers(1, 5)) if rng.random() < 0.8 else int(rng.integers(8, 13))}
    if r < 0.63:
        return {"kind": "disc", "n": int(rng.integers(9, 20))}
    d = {"kind": "box", "dim": int(rng.integers(1, 5)) if rng.random() < 0.85 else int(rng.integers(8, 13))}
    b = rng.random()
    if b < 0.5:
        d["low"], d["high"] = -1.0, 1.0
    elif b < 0.75:
        d["low"], d["high"] = -2.0, 3.0
    else:
        d["low"] = [float(x) for x in np.round(-rng.uniform(0.5, 3.0, size=d["dim"]), 2)]
        d["high"] = [float(x) for x in np.round(rng.uniform(0.5, 3.0, size=d["dim"]), 2)]
    return d


CORNER_SPACES = [
    {"kind": "box", "dim": 1, "low": -1.0, "high": 1.0},
    {"kind": "box", "dim": 1, "low": -2.0, "high": 3.0},
    {"kind": "box", "dim": 2, "low": -1.0, "high": 1.0},
    {"kind": "box", "dim": 4, "low": -2.0, "high": 3.0},
    {"kind": "disc", "n": 1},
    {"kind": "disc", "n": 2},
    {"kind": "disc", "n": 6},
    {"kind": "md", "nvec": [3]},
    {"kind": "md", "nvec": [2, 3]},
    {"kind": "md", "nvec": [1, 4, 2]},
    {"kind": "md", "nvec": [2, 3, 4, 2, 5, 3, 2, 4, 6]},
    {"kind": "md", "nvec": [4] * 10},
    {"kind": "mb", "n": 9},
    {"kind": "mb", "n": 160},
    {"kind": "disc", "n": 17},
    {"kind": "box", "dim": 9, "low": -2.0, "high": 3.0},
    {"kind": "mb", "n": 1},
    {"kind": "mb", "n": 3},
]


LATENT_OPS = ("add_latent_node", "remove_latent_node")
HIST_OTHER_OPS = (
    "clone",
    "head_net.add_node",
    "head_net.remove_node",
    "head_net.add_layer",
    "head_net.remove_layer",
    "encoder.add_node",
    "encoder.remove_node",
)
HIST_FAMILIES = [
    {"space": {"kind": "box", "dim": 2, "low": -1.0, "high": 1.0}, "squash": True},
    {"space": {"kind": "box", "dim": 3, "low": -2.0, "high": 3.0}, "squash": True},
    {"space": {"kind": "box", "dim": 1, "low": -1.0, "high": 1.0}, "squash": False},
    {"space": {"kind": "box", "dim": 3, "low": -2.0, "high": 3.0}, "squash": False},
    {"space": {"kind": "disc", "n": 4}, "squash": False},
    {"space": {"kind": "md", "nvec": [2, 3]}, "squash": False},
    {"space": {"kind": "mb", "n": 3}, "squash": False},
]
HIST_ACTOR_CORNER_OPS = [
    ["add_latent_node"],
    ["remove_latent_node"],
    ["remove_latent_node", "remove_latent_node"],  # 16 -> 8 -> stopped by min_latent_dim
    ["add_latent_node", "add_latent_node", "add_latent_node"],  # runs into max_latent_dim
    ["clone"],
    ["head_net.add_node"],
    ["encoder.add_node"],
    ["head_net.add_layer"],
    ["add_latent_node", "clone"],
    ["encoder.remove_node", "remove_latent_node"],
]


def _case(entry, space, rng, **kw):
    c = {
        "entry": entry,
        "space": space,
        "logstd": float([-2.0, 0.0, 1.0][int(rng.integers(3))]),
        "jitter": bool(rng.random() < 0.4),
        # the squash_output option is also written into configurations of policies over non-Box spaces, where it has nothing to
        # squash: distribution, log-probability and (analytical) entropy stay those of the categorical / Bernoulli policy
        "squash": bool(rng.random() < (0.45 if space["kind"] == "box" else 0.2)) if entry != "ippo" else False,
        "mask": ["none", "random", "all_but_one"][int(rng.integers(3))] if space["kind"] != "box" else "none",
        "mask_type": ["numpy", "tensor", "object"][int(rng.integers(3))],
        # an environment that re-uses ONE mask buffer: the same object is handed over on consecutive calls with its contents
        # rewritten in place between them (int8 / float / bool / int64 element types)
        "mask_reuse": bool(rng.random() < 0.4),
        "mask_dtype": ["int8", "bool", "float32", "int64"][int(rng.integers(4))],
        # (a confident policy: logits of the order +-30, stored actions can have log-probabilities far below float32's
        # smallest normal exponent when computed as a product)
        "wscale": float([0.3, 1.0, 3.0][int(rng.integers(3))]) if (space["kind"] == "box" or rng.random() < 0.88) else 30.0,
        "B": int(rng.integers(1, 9)),
        "T": int(rng.integers(2, 5)),
        "E": int(rng.integers(1, 4)),
        "vect": bool(rng.random() < 0.75),
        "mb": int(rng.integers(2, 7)),
        "share": bool(rng.random() < 0.5),
        "seed": int(rng.integers(1 << 30)),
    }
    c.update(kw)
    if not c["vect"]:
        c["E"] = 1
    return c


def cases(tier, seed):
    rng = np.random.default_rng(1600 + seed)
    quick = tier == "quick"
    n_actor, n_ppo, n_ippo = (900, 500, 200) if quick else (30000, 12000, 5000)
    n_hist_actor, n_hist_ppo = (260, 90) if quick else (8000, 2500)
    out = []
    # policies after network-level operations: every family x every operation kind first
    for fam in HIST_FAMILIES:
        for ops in HIST_ACTOR_CORNER_OPS:
            out.append(_case("hist", fam["space"], rng, level="actor", ops=list(ops), squash=fam["squash"], jitter=True))
        for ops in (["mutation:add_latent_node"], ["mutation:remove_latent_node"], ["mutation"]):
            out.append(_case("hist", fam["space"], rng, level="ppo", ops=list(ops), squash=fam["squash"], jitter=True, T=2))
    # hostile corners first: every corner space on every entry point, squash on and off, both mask corners
    for sp in CORNER_SPACES:
        for entry in ("actor", "ppo", "ippo"):
            variants = [{"squash": False}]
            if sp["kind"] == "box":
                variants.append({"squash": True})
            else:
                variants = [{"mask": "all_but_one"}, {"mask": "none"}]
            for v in variants:
                out.append(_case(entry, sp, rng, **v))
    for logstd in (-2.0, 0.0, 1.0):
        for sq in (False, True):
            out.append(_case("actor", {"kind": "box", "dim": 3, "low": -1.0, "high": 1.0}, rng, logstd=logstd, squash=sq))
            out.append(_case("ppo", {"kind": "box", "dim": 2, "low": -1.0, "high": 1.0}, rng, logstd=logstd, squash=sq))
    out.append(_case("ippo", {"kind": "box", "dim": 2, "low": -1.0, "high": 1.0}, rng, squash=True))
    for _ in range(n_actor):
        out.append(_case("actor", _rand_space(rng), rng))
    for _ in range(n_ppo):
        out.append(_case("ppo", _rand_space(rng), rng))
    for _ in range(n_ippo):
        out.append(_case("ippo", _rand_space(rng), rng, squash=False))
    for _ in range(n_hist_actor):
        sp = _rand_space(rng)
        ops = []
        for _k in range(int(rng.integers(1, 4))):
            ops.append(
                LATENT_OPS[int(rng.integers(2))] if rng.random() < 0.5 else HIST_OTHER_OPS[int(rng.integers(len(HIST_OTHER_OPS)))]
            )
        out.append(_case("hist", sp, rng, level="actor", ops=ops, squash=bool(sp["kind"] == "box" and rng.random() < 0.6)))
    for _ in range(n_hist_ppo):
        sp = _rand_space(rng)
        r = rng.random()
        ops = ["mutation"] if r < 0.4 else ["mutation:" + LATENT_OPS[int(rng.integers(2))]]
        if rng.random() < 0.3:
            ops.append("mutation")
        out.append(_case("hist", sp, rng, level="ppo", ops=ops, squash=bool(sp["kind"] == "box" and rng.random() < 0.6), T=2))
    return out


# ------------------------------------------------------------------ drivers
NET = {"encoder_config": {"hidden_size": [8]}, "head_config": {"hidden_size": [8]}}
OBS_DIM = 3


def _net_config(squash):
    import copy

    nc = copy.deepcopy(NET)
    if squash:
        nc["squash_output"] = True
    return nc


def _randomise(actor, case, gen):
    """Random weights (every weight setting is in the quantifier) and the log-std under test."""
    import torch

    with torch.no_grad():
        for name, p in actor.named_parameters():
            if name.endswith("log_std"):
                continue
            if p.dim() >= 2:
                p.copy_(torch.randn(p.shape, generator=gen) * case["wscale"] / math.sqrt(p.shape[-1]))
            elif "norm" not in name:
                p.copy_(torch.randn(p.shape, generator=gen) * 0.3)
        ls = getattr(actor.head_net, "log_std", None)
        if ls is not None:
            ls.fill_(case["logstd"])
            if case["jitter"]:
                ls.add_(torch.randn(ls.shape, generator=gen) * 0.5)


def _perturb(actor, gen, scale=0.15):
    import torch

    with torch.no_grad():
        for name, p in actor.named_parameters():
            p.add_(torch.randn(p.shape, generator=gen) * scale)


def _mk_mask(case, space, rows, rng):
    """Boolean mask (rows, n_logits) with at least one allowed entry per categorical component, or None."""
    kind, nlog, ncomp, splits = _space_info(space)
    if case["mask"] == "none" or kind == "box":
        return None
    m = np.zeros((rows, nlog), dtype=bool)
    if kind == "mb":
        if case["mask"] == "all_but_one":
            for r in range(rows):
                m[r, int(rng.integers(nlog))] = True
        else:
            m = rng.random((rows, nlog)) < 0.5
        return m
    off = 0
    for n in splits:
        for r in range(rows):
            if case["mask"] == "all_but_one":
                m[r, off + int(rng.integers(n))] = True
            else:
                row = rng.random(n) < 0.5
                row[int(rng.integers(n))] = True
                m[r, off : off + n] = row
        off += n
    return m


def _mask_as(case, m):
    import torch

    if m is None:
        return None
    t = case["mask_type"]
    if t == "tensor":
        return torch.as_tensor(m)
    if t == "object":  # array of per-env mask arrays, as a vector env's info dict delivers them
        o = np.empty(len(m), dtype=object)
        for i, row in enumerate(m):
            o[i] = row.astype(np.int8)
        return o
    return m.astype(np.int8)


def _mask_buffer(case, m):
    """The container an environment would keep re-using for its masks (None when the case does not re-use buffers)."""
    import torch

    if m is None or not case.get("mask_reuse"):
        return None
    dt = case.get("mask_dtype", "int8")
    if case["mask_type"] == "tensor":
        return torch.as_tensor(m.astype(dt))
    if case["mask_type"] == "object":
        o = np.empty(len(m), dtype=object)
        for i, row in enumerate(m):
            o[i] = row.astype(dt)
        return o
    return m.astype(dt)


def _mask_refill(buf, m):
    """Overwrite the buffer's contents in place with mask m; returns the same object."""
    import torch

    if isinstance(buf, torch.Tensor):
        buf.copy_(torch.as_tensor(m.astype(np.float32)).to(buf.dtype))
    elif buf.dtype == object:
        for i, row in enumerate(m):
            np.copyto(buf[i], row.astype(buf[i].dtype))
    else:
        np.copyto(buf, m.astype(buf.dtype))
    return buf


def _run_actor(case, rec):
    import torch
    from gymnasium import spaces
    from agilerl.networks.actors import StochasticActor

    gen = torch.Generator().manual_seed(case["seed"])
    rng = np.random.default_rng(case["seed"])
    space = _mk_space(case["space"])
    obs_space = spaces.Box(-1, 1, (OBS_DIM,), dtype=np.float32)
    actor = StochasticActor(
        obs_space,
        space,
        encoder_config={"hidden_size": [8]},
        head_config={"hidden_size": [8]},
        action_std_init=case["logstd"],
        squash_output=case["squash"],
        latent_dim=8,
    )
    _randomise(actor, case, gen)
    _actor_battery(actor, case, space, gen, rng)


def _actor_battery(actor, case, space, gen, rng, forwards=3):
    """Forwards (support, log-prob, entropy, masks) and re-evaluation of a stored action on one actor."""
    import torch

    B = case["B"]
    obs = torch.randn(B, OBS_DIM, generator=gen) * 2.0
    mask = _mk_mask(case, space, B, rng)
    _STATE["ctx"] = "actor"
    stored = None
    buf = _mask_buffer(case, mask)
    with torch.no_grad():
        for k in range(forwards):
            if buf is not None:
                if k:
                    mask = _mk_mask(case, space, B, rng)
                a, lp, ent = actor(obs, _mask_refill(buf, mask))
                _STATE["rec"].hit("forwards_with_a_reused_mask_buffer")
            else:
                a, lp, ent = actor(obs, _mask_as(case, mask))
            if stored is None or buf is not None:
                stored = a.clone()  # (re-used buffers: the action drawn under the mask that is re-evaluated below)
        # later: parameters moved on, another (unrelated) sample is drawn, then the stored action is re-evaluated
        _perturb(actor, gen)
        actor(obs, _mask_as(case, mask))
        if case["squash"] and getattr(actor, "action_low", None) is not None and case["space"]["kind"] == "box":
            lo, hi = actor.action_low, actor.action_high
            stored = 2.0 * (stored - lo) / (hi - lo) - 1.0
        actor.action_log_prob(stored)
        # and once more without a mask, rows in a different order of evaluation
        if mask is not None:
            actor(obs)
            actor.action_log_prob(stored)


def _check_ppo_get_action(rec, agent, obs_np, ret, training):
    """agent.get_action returns the action / log-prob / entropy of the actor call it made."""
    action, logp, ent, values = ret
    inner = _STATE["last_fwd"].get(id(agent.actor.head_net))
    site = _site()
    if inner is None or inner["action"] is None:
        rec.hit("observability_lost")
        return
    B = inner["B"]
    rec.hit("agent_boundary_rows", B)
    a = np.asarray(action, dtype=np.float64).reshape(B, -1)
    want = inner["action"]
    if inner["kind"] == "box" and not training:
        if inner["squash"]:
            lo = _np64(agent.actor.action_low).reshape(-1)
            hi = _np64(agent.actor.action_high).reshape(-1)
            want = lo[None, :] + 0.5 * (want + 1.0) * (hi - lo)[None, :]
        else:
            want = None  # evaluation-mode clipping (C14) changes the action; not compared
    if want is not None and not np.allclose(a, want, rtol=1e-5, atol=1e-6):
        rec.violate("agent_boundary", "get_action_returns_other_action_than_the_one_scored", site, got=a[0], want=want[0])
    if np.asarray(logp).shape != (B,) or not np.array_equal(np.asarray(logp, dtype=np.float64), inner["logp"]):
        rec.violate("agent_boundary", "get_action_log_prob_is_not_the_actors", site, got=np.asarray(logp).shape)
    if inner["ent"] is not None:
        if np.asarray(ent).shape != (B,) or not np.array_equal(np.asarray(ent, dtype=np.float64), inner["ent"]):
            rec.violate("agent_boundary", "get_action_entropy_is_not_the_actors", site, got=np.asarray(ent).shape)
    elif not np.isfinite(np.asarray(ent, dtype=np.float64)).all():
        rec.violate("agent_boundary", "non_finite_entropy", site)
    if inner["kind"] == "box" and inner["squash"] and training and isinstance(action, np.ndarray):
        # the training loops hand the returned action to scale_action() for the environment and then STORE the action for
        # re-evaluation: the conversion must not write into the array it is given
        rec.hit("scale_action_purity_checks")
        before = action.copy()
        try:
            agent.actor.scale_action(action)
        except Exception as e:
            from vf.core import CaseTimeout

            if isinstance(e, CaseTimeout):
                raise
            rec.hit("scale_action_raised(info)")
        if not np.array_equal(action, before):
            rec.violate("reeval_logprob", "scale_action_overwrote_the_stored_action", "StochasticActor.scale_action", stored=before[0], now=action[0])
            action[...] = before


def _run_ppo(case, rec):
    import torch
    from gymnasium import spaces
    from agilerl.algorithms.ppo import PPO

    gen = torch.Generator().manual_seed(case["seed"])
    rng = np.random.default_rng(case["seed"])
    space = _mk_space(case["space"])
    kind, nlog, ncomp, splits = _space_info(space)
    obs_space = spaces.Box(-1, 1, (OBS_DIM,), dtype=np.float32)
    _STATE["ctx"] = "PPO.construct"
    agent = PPO(
        obs_space,
        space,
        net_config=_net_config(case["squash"]),
        batch_size=case["mb"],
        update_epochs=2,
        lr=1e-3,
        action_std_init=max(0.0, case["logstd"]),
        share_encoders=case["share"],
    )
    _randomise(agent.actor, case, gen)
    _ppo_battery(agent, case, rec, space, gen, rng)


def _ppo_battery(agent, case, rec, space, gen, rng):
    """Real get_action rollout (+ evaluation mode), direct evaluate_actions and the real learn() on one PPO agent."""
    import torch

    kind, nlog, ncomp, splits = _space_info(space)
    E, T, vect = case["E"], case["T"], case["vect"]
    agent.set_training_mode(True)
    S, A, L, R, D, V = [], [], [], [], [], []
    _STATE["ctx"] = "PPO.get_action"
    last_obs = last_act = None
    buf = None
    for t in range(T):
        o = (rng.standard_normal((E, OBS_DIM)) * 2).astype(np.float32)
        m = _mk_mask(case, space, E, rng)
        obs_in = o if vect else o[0]
        mask_in = None if m is None else (_mask_as(case, m) if vect else m[0].astype(np.int8))
        if m is not None and case.get("mask_reuse"):
            if buf is None:
                buf = _mask_buffer(case, m) if vect else m[0].astype(case.get("mask_dtype", "int8"))
            mask_in = _mask_refill(buf, m) if vect else _mask_refill(buf, m[0])
            rec.hit("forwards_with_a_reused_mask_buffer")
        ret = agent.get_action(obs_in, action_mask=mask_in)
        _check_ppo_get_action(rec, agent, o, ret, training=True)
        a, lp, ent, v = ret
        last_obs, last_act = o, np.asarray(a)
        if not vect:
            a, lp, v = a[0], lp[0], v[0]
        S.append(obs_in)
        A.append(a)
        L.append(lp)
        R.append(rng.standard_normal(E) if vect else float(rng.standard_normal()))
        D.append(np.zeros(E) if vect else 0)
        V.append(v)
    # evaluation mode: deterministic post-processing of the action only (discrete kinds and squashed Box)
    if kind != "box" or case["squash"]:
        agent.set_training_mode(False)
        o = (rng.standard_normal((E, OBS_DIM)) * 2).astype(np.float32)
        _STATE["ctx"] = "PPO.get_action(eval)"
        try:
            ret = agent.get_action(o)
            _check_ppo_get_action(rec, agent, o, ret, training=False)
        except Exception as e:
            from vf.core import CaseTimeout

            if isinstance(e, CaseTimeout):
                raise
            rec.crash(e, "get_action_crash", "PPO.get_action(eval)", dist=kind, squash=case["squash"])
        agent.set_training_mode(True)
    # direct re-evaluation through the public method: (B, n_components) layout, (B,) for Discrete
    _STATE["ctx"] = "PPO.evaluate_actions"
    stored = torch.as_tensor(last_act, dtype=torch.float32)
    stored = stored.reshape(E) if kind == "disc" else stored.reshape(E, ncomp)
    _perturb(agent.actor, gen, 0.1)
    with torch.no_grad():
        agent.get_action(last_obs)  # unrelated fresh sample in between
        agent.evaluate_actions(last_obs, stored)
    # the real learn() on the stored rollout
    next_obs = (rng.standard_normal((E, OBS_DIM)) * 2).astype(np.float32)
    next_done = np.zeros(E)
    if not vect:
        next_obs, next_done = next_obs[0], 0
    _STATE["ctx"] = "PPO.learn"
    np.random.seed(case["seed"] % (1 << 31))
    try:
        agent.learn((S, A, L, R, D, V, next_obs, next_done))
    except Exception as e:
        from vf.core import CaseTimeout

        if isinstance(e, CaseTimeout):
            raise
        if _diverged(agent):
            _note_divergence(rec, e, "PPO.learn")
        else:
            rec.crash(e, "reeval_crash", "PPO.learn", dist=kind, ncomp=ncomp)


# ------------------------------------------------------------------ policies after network-level operations
HIST_LATENT = {"latent_dim": 16, "min_latent_dim": 8, "max_latent_dim": 32}


def _note_op(rec, op, before, after):
    """Bookkeeping for one applied operation (informational; verdicts come from the batteries that follow)."""
    import torch

    rec.hit(f"hist_ops[{op}]")
    if op in LATENT_OPS:
        rec.hit("hist_latent_ops_effective" if after.latent_dim != before.latent_dim else "hist_latent_ops_bound_stopped")
    a, b = getattr(before.head_net, "log_std", None), getattr(after.head_net, "log_std", None)
    if a is not None and b is not None and not torch.equal(a.detach(), b.detach()):
        rec.hit("log_std_changed_by_operation(info)")
    hist = _STATE["after_op"]
    _STATE["after_op"] = op if not hist else f"{hist}>{op}"


def _run_hist_actor(case, rec):
    import torch
    from gymnasium import spaces
    from agilerl.networks.actors import StochasticActor

    gen = torch.Generator().manual_seed(case["seed"])
    rng = np.random.default_rng(case["seed"])
    space = _mk_space(case["space"])
    obs_space = spaces.Box(-1, 1, (OBS_DIM,), dtype=np.float32)
    actor = StochasticActor(
        obs_space,
        space,
        encoder_config={"hidden_size": [8]},
        head_config={"hidden_size": [8]},
        action_std_init=case["logstd"],
        squash_output=case["squash"],
        **HIST_LATENT,
    )
    _randomise(actor, case, gen)
    for op in case["ops"]:
        _STATE["ctx"] = "actor.mutate"
        # the way Mutations.architecture_mutate does it: clone the network, then call the method on the clone
        new = actor.clone()
        if op != "clone":
            if op not in new.mutation_methods:
                rec.hit("hist_op_not_offered_by_network(info)")
                continue
            getattr(new, op)()
        _note_op(rec, op, actor, new)
        actor = new
        _actor_battery(actor, case, space, gen, rng, forwards=2)


class _FeedMethod:
    """Module-attribute interposition: Mutations.architecture_mutate asks get_architecture_mut_method which method to
    apply; feed it a name (must be one the policy offers) and leave everything else to the real code."""

    def __init__(self, name):
        self.name = name

    def __enter__(self):
        import agilerl.hpo.mutation as M

        self.M, self.orig = M, M.get_architecture_mut_method
        if self.name is not None:
            name, orig = self.name, self.orig

            def fed(eval_, new_layer_prob, rng):
                net = eval_[0] if isinstance(eval_, list) else eval_
                return name if name in net.mutation_methods else orig(eval_, new_layer_prob, rng)

            M.get_architecture_mut_method = fed
        return self

    def __exit__(self, *exc):
        self.M.get_architecture_mut_method = self.orig
        return False


def _run_hist_ppo(case, rec):
    import torch
    from gymnasium import spaces
    from agilerl.algorithms.ppo import PPO
    from agilerl.hpo.mutation import Mutations

    gen = torch.Generator().manual_seed(case["seed"])
    rng = np.random.default_rng(case["seed"])
    space = _mk_space(case["space"])
    obs_space = spaces.Box(-1, 1, (OBS_DIM,), dtype=np.float32)
    _STATE["ctx"] = "PPO.construct"
    nc = _net_config(case["squash"])
    nc.update(HIST_LATENT)
    agent = PPO(
        obs_space,
        space,
        net_config=nc,
        batch_size=case["mb"],
        update_epochs=1,
        lr=1e-3,
        action_std_init=max(0.0, case["logstd"]),
        share_encoders=case["share"],
    )
    _randomise(agent.actor, case, gen)
    muts = Mutations(
        no_mutation=0, architecture=1, new_layer_prob=0.3, parameters=0, activation=0, rl_hp=0, rand_seed=case["seed"] % (1 << 31)
    )
    for op in case["ops"]:
        _STATE["ctx"] = "Mutations.mutation"
        before = agent.actor
        with _FeedMethod(op.split(":", 1)[1] if ":" in op else None):
            agent = muts.mutation([agent])[0]
        rec.hit("hist_ppo_mutations")
        _note_op(rec, str(agent.mut), before, agent.actor)
        _ppo_battery(agent, case, rec, space, gen, rng)


AGENT_IDS = ["agent_0", "agent_1", "other_0"]


def _check_ippo_get_action(rec, agent, obs, ret, masks=None):
    """Every agent's (action, log_prob, entropy) row is the row the shared actor produced for that agent's observation,
    and the mask that row was sampled under is the mask the caller gave for that agent and environment."""
    actions, logps, ents, values = ret
    site = _site()
    for gi, gid in enumerate(agent.shared_agent_ids):
        actor = agent.actors[gi]
        fwd = _STATE["last_actor_fwd"].get(id(actor))
        if fwd is None or fwd["obs"] is None:
            rec.hit("observability_lost")
            continue
        for aid in agent.homogeneous_agents[gid]:
            o = np.asarray(obs[aid], dtype=np.float32).reshape(-1, OBS_DIM)
            a = np.asarray(actions[aid], dtype=np.float64).reshape(o.shape[0], -1)
            lp = np.asarray(logps[aid], dtype=np.float64).reshape(-1)
            en = np.asarray(ents[aid], dtype=np.float64).reshape(-1)
            for e in range(o.shape[0]):
                rows = np.nonzero((fwd["obs"].reshape(-1, OBS_DIM) == o[e][None, :]).all(axis=1))[0]
                rec.hit("agent_boundary_rows")
                if len(rows) != 1:
                    rec.hit("ippo_rows_not_identifiable(info)")
                    continue
                r = int(rows[0])
                want_m = None if masks is None else masks.get(aid)
                inner = _STATE["last_fwd"].get(id(actor.head_net))
                if want_m is not None and inner is not None and inner.get("mask") is not None and r < len(inner["mask"]):
                    rec.hit("agent_mask_row_checks")
                    got_m = np.asarray(inner["mask"][r]).astype(bool).reshape(-1)
                    if not np.array_equal(got_m, np.asarray(want_m[e]).astype(bool).reshape(-1)):
                        rec.violate("masked_zero_prob", "agent_row_sampled_under_another_rows_mask", site, agent=aid, env=e,
                                    given=np.asarray(want_m[e]).astype(int).tolist(), applied=got_m.astype(int).tolist())
                if not np.allclose(a[e], fwd["action"][r], rtol=1e-6, atol=1e-7):
                    rec.violate("agent_boundary", "get_action_returns_other_action_than_the_one_scored", site, agent=aid)
                elif lp[e] != fwd["logp"][r]:
                    rec.violate("agent_boundary", "get_action_log_prob_belongs_to_other_row", site, agent=aid, env=e)
                elif fwd["ent"] is not None and en[e] != fwd["ent"][r]:
                    rec.violate("agent_boundary", "get_action_entropy_belongs_to_other_row", site, agent=aid, env=e)


def _run_ippo(case, rec):
    import torch
    from gymnasium import spaces
    from agilerl.algorithms.ippo import IPPO

    gen = torch.Generator().manual_seed(case["seed"])
    rng = np.random.default_rng(case["seed"])
    space = _mk_space(case["space"])
    kind, nlog, ncomp, splits = _space_info(space)
    # the second policy ("other") is always a different family so both heads are exercised
    other = spaces.Discrete(3) if kind != "disc" else spaces.Box(-1, 1, (2,), dtype=np.float32)
    obs_space = spaces.Box(-1, 1, (OBS_DIM,), dtype=np.float32)
    _STATE["ctx"] = "IPPO.construct"
    try:
        agent = IPPO(
            [obs_space] * 3,
            [other if a.startswith("other") else space for a in AGENT_IDS],
            agent_ids=list(AGENT_IDS),
            net_config=_net_config(case["squash"]),
            batch_size=case["mb"],
            update_epochs=1,
            lr=1e-3,
            action_std_init=max(0.0, case["logstd"]),
        )
    except Exception as e:
        if not case["squash"]:
            raise
        rec.crash(e, "ippo_squash", "IPPO.construct")
        return
    _randomise(agent.actors[0], case, gen)
    E, T, vect = case["E"], case["T"], case["vect"]
    agent.set_training_mode(True)
    buf = {k: {a: [] for a in AGENT_IDS} for k in "SALRDV"}

    def mkobs():
        return {a: ((rng.standard_normal((E, OBS_DIM)) * 2).astype(np.float32) if vect else (rng.standard_normal(OBS_DIM) * 2).astype(np.float32)) for a in AGENT_IDS}

    _STATE["ctx"] = "IPPO.get_action"
    for t in range(T):
        o = mkobs()
        infos = None
        given = {}
        if case["mask"] != "none" and kind != "box":
            infos = {}
            for aid in AGENT_IDS:
                sp = agent.action_space[aid]
                m = _mk_mask(case, sp, E, rng)
                if m is None:  # Box policies take no mask
                    infos[aid] = {}
                    continue
                given[aid] = m.copy()
                m = m.astype(np.int8)
                # plain lists: IPPO.extract_action_masks cannot take numpy arrays (`None in [...]`)
                infos[aid] = {"action_mask": m.tolist() if vect else m[0].tolist()}
        try:
            ret = agent.get_action(o, infos)
        except Exception as e:
            if not case["squash"]:
                raise
            rec.crash(e, "ippo_squash", "IPPO.get_action")
            return
        _check_ippo_get_action(rec, agent, o, ret, masks=given or None)
        a, lp, ent, v = ret
        for aid in AGENT_IDS:
            buf["S"][aid].append(o[aid])
            buf["A"][aid].append(a[aid] if vect else a[aid][0])
            buf["L"][aid].append(lp[aid] if vect else lp[aid][0])
            buf["V"][aid].append(v[aid] if vect else v[aid][0])
            buf["R"][aid].append(rng.standard_normal(E) if vect else float(rng.standard_normal()))
            buf["D"][aid].append(np.zeros(E) if vect else 0)
    next_obs = mkobs()
    next_done = {a: (np.zeros(E) if vect else np.array([0])) for a in AGENT_IDS}
    _STATE["ctx"] = "IPPO.learn"
    np.random.seed(case["seed"] % (1 << 31))
    try:
        agent.learn((buf["S"], buf["A"], buf["L"], buf["R"], buf["D"], buf["V"], next_obs, next_done))
    except Exception as e:
        from vf.core import CaseTimeout

        if isinstance(e, CaseTimeout):
            raise
        if _diverged(agent):
            _note_divergence(rec, e, "IPPO.learn")
        else:
            rec.crash(e, "reeval_crash", "IPPO.learn", dist=kind, ncomp=ncomp)


def _diverged(agent) -> bool:
    """True iff an optimizer step has left non-finite numbers in a policy network: the exception that follows (NaN
    log-std handed to torch.normal ...) is the optimisation diverging under the extreme weight scales / log-stds this
    workload feeds, which the statement does not speak about.  Every log-probability computed BEFORE that step has
    already been judged by the forward / re-evaluation monitors."""
    import torch
    import torch.nn as nn

    nets = []
    for name in ("actor", "actors"):
        v = getattr(agent, name, None)
        if v is not None:
            nets += list(v) if isinstance(v, (list, tuple)) else [v]
    for net in nets:
        for p in nn.Module.parameters(net):
            if not bool(torch.isfinite(p).all()):
                return True
    return False


def _note_divergence(rec, e, where):
    rec.hit("learn_diverged_to_nonfinite_parameters(info)")
    rec.extra.setdefault("learn_diverged", {"where": where, "exception": f"{type(e).__name__}: {e}"[:160]})


def run_case(case):
    import torch

    rec = Recorder()
    global AGENT_IDS
    AGENT_IDS = list((["agent_0", "agent_1", "other_0"], ["agent_1", "other_0", "agent_0"], ["agent_9", "agent_10", "other_0"])[
        int(case.get("seed", 0)) % 3 if case.get("entry") == "ippo" else 0])
    _install()
    # a watchdog alarm that interrupted an earlier case inside torch.no_grad().__enter__/__exit__ would leave
    # autograd switched off for the rest of this worker: always start from the default mode
    torch.set_grad_enabled(True)
    torch.manual_seed(case["seed"])
    np.random.seed(case["seed"] % (1 << 31))
    _STATE["rec"] = rec
    _STATE["last_fwd"].clear()
    _STATE["last_actor_fwd"].clear()
    _STATE["last_alp"] = None
    _STATE["cfg_squash"] = bool(case.get("squash"))
    _STATE["after_op"] = None
    try:
        if case["entry"] == "hist":
            (_run_hist_actor if case["level"] == "actor" else _run_hist_ppo)(case, rec)
        elif case["entry"] == "actor":
            _run_actor(case, rec)
        elif case["entry"] == "ppo":
            _run_ppo(case, rec)
        else:
            _run_ippo(case, rec)
    except Exception as e:
        from vf.core import CaseTimeout

        if isinstance(e, CaseTimeout):
            raise
        rec.crash(e, "crash", _STATE["ctx"])
    finally:
        _STATE["rec"] = None
        _STATE["ctx"] = "idle"
        _STATE["cfg_squash"] = None
        _STATE["after_op"] = None
    rec.nontrivial = rec.counters.get("forward_logprob_rows", 0) > 0 and rec.counters.get("reeval_rows", 0) > 0
    return rec.result()


def finalize(ctx):
    n = ctx["counters"].get("monitor_errors", 0)
    lost = ctx["counters"].get("observability_lost", 0)
    if n:
        msgs = []
        for r in ctx["results"].values():
            msgs += (r.get("extra") or {}).get("monitor_errors", [])
        ctx["inconclusive"].append(f"{int(n)} internal monitor errors, e.g. {msgs[:2]}")
    if lost:
        ctx["inconclusive"].append(f"{int(lost)} observations lost (head network not seen exactly once / no forward record)")
    return {"monitor_errors": int(n), "observability_lost": int(lost)}
