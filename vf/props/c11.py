"""C11 - prioritised replay samples stored items with consistent priorities and weights.

Reference model + interposed randomness.  The model is a priority table keyed by the
unique id every transition carries (exact fractions.Fraction prefix sums over
Fraction(float(p) ** alpha)); the real PrioritizedReplayBuffer (driven through
agilerl.components.sampler.Sampler, as train_off_policy does) is compared with it
after EVERY operation of a seeded interleaving of add / sample / update_priorities.

torch.rand as seen from agilerl.components.replay_buffer is interposed (the module's
`torch` name is replaced by a thin proxy for the duration of a case): the proxy
either records the variates the code drew or feeds adversarial ones (0.0, 1-2**-24,
0.5, stratum/priority boundaries, random).  With the variates known,
"P(i) proportional to p_i**alpha" is decided per draw: index i_j returned for stratum
j must own the mass (j+u_j)*total/B in the model's exact prefix sums.

SumSegmentTree / MinSegmentTree are replaced (again by module-attribute interposition,
no edit of the package) by monitored subclasses carrying an icontract class invariant
"every internal node == op(children)".
"""

from __future__ import annotations

import bisect
import math
from fractions import Fraction

import numpy as np

from vf.core import Recorder

PROPERTY = "C11"
LEVEL = "exploration"
RULE = (
    "case = (capacity 1..20 incl. powers of two and not, alpha in {0,.3,.6,1}, beta in {0,.4,1}, seed): a seeded "
    "interleaving of add (width 1..4, wrapping), sample (batch 1..2*len, variates recorded or fed: all 0.0, all 1-2^-24, "
    "0.5, priority-boundary targeted, random) and update_priorities (tiny 0/1e-12/1e-7, huge 1e6/1e12, ties, repeated "
    "indices, index tensors (B,) and (B,1), numpy/torch float32/float64 priorities); plus direct segment-tree cases "
    "(capacity 1..64); non-trivial = at least one draw was decided against the exact prefix sums while the stored "
    "priorities were NOT all equal and after at least one update_priorities; distinct = distinct case descriptions"
)
ASSUMPTIONS = [
    "update_priorities floors every priority at 1e-5 ('handle small priorities'): the floor is part of the model",
    "the very first transition has no priority 'seen so far': the constructor's initial max priority 1.0 is taken as given "
    "and counts as seen from then on (running max = max(1.0, every priority ever passed to update_priorities))",
    "update_priorities(indices, priorities) addresses storage slots as returned in sample()['idxs']; within one call the "
    "pairs are applied in order (a repeated index keeps its LAST priority); only indices < len(buffer) are passed",
    "per-draw oracle: the code computes the query mass and the tree descent in float64, so an index is accepted when its "
    "exact mass interval [prefix(i), prefix(i+1)] is within 64*2^-53*total of the exact mass (j+u_j)*total/B; which side "
    "an EXACT boundary mass goes to is a measure-zero freedom and is only counted (boundary_mass_went_left(info))",
    "weights are float32 tensors: compared with relative tolerance 2e-6; 'the largest such weight' may be taken over the "
    "whole buffer (as the code does) or over the batch - both readings of the statement are accepted",
    "tree totals vs direct computation: relative tolerance 1e-9 (float64 summation order), leaves 1e-12",
    "clear() is not in the property's quantifier and is not driven; priorities are finite and >= 0",
    "torch.rand is observed through the module attribute agilerl.components.replay_buffer.torch; if the code drew its "
    "variates differently (not one per stratum) the per-draw monitor reports unobservable (inconclusive), never held",
]
REQUIRED_COUNTERS = [
    "draws_decided",
    "state_checks",
    "weights_checked",
    "tree_invariant_evals",
    "new_transition_priority_checks",
    "update_calls",
]
CASE_TIMEOUT_S = 1800  # no blocking operation exists in a case; generous because a loaded host stalled 40 ms cases for > 300 s

ALPHAS = [0.0, 0.3, 0.6, 1.0]
BETAS = [0.0, 0.4, 1.0]
U_MAX = 1.0 - 2.0**-24
FLOOR = 1e-5
TOL_K = 64  # units of 2^-53 * total
SITE_SAMPLE = "PrioritizedReplayBuffer._sample_proportional"
SITE_WEIGHTS = "PrioritizedReplayBuffer._calculate_weights"
SITE_PRIO = "PrioritizedReplayBuffer._update_priority"


def preload():
    import torch  # noqa
    import tensordict  # noqa
    import agilerl.components.replay_buffer  # noqa
    import agilerl.components.segment_tree  # noqa
    import agilerl.components.data  # noqa
    import agilerl.components.sampler  # noqa
    from vf.core import quiet_torch

    quiet_torch()
    try:
        import icontract  # noqa
    except Exception:
        pass


# ------------------------------------------------------------------ cases
def cases(tier, seed):
    rng = np.random.default_rng(3000 + seed)
    quick = tier == "quick"
    out = []
    nops = 45 if quick else 90
    # every capacity x alpha x beta once (hostile: small, 2^k, 2^k+-1)
    for cap in range(1, 21):
        for alpha in ALPHAS:
            for beta in BETAS:
                out.append({"kind": "buffer", "cap": cap, "alpha": alpha, "beta": beta, "nops": nops, "seed": int(rng.integers(1 << 30))})
    for cap in (1, 2, 4, 8, 16, 32, 64):
        for tree in ("sum", "min"):
            out.append({"kind": "tree", "cap": cap, "tree": tree, "nops": 120 if quick else 600, "seed": int(rng.integers(1 << 30))})
    out.append({"kind": "chi2", "cap": 11, "alpha": 0.6, "calls": 2500 if quick else 12500, "batch": 8, "seed": int(rng.integers(1 << 30))})
    nrand = (2000 if quick else 100000) - len(out)
    for _ in range(nrand):
        out.append(
            {
                "kind": "buffer",
                "cap": int(rng.integers(1, 21)),
                "alpha": ALPHAS[int(rng.integers(4))],
                "beta": BETAS[int(rng.integers(3))],
                "nops": int(rng.integers(15, nops + 1)),
                "seed": int(rng.integers(1 << 30)),
            }
        )
    return out


# ------------------------------------------------------------------ interposition
_STATE = {"rec": None}


class _RandState:
    def __init__(self):
        self.mode = "record"  # or "feed"
        self.plan = []  # variates to feed (cycled)
        self.pos = 0
        self.drawn = []  # every variate handed to the code under observation
        self.calls = 0


class _TorchProxy:
    """Stands in for the name `torch` inside agilerl.components.replay_buffer; only `rand` is special."""

    def __init__(self, real, st):
        object.__setattr__(self, "_real", real)
        object.__setattr__(self, "_st", st)

    def __getattr__(self, name):
        return getattr(object.__getattribute__(self, "_real"), name)

    def rand(self, *size, **kw):
        real = object.__getattribute__(self, "_real")
        st = object.__getattribute__(self, "_st")
        st.calls += 1
        if st.mode == "feed" and st.plan:
            shape = tuple(size[0]) if (len(size) == 1 and isinstance(size[0], (tuple, list, real.Size))) else tuple(int(s) for s in size)
            n = 1
            for s in shape:
                n *= int(s)
            vals = []
            for _ in range(n):
                vals.append(st.plan[st.pos % len(st.plan)])
                st.pos += 1
            out = real.tensor(vals, dtype=kw.get("dtype") or real.float32).reshape(shape)
        else:
            out = real.rand(*size, **kw)
        st.drawn.extend(float(v) for v in out.reshape(-1).tolist())
        return out


class InvariantBroken(Exception):
    pass


def _tree_nodes_consistent(self):
    """Class invariant: every internal node equals op(children); never raises, records."""
    rec = _STATE["rec"]
    if rec is None:
        return True
    rec.hit("tree_invariant_evals")
    name = "SumSegmentTree" if type(self).__name__.startswith("MonitoredSum") else "MinSegmentTree"
    try:
        cap, tree, op = self.capacity, self.tree, self.operation
        if len(tree) != 2 * cap:
            rec.violate("class_invariant", "tree_array_length_is_not_twice_capacity", name, length=len(tree), capacity=cap)
            return True
        for node in range(1, cap):
            want = op(tree[2 * node], tree[2 * node + 1])
            got = tree[node]
            if got != want and not abs(got - want) <= 1e-12 * max(abs(got), abs(want)):
                rec.violate(
                    "class_invariant",
                    "internal_node_differs_from_op_of_children",
                    name,
                    node=node,
                    got=got,
                    children=[tree[2 * node], tree[2 * node + 1]],
                    capacity=cap,
                )
                break
    except Exception as e:  # pragma: no cover - a monitor must not raise into the code
        rec.hit("tree_invariant_monitor_errors")
        rec.extra["tree_invariant_monitor_error"] = repr(e)[:200]
    return True


_CLS = {}


def _monitored_trees(rec):
    from agilerl.components.segment_tree import MinSegmentTree, SumSegmentTree

    if "sum" not in _CLS:
        try:
            import icontract

            _CLS["sum"] = icontract.invariant(_tree_nodes_consistent, error=InvariantBroken)(type("MonitoredSumSegmentTree", (SumSegmentTree,), {}))
            _CLS["min"] = icontract.invariant(_tree_nodes_consistent, error=InvariantBroken)(type("MonitoredMinSegmentTree", (MinSegmentTree,), {}))
            _CLS["how"] = "icontract"
        except Exception:
            # fallback: the same invariant evaluated after every write and every public query
            def _mk(base, nm):
                def __init__(self, *a, **k):
                    base.__init__(self, *a, **k)
                    _tree_nodes_consistent(self)

                def __setitem__(self, idx, val):
                    base.__setitem__(self, idx, val)
                    _tree_nodes_consistent(self)

                def operate(self, *a, **k):
                    r = base.operate(self, *a, **k)
                    _tree_nodes_consistent(self)
                    return r

                return type(nm, (base,), {"__init__": __init__, "__setitem__": __setitem__, "operate": operate})

            _CLS["sum"] = _mk(SumSegmentTree, "MonitoredSumSegmentTree")
            _CLS["min"] = _mk(MinSegmentTree, "MonitoredMinSegmentTree")
            _CLS["how"] = "wrapper"
    rec.hit("invariants_via_" + _CLS["how"])
    return _CLS["sum"], _CLS["min"]


class _Interposed:
    """Module-attribute interposition on agilerl.components.replay_buffer (restored on exit)."""

    def __init__(self, rec, st):
        self.rec, self.st = rec, st

    def __enter__(self):
        import agilerl.components.replay_buffer as rb

        self.rb = rb
        self.saved = (rb.torch, rb.SumSegmentTree, rb.MinSegmentTree)
        real = rb.torch
        if isinstance(real, _TorchProxy):  # a previous case died before restoring
            real = object.__getattribute__(real, "_real")
            self.saved = (real,) + self.saved[1:]
        _STATE["rec"] = self.rec
        s, m = _monitored_trees(self.rec)
        rb.torch = _TorchProxy(real, self.st)
        rb.SumSegmentTree, rb.MinSegmentTree = s, m
        return self

    def __exit__(self, *exc):
        self.rb.torch, self.rb.SumSegmentTree, self.rb.MinSegmentTree = self.saved
        _STATE["rec"] = None
        return False


# ------------------------------------------------------------------ helpers
def _relclose(a, b, rel, abs_=0.0):
    if a == b:
        return True
    if math.isinf(a) or math.isinf(b) or a != a or b != b:
        return False
    return abs(a - b) <= rel * max(abs(a), abs(b)) + abs_


def _build(ids, unsq):
    from agilerl.components.data import Transition

    ids = np.asarray(ids, dtype=np.float32)
    w = len(ids)
    if unsq and w == 1:
        tr = Transition(
            obs=np.full((3,), ids[0], dtype=np.float32),
            action=np.float32(ids[0]),
            reward=float(ids[0]),
            next_obs=np.full((3,), ids[0] + 0.5, dtype=np.float32),
            done=np.array([bool(int(ids[0]) % 2)]),
        ).unsqueeze(0)
    else:
        tr = Transition(
            obs=np.broadcast_to(ids[:, None], (w, 3)).copy(),
            action=ids.copy(),
            reward=ids.astype(np.float64),
            next_obs=np.broadcast_to(ids[:, None], (w, 3)) + np.float32(0.5),
            done=np.asarray([bool(int(i) % 2) for i in ids]),
        )
    td = tr.to_tensordict()
    td.batch_size = [w]
    return td


def _decode_rows(td, n, rec, where):
    """ids of n rows of a TensorDict (all fields must carry the same id); None for a broken row."""
    out = []
    cols = {}
    for k, off in (("obs", 0.0), ("action", 0.0), ("reward", 0.0), ("next_obs", 0.5)):
        a = td[k].reshape(n, -1).numpy().astype(np.float64) - off
        cols[k] = (a.min(axis=1), a.max(axis=1))
    d = td["done"].reshape(n, -1).numpy().astype(np.float64)[:, 0]
    for r in range(n):
        vals = set()
        for k, (lo, hi) in cols.items():
            vals.add(float(lo[r]))
            vals.add(float(hi[r]))
        if len(vals) != 1:
            rec.violate("row_integrity", "fields_of_different_transitions", where, row=r, values=sorted(vals))
            out.append(None)
            continue
        i = vals.pop()
        if d[r] != float(int(i) % 2):
            rec.violate("row_integrity", "done_of_other_transition", where, row=r, id=i)
        out.append(int(i))
    return out


# ------------------------------------------------------------------ the buffer case
def _run_buffer(case, rec: Recorder):
    import torch
    from agilerl.components.sampler import Sampler

    cap, alpha, beta = case["cap"], case["alpha"], case["beta"]
    rng = np.random.default_rng(case["seed"])
    torch.manual_seed(case["seed"])
    st = _RandState()
    ctx = {"cap": cap, "alpha": alpha, "beta": beta}
    with _Interposed(rec, st) as ip:
        buf = ip.rb.PrioritizedReplayBuffer(max_size=cap, alpha=alpha)
        sampler = Sampler(memory=buf)
        if not sampler.per:
            rec.violate("harness", "sampler_did_not_recognise_prioritised_buffer", "Sampler.__init__")
        prio = {}  # id -> priority (python float), the model's table
        model_max = 1.0
        next_id = 1
        added = 0
        fresh = set()  # ids added by the last operation (new transitions)
        ops = []
        last_idxs = None
        updates = 0
        decided_nonuniform = False

        def slots():
            L = len(buf)
            if L == 0:
                return []
            return _decode_rows(buf.storage[:L], L, rec, "PrioritizedReplayBuffer.storage")

        def model_leaves(ids):
            return [float(prio[i]) ** alpha if i in prio else None for i in ids]

        def check_state(where):
            rec.hit("state_checks")
            want_len = min(cap, added)
            if len(buf) != want_len:
                rec.violate("length", "len_differs_from_min_capacity_added", where, got=len(buf), want=want_len, **ctx)
            ids = slots()
            if any(i is None or i not in prio for i in ids):
                rec.violate("content", "stored_row_is_not_an_added_transition", where, ids=ids, ops=ops[-5:], **ctx)
                return None
            if len(set(ids)) != len(ids):
                rec.violate("content", "transition_stored_twice", where, ids=ids, ops=ops[-5:], **ctx)
            leaves = model_leaves(ids)
            for s, want in enumerate(leaves):
                got_s, got_m = buf.sum_tree[s], buf.min_tree[s]
                is_new = ids[s] in fresh
                if is_new:
                    rec.hit("new_transition_priority_checks")
                rec.hit("leaf_checks")
                if not _relclose(got_s, want, 1e-12):
                    rec.violate(
                        "new_priority" if is_new else "tree_leaf",
                        "new_transition_leaf_is_not_max_priority_pow_alpha" if is_new else "sum_leaf_differs_from_priority_pow_alpha",
                        SITE_PRIO,
                        slot=s,
                        id=ids[s],
                        got=got_s,
                        want=want,
                        priority=prio[ids[s]],
                        running_max=model_max,
                        ops=ops[-5:],
                        **ctx,
                    )
                if not _relclose(got_m, want, 1e-12):
                    rec.violate(
                        "new_priority" if is_new else "tree_leaf",
                        "new_transition_min_leaf_is_not_max_priority_pow_alpha" if is_new else "min_leaf_differs_from_priority_pow_alpha",
                        SITE_PRIO,
                        slot=s,
                        id=ids[s],
                        got=got_m,
                        want=want,
                        priority=prio[ids[s]],
                        running_max=model_max,
                        ops=ops[-5:],
                        **ctx,
                    )
            if ids:
                total = float(sum(Fraction(x) for x in leaves))
                got_total = buf.sum_tree.sum()
                rec.hit("total_checks")
                if not _relclose(got_total, total, 1e-9):
                    rec.violate("tree_total", "sum_differs_from_direct_computation", "SumSegmentTree.sum", got=got_total, want=total, ops=ops[-5:], **ctx)
                got_min = buf.min_tree.min()
                rec.hit("min_checks")
                if not _relclose(got_min, min(leaves), 1e-12):
                    rec.violate("tree_min", "min_differs_from_direct_computation", "MinSegmentTree.min", got=got_min, want=min(leaves), ops=ops[-5:], **ctx)
            return ids

        def do_add():
            nonlocal next_id, added
            w = int(rng.integers(1, min(cap, 4) + 1))
            if rng.random() < 0.25:
                w = min(cap, max(1, cap - (added % cap)))  # end exactly at the capacity
                w = min(w, 6)
            ids = list(range(next_id, next_id + w))
            next_id += w
            ops.append(["add", w])
            buf.add(_build(ids, unsq=bool(rng.random() < 0.5)))
            added += w
            for i in ids:
                prio[i] = model_max  # "the highest priority seen so far"
            fresh.clear()
            fresh.update(ids)
            rec.hit("add_calls")
            if added > cap:
                rec.hit("adds_after_wrap")
            check_state("PrioritizedReplayBuffer.add")
            fresh.clear()

        def make_plan(B, ids):
            """variates to feed: returns (mode, plan, name)"""
            r = rng.random()
            if r < 0.25:
                return "record", [], "recorded"
            if r < 0.37:
                return "feed", [0.0] * B, "all_zero"
            if r < 0.49:
                return "feed", [U_MAX] * B, "all_one_minus_2^-24"
            if r < 0.55:
                return "feed", [0.5] * B, "all_half"
            if r < 0.75 and ids:
                # aim at the boundaries between neighbouring priorities (float32 neighbours on both sides)
                leaves = [Fraction(x) for x in model_leaves(ids)]
                pre = [Fraction(0)]
                for x in leaves:
                    pre.append(pre[-1] + x)
                T = pre[-1]
                plan = []
                for j in range(B):
                    lo, hi = T * j / B, T * (j + 1) / B
                    inside = [p for p in pre[1:-1] if lo <= p < hi]
                    if inside and T > 0:
                        p = inside[int(rng.integers(len(inside)))]
                        u = np.float32(float(p * B / T - j))
                        u = [u, np.nextafter(u, np.float32(0)), np.nextafter(u, np.float32(1))][int(rng.integers(3))]
                        u = float(min(max(u, np.float32(0.0)), np.float32(U_MAX)))
                    else:
                        u = [0.0, U_MAX][int(rng.integers(2))]
                    plan.append(u)
                return "feed", plan, "priority_boundaries"
            pal = [0.0, U_MAX, 0.5, 2.0**-24]
            plan = [float(np.float32(rng.random())) if rng.random() < 0.4 else pal[int(rng.integers(len(pal)))] for _ in range(B)]
            plan = [min(u, U_MAX) for u in plan]
            return "feed", plan, "mixed"

        def do_sample():
            nonlocal last_idxs, decided_nonuniform
            L = len(buf)
            B = int(rng.integers(1, L + 1))
            if rng.random() < 0.15:
                B = int(rng.integers(1, min(2 * L, 16) + 1))
            b = beta if rng.random() < 0.8 else BETAS[int(rng.integers(3))]
            ids = slots()
            mode, plan, pname = make_plan(B, ids)
            ops.append(["sample", B, b, pname])
            st.mode, st.plan, st.pos, st.drawn, st.calls = mode, plan, 0, [], 0
            rec.hit("sample_calls")
            rec.hit("variates_" + pname)
            try:
                batch = sampler.sample(B, b)
            except Exception as e:
                from vf.core import CaseTimeout

                if isinstance(e, CaseTimeout):
                    raise
                rec.crash(e, "sample_raised", "sample", batch=B, plan=pname, variates=st.drawn[-4:], ops=ops[-5:], **ctx)
                return
            finally:
                st.mode = "record"
            drawn = list(st.drawn)
            idxs = [int(v) for v in batch["idxs"].reshape(-1).tolist()]
            weights = [float(v) for v in batch["weights"].reshape(-1).tolist()]
            last_idxs = batch["idxs"]
            if len(idxs) != B or len(weights) != B or batch.shape[0] != B:
                rec.violate("sample", "wrong_batch_size", "PrioritizedReplayBuffer.sample", want=B, idxs=len(idxs), weights=len(weights), **ctx)
                return
            # --- only stored indices
            rec.hit("index_range_checks", B)
            bad = [i for i in idxs if not (0 <= i < L)]
            if bad:
                rec.violate("sample_index", "index_not_of_a_stored_transition", SITE_SAMPLE, idxs=idxs, size=L, variates=drawn, plan=pname, ops=ops[-5:], **ctx)
                return
            # --- returned rows are the stored rows at idxs
            rec.hit("row_checks", B)
            got_ids = _decode_rows(batch, B, rec, "PrioritizedReplayBuffer.sample")
            if got_ids != [ids[i] for i in idxs]:
                rec.violate("sample_rows", "returned_row_is_not_the_stored_row_at_idx", "PrioritizedReplayBuffer.sample", got=got_ids, want=[ids[i] for i in idxs], idxs=idxs, **ctx)
            # --- per-draw proportionality
            leaves = [Fraction(x) for x in model_leaves(ids)]
            pre = [Fraction(0)]
            for x in leaves:
                pre.append(pre[-1] + x)
            T = pre[-1]
            nonuniform = min(leaves) != max(leaves)
            if len(drawn) != B:
                rec.hit("draw_protocol_unrecognised")
                rec.extra["draw_protocol"] = {"batch": B, "variates_drawn": len(drawn), "rand_calls": st.calls}
            else:
                tol = T * Fraction(TOL_K, 2**53)
                for j, (u, i) in enumerate(zip(drawn, idxs)):
                    rec.hit("draws_decided")
                    if not (0.0 <= u < 1.0):
                        rec.hit("variates_outside_unit_interval(info)")
                    mass = (j + Fraction(u)) * T / B
                    lo, hi = pre[i], pre[i + 1]
                    owner = min(bisect.bisect_right(pre, mass) - 1, L - 1)
                    if leaves[i] == 0 and T > 0:
                        rec.violate("proportional_draw", "zero_priority_index_sampled", SITE_SAMPLE, draw=j, u=u, got=i, owner=owner, **ctx)
                    elif lo <= mass < hi:
                        rec.hit("draws_exact_owner")
                    elif lo - tol <= mass <= hi + tol:
                        rec.hit("draws_within_rounding_tolerance")
                        if mass == lo and i == owner - 1:
                            rec.hit("boundary_mass_went_left(info)")
                    else:
                        rec.violate(
                            "proportional_draw",
                            "index_does_not_own_the_drawn_mass",
                            "SumSegmentTree.retrieve",
                            draw=j,
                            batch=B,
                            u=u,
                            got=i,
                            owner=owner,
                            mass=float(mass),
                            got_interval=[float(lo), float(hi)],
                            total=float(T),
                            leaves=[float(x) for x in leaves],
                            plan=pname,
                            ops=ops[-5:],
                            **ctx,
                        )
                    if nonuniform:
                        rec.hit("draws_decided_nonuniform")
                        if updates:
                            decided_nonuniform = True
            # --- weights
            rec.hit("weights_checked", B)
            N = L
            raw = {s: float(N * leaves[s] / T) ** (-b) for s in set(range(L))}
            w_all = max(raw.values())
            w_batch = max(raw[i] for i in idxs)
            want_all = [raw[i] / w_all for i in idxs]
            want_batch = [raw[i] / w_batch for i in idxs]
            ok_all = all(_relclose(g, w, 2e-6, 1e-38) for g, w in zip(weights, want_all))
            ok_batch = all(_relclose(g, w, 2e-6, 1e-38) for g, w in zip(weights, want_batch))
            if not (ok_all or ok_batch):
                rec.violate("weights", "weights_differ_from_formula", SITE_WEIGHTS, got=weights, want=want_all, want_batch_normalised=want_batch, idxs=idxs, beta=b, size=N, leaves=[float(x) for x in leaves], ops=ops[-5:], cap=cap, alpha=alpha)
            if any((not (g > 0.0)) or g > 1.0 + 1e-6 or g != g for g in weights):
                rec.violate("weights", "weight_outside_(0,1]", SITE_WEIGHTS, got=weights, idxs=idxs, beta=b, leaves=[float(x) for x in leaves], cap=cap, alpha=alpha)
            check_state("PrioritizedReplayBuffer.sample")

        def do_update():
            nonlocal model_max, updates
            L = len(buf)
            ids = slots()
            r = rng.random()
            if r < 0.4 and last_idxs is not None:
                idx = last_idxs.clone()  # (B,1) int64, as train_off_policy hands it back
                how = "last_sample_idxs(B,1)"
            else:
                B = int(rng.integers(1, 9))
                if r < 0.55:
                    flat = [int(rng.integers(L))] * B  # one index repeated
                elif r < 0.8:
                    flat = [int(x) for x in rng.integers(0, L, size=B)]  # repeats likely
                else:
                    flat = [int(x) for x in rng.permutation(L)[:B]]
                    flat += [0, L - 1][: max(0, min(2, 8 - len(flat)))]
                shape = (len(flat), 1) if rng.random() < 0.5 else (len(flat),)
                if rng.random() < 0.75:
                    idx = torch.tensor(flat, dtype=torch.int64).reshape(shape)
                else:
                    idx = np.asarray(flat, dtype=np.int64).reshape(shape)
                how = "idx%s%s" % ("torch" if isinstance(idx, torch.Tensor) else "numpy", list(shape))
            flat = [int(v) for v in (idx.reshape(-1).tolist())]
            B = len(flat)
            existing = [prio[i] for i in ids] or [1.0]
            pal = [0.0, 1e-12, 1e-7, 1e-5, 1e-5 * (1 + 2**-20), 1e6, 1e12, 1.0, float(existing[int(rng.integers(len(existing)))])]
            vals = []
            for _ in range(B):
                q = rng.random()
                if q < 0.45:
                    vals.append(pal[int(rng.integers(len(pal)))])
                elif q < 0.8:
                    vals.append(float(np.exp(rng.normal(0.0, 2.0))))
                else:
                    vals.append(float(rng.random()) + 1e-6)  # loss + prior_eps, the usual case
            q = rng.random()
            pshape = (B, 1) if rng.random() < 0.3 else (B,)
            if q < 0.4:
                pr = np.asarray(vals, dtype=np.float32).reshape(pshape)  # what RainbowDQN.learn returns
                pk = "numpy_f32"
            elif q < 0.55:
                pr = np.asarray(vals, dtype=np.float64).reshape(pshape)
                pk = "numpy_f64"
            elif q < 0.85:
                pr = torch.tensor(vals, dtype=torch.float32).reshape(pshape)
                pk = "torch_f32"
            else:
                pr = torch.tensor(vals, dtype=torch.float64).reshape(pshape)
                pk = "torch_f64"
            seen = [float(v) for v in pr.reshape(-1).tolist()]  # the values the buffer can see (after the caller's dtype)
            ops.append(["update", how, pk + str(list(pshape)), flat, seen])
            rec.hit("update_calls")
            rec.hit("update_pairs", B)
            if len(set(flat)) < len(flat):
                rec.hit("updates_with_repeated_indices")
            if any(v < FLOOR for v in seen):
                rec.hit("updates_with_tiny_priorities")
            if any(v >= 1e6 for v in seen):
                rec.hit("updates_with_huge_priorities")
            buf.update_priorities(idx, pr)
            for s, v in zip(flat, seen):
                p = max(v, FLOOR)
                prio[ids[s]] = p
                model_max = max(model_max, p)
            updates += 1
            check_state("PrioritizedReplayBuffer.update_priorities")

        do_add()
        fill = rng.random() < 0.5
        for _ in range(case["nops"]):
            r = rng.random()
            if fill and added < cap:
                r = 0.0 if rng.random() < 0.7 else r
            if r < 0.3:
                do_add()
            elif r < 0.68:
                do_sample()
            else:
                do_update()
        # a new transition after everything else: must carry the running max
        do_add()
        do_sample()
        rec.nontrivial = decided_nonuniform
        rec.extra["ops_tail"] = ops[-2:]


# ------------------------------------------------------------------ direct segment-tree case
def _run_tree(case, rec: Recorder):
    cap = case["cap"]
    rng = np.random.default_rng(case["seed"])
    st = _RandState()
    with _Interposed(rec, st) as ip:
        is_sum = case["tree"] == "sum"
        tree = (ip.rb.SumSegmentTree if is_sum else ip.rb.MinSegmentTree)(cap)
        name = "SumSegmentTree" if is_sum else "MinSegmentTree"
        model = {}
        decided = False
        for step in range(case["nops"]):
            i = int(rng.integers(cap))
            q = rng.random()
            if q < 0.4:
                v = [1e-5, 1e-12, 1e12, 1.0, 1e6, 0.25][int(rng.integers(6))]
            else:
                v = float(np.exp(rng.normal(0.0, 3.0)))
            tree[i] = v
            model[i] = v
            rec.hit("tree_writes")
            if tree[i] != v:
                rec.violate("tree_leaf", "leaf_read_differs_from_value_written", name, idx=i, got=tree[i], want=v)
            if is_sum:
                leaves = [Fraction(model.get(s, 0.0)) for s in range(cap)]
                pre = [Fraction(0)]
                for x in leaves:
                    pre.append(pre[-1] + x)
                T = pre[-1]
                got = tree.sum()
                rec.hit("total_checks")
                if not _relclose(got, float(T), 1e-9):
                    rec.violate("tree_total", "sum_differs_from_direct_computation", "SumSegmentTree.sum", got=got, want=float(T), capacity=cap)
                frac = [0.0, U_MAX, 0.5, float(rng.random())][int(rng.integers(4))]
                mass_f = frac * got
                try:
                    idx = tree.retrieve(mass_f)
                except Exception as e:
                    rec.crash(e, "retrieve_raised", "retrieve", mass=mass_f, total=got, capacity=cap)
                    continue
                rec.hit("retrieve_checks")
                decided = True
                mass = Fraction(mass_f)
                tol = T * Fraction(TOL_K, 2**53)
                if not (0 <= idx < cap) or leaves[idx] == 0:
                    rec.violate("retrieve", "retrieved_index_has_no_mass", "SumSegmentTree.retrieve", got=idx, mass=mass_f, leaves=[float(x) for x in leaves])
                elif not (pre[idx] - tol <= mass <= pre[idx + 1] + tol):
                    rec.violate(
                        "retrieve",
                        "index_does_not_own_the_query_mass",
                        "SumSegmentTree.retrieve",
                        got=idx,
                        mass=mass_f,
                        got_interval=[float(pre[idx]), float(pre[idx + 1])],
                        leaves=[float(x) for x in leaves],
                    )
            else:
                want = min([model.get(s, float("inf")) for s in range(cap)])
                got = tree.min()
                rec.hit("min_checks")
                decided = True
                if got != want:
                    rec.violate("tree_min", "min_differs_from_direct_computation", "MinSegmentTree.min", got=got, want=want, capacity=cap)
        rec.nontrivial = decided and cap > 1


# ------------------------------------------------------------------ chi-square smoke signal (never a verdict)
def _run_chi2(case, rec: Recorder):
    import torch
    from agilerl.components.sampler import Sampler

    cap, alpha, B = case["cap"], case["alpha"], case["batch"]
    rng = np.random.default_rng(case["seed"])
    torch.manual_seed(case["seed"])
    st = _RandState()
    with _Interposed(rec, st) as ip:
        buf = ip.rb.PrioritizedReplayBuffer(max_size=cap, alpha=alpha)
        sampler = Sampler(memory=buf)
        for i in range(cap):
            buf.add(_build([i + 1], unsq=False))
        pr = np.exp(rng.normal(0.0, 1.5, size=cap)).astype(np.float32)
        buf.update_priorities(torch.arange(cap).reshape(-1, 1), pr)
        leaves = [Fraction(max(float(p), FLOOR) ** alpha) for p in pr]
        T = sum(leaves)
        counts = np.zeros(cap)
        _STATE["rec"] = None  # the invariants were exercised elsewhere; keep this loop cheap
        for _ in range(case["calls"]):
            batch = sampler.sample(B, 0.4)
            for i in batch["idxs"].reshape(-1).tolist():
                if 0 <= i < cap:
                    counts[int(i)] += 1
        n = case["calls"] * B
        exp = np.asarray([float(x / T) * n for x in leaves])
        chi2 = float(((counts - exp) ** 2 / exp).sum())
        rec.hit("chi2_draws(info)", n)
        rec.extra["chi2_smoke"] = {"draws": n, "df": cap - 1, "chi2": round(chi2, 3), "note": "stratified draws: chi2 is expected below df; smoke signal only"}


def run_case(case):
    from vf.core import CaseTimeout

    rec = Recorder()
    try:
        if case["kind"] == "buffer":
            _run_buffer(case, rec)
        elif case["kind"] == "tree":
            _run_tree(case, rec)
        else:
            _run_chi2(case, rec)
    except CaseTimeout:
        raise
    except Exception as e:  # a legal operation of the property's quantifier raised
        rec.crash(e, "crash", "prioritised buffer operation")
        rec.nontrivial = True
    finally:
        _STATE["rec"] = None
    return rec.result()


def finalize(ctx):
    smoke = []
    for r in ctx["results"].values():
        ex = r.get("extra") or {}
        if "chi2_smoke" in ex:
            smoke.append(ex["chi2_smoke"])
    unrec = ctx["counters"].get("draw_protocol_unrecognised", 0)
    if unrec:
        ctx["inconclusive"].append(f"{int(unrec)} sample calls drew their variates in an unrecognised pattern (per-draw oracle unobservable)")
    return {"chi2_smoke": smoke}
