"""C13 - the vector environment rejects misuse and survives worker faults without hanging.

Two workloads against the real ``AsyncPettingZooVecEnv``:

(1) misuse: a reference state machine (DEFAULT / WAITING_RESET / WAITING_STEP /
    WAITING_CALL / CLOSED) predicts for every interface call of a sequence which
    documented exception (NoAsyncCallError, AlreadyPendingCallError,
    ClosedEnvironmentError) or none must occur.  The sub-environments are scripted
    counters, so every *accepted* call is also checked for the values it must
    return: a rejected call that nevertheless reached a worker shows up as a
    shifted result later ("leaves the environment usable").  All sequences over
    the 11 interface calls up to length 3 (quick) / 4 (thorough) plus long random
    walks.

(2) faults: the scripted sub-environment follows a fault plan (worker, command,
    invocation number, kind) and raises / sleeps past the timeout / kills its own
    process.  Oracle: same exception type reaches the caller, a timeout is a
    multiprocessing.TimeoutError, close() returns and no worker recorded at
    construction (nor any other child of the driver) is alive afterwards.

Every scenario runs in its own *driver* process (forked from the shard worker,
own process group).  "Does not hang" is decided structurally: when the driver is
silent, the supervisor samples /proc/<pid>/{stat,status,syscall,wchan,stack} of the
driver and of every worker three times; only if the driver sits in a blocking
read / wait4 / poll(-1), every worker is dead or itself blocked in read(), and no
process consumed CPU or switched context between the samples, the configuration is
a dead-lock (nothing inside the closed set of processes can ever wake another) and
the case is VIOLATED; python-level tracebacks (faulthandler, SIGUSR1 via tgkill and
faulthandler.dump_traceback_later in the driver) name the mechanism.  Anything
still runnable when the generous watchdog fires is INCONCLUSIVE, never a
violation.  All left-over processes are killed afterwards.
"""

from __future__ import annotations

import functools
import itertools
import os
import re
import signal
import time
import traceback

import numpy as np

from vf.core import Recorder

PROPERTY = "C13"
LEVEL = "fault_enumeration"
RULE = (
    "misuse case = a block of the lexicographic enumeration of ALL sequences over the 11 interface calls "
    "(reset_async, reset_wait, step_async, step_wait, call_async, call_wait, set_attr, close, reset, step, call) "
    "of length 1..3 (quick) / 1..4 (thorough) on a 2-env set, or a 200-call random walk (2-3 envs); non-trivial = "
    "at least one rejection predicted by the state machine was observed AND a later correct call returned the "
    "values the scripted counters predict.  fault case = (n_envs 2-3, [(worker, command in reset|step|call|set_attr, "
    "invocation number 0-3, kind in raise_value|raise_key|raise_custom|raise_custom2|raise_unpicklable|sleep|delay|"
    "kill_exit|kill_sigkill)] single or double, call mode sync|async|async+timeout, phase wait|close-while-pending, "
    "close variant, timeout value handed to *_wait / close in 0.1|0|0.0|0.001, caller ops attempted after the failure); non-trivial = the planned fault was confirmed by the "
    "worker's marker AND the close()/no-worker-alive oracle was evaluated (returned, raised or structurally "
    "dead-locked); distinct = distinct case descriptions"
)
ASSUMPTIONS = [
    "sub-environments are scripted 2-agent ParallelEnvs whose observations/rewards/call results are counters; they never terminate (auto-reset is C12's subject)",
    "for a killed worker no exception type is demanded from the wait (the statement does not name one); only hang-freedom, close() returning and no worker left alive are checked",
    "when two different faults hit the same command either injected exception type (or the timeout) is accepted",
    "close() issued while a failed call is still pending may propagate the worker's own exception type (accepted if no worker stays alive); any other exception out of close() is reported by the separate monitor close_raises",
    "dead-lock is decided from three /proc samples (state S in read/wait4/poll(-1), identical context-switch and CPU counters, workers dead or blocked in read); Linux x86_64 syscall numbers; otherwise the case is inconclusive",
    "'promptly' = bounded progress: no dead-lock and return before the 30 s silence watchdog (a sleeper is released by the driver as soon as the timed wait came back, i.e. after ~0.1 s; it sleeps 0.3 s where the interface has no timeout and gives up after 6 s on trees that ignore timeouts); absolute latency is not asserted",
    "caller operations attempted after a worker fault (other than close) are not judged except for dead-lock (monitor after_fault_deadlock)",
    "timeouts are decided with gated sleepers: the worker stays blocked until the driver opens its gate, which happens only after *_wait(timeout=t) "
    "(t in 0, 0.0, 0.001, 0.1) or close(terminate=True)/close(timeout=t) on the pending call has come back; a sleeper that leaves its gate on its own (6 s) "
    "before close() returned proves that close() waited for it (monitor close_prompt)",
    "the dead-lock detector is validated in every run: a synthetic two-process dead-lock (independent of AgileRL) must be recognised and a worker that is slow for 4.5 s must be classified as progress, else the run is inconclusive",
    "after close() raised, workers get a 3 s grace to exit; one that is still alive and blocked in read() is reported, one that is still runnable makes the case inconclusive",
]
REQUIRED_COUNTERS = [
    "deadlock_detector_selftest_ok",
    "deadlock_detector_negative_control_ok",
    "misuse_sequences_checked",
    "misuse_rejections_checked",
    "usable_after_reject_checks",
    "accepted_call_value_checks",
    "fault_exception_type_checks",
    "timeout_checks",
    "timeout_zero_checks",
    "close_on_gated_sleeper_checks",
    "close_return_checks",
    "no_worker_alive_checks",
]
CASE_TIMEOUT_S = 420

# ----------------------------------------------------------------------------- constants
CALLS = [
    "reset_async",
    "reset_wait",
    "step_async",
    "step_wait",
    "call_async",
    "call_wait",
    "set_attr",
    "close",
    "reset",
    "step",
    "call",
]
CMDS = ["reset", "step", "call", "set_attr"]
KINDS = [
    "raise_value",
    "raise_key",
    "raise_custom",
    "raise_custom2",
    "raise_unpicklable",
    "raise_connreset",
    "raise_brokenpipe",
    "raise_big",
    "sleep",
    "delay",
    "kill_exit",
    "kill_sigkill",
]
# "delay_long" is not part of the matrix: it is the negative control of the dead-lock detector (a worker that is
# merely slow for longer than INSPECT_AFTER_S must be classified as progress, never as a dead-lock)
FAMILY = {
    "raise_value": "raise",
    "raise_key": "raise",
    "raise_custom": "raise",
    "raise_custom2": "raise_multiarg",
    "raise_unpicklable": "raise_unpicklable",
    # exceptions of the OS / connection family raised BY THE SUB-ENVIRONMENT (an environment that talks to a remote
    # simulator): they are the sub-environment's exception like any other, not a sign that the parent went away
    "raise_connreset": "raise",
    "raise_brokenpipe": "raise",
    # an exception whose pickled report (payload + traceback) is far larger than an OS pipe buffer
    "raise_big": "raise",
    "sleep": "sleep",
    "delay": "delay",
    "delay_long": "delay",
    "kill_exit": "kill",
    "kill_sigkill": "kill",
}
AGENTS = ["a0", "a1"]
SLEEP_S = 0.3  # injected sleep where the interface offers no timeout (set_attr, close() on a pending call)
SLEEP_MAX_S = 6.0  # a gated sleeper gives up waiting for its release after this long (only reached on broken trees)
T_SHORT = 0.1  # default timeout handed to *_wait when a sleep is planned (case field "tmo" overrides it)
TIMEOUTS = [0.1, 0, 0.0, 0.001]  # the timeout values enumerated for sleepers: int 0, float 0.0, tiny, ordinary
T_LONG = 12.0  # timeout handed to *_wait when nothing slow is planned (must never fire; < WATCHDOG_S)
T_AFTER = 1.0  # finite timeout for caller ops attempted after a fault
DELAY_S = 0.05
DELAY_LONG_S = 4.5  # > INSPECT_AFTER_S: the structural inspection runs while the worker is only slow
INSPECT_AFTER_S = 2.5  # driver silent for this long -> first structural inspection
INSPECT_EVERY_S = 2.0
WATCHDOG_S = 30.0  # driver silent for this long and not provably dead-locked -> inconclusive
DUMP_LATER_S = 25.0
GRACE_S = 3.0
GRACE_MAX_S = 15.0
DEBUG = bool(os.environ.get("VF_C13_DEBUG"))


# ----------------------------------------------------------------------------- scripted env
class ScriptedFault(Exception):
    """custom exception raised by the scripted sub-environment"""


class ScriptedFault2(Exception):
    """custom exception with a two-argument constructor (like OSError(errno, msg) / CalledProcessError)"""

    def __init__(self, code, where):
        super().__init__(code, where)
        self.code = code
        self.where = where


class BigFault(ValueError):
    """exception that carries a large payload (e.g. the offending observation batch)"""

    def __init__(self, msg, blob=b""):
        super().__init__(msg, blob)
        self.blob = blob


class UnpicklableFault(Exception):
    """exception that carries a payload pickle cannot serialise (e.g. a handle / closure)"""

    def __init__(self, msg):
        super().__init__(msg)
        self.payload = lambda: None


def _fault_class(kind):
    return {
        "raise_value": ValueError,
        "raise_key": KeyError,
        "raise_custom": ScriptedFault,
        "raise_custom2": ScriptedFault2,
        "raise_unpicklable": UnpicklableFault,
        "raise_connreset": ConnectionResetError,
        "raise_brokenpipe": BrokenPipeError,
        "raise_big": BigFault,
    }.get(kind)


def _make_env_class():
    from gymnasium.spaces import Box, Discrete
    from pettingzoo import ParallelEnv

    class ScriptedPZEnv(ParallelEnv):
        metadata = {"name": "vf_scripted_v0", "render_modes": []}

        def __init__(self, index=0, plan=(), marker_fd=-1):
            self.index = int(index)
            self.plan = [dict(f) for f in plan]
            self.marker_fd = marker_fd
            self.possible_agents = list(AGENTS)
            self.agents = list(AGENTS)
            self.render_mode = None
            self.n_resets = 0
            self.t = 0
            self._knob = 0
            self._count = {c: 0 for c in CMDS}

        def observation_space(self, agent):
            return Box(low=-1.0, high=1e6, shape=(3,), dtype=np.float32)

        def action_space(self, agent):
            return Discrete(3)

        def _obs(self):
            return {
                a: np.array([self.index, self.n_resets, self.t + 0.25 * ai], dtype=np.float32) for ai, a in enumerate(AGENTS)
            }

        def _fault(self, cmd):
            n = self._count[cmd]
            self._count[cmd] = n + 1
            for f in self.plan:
                if f["w"] == self.index and f["cmd"] == cmd and f["n"] == n:
                    kind = f["kind"]
                    if self.marker_fd >= 0:
                        try:
                            os.write(self.marker_fd, f"{self.index} {cmd} {n} {kind}\n".encode())
                        except OSError:
                            pass
                    if kind == "raise_value":
                        raise ValueError(f"scripted ValueError in {cmd} #{n} of env {self.index}")
                    if kind == "raise_key":
                        raise KeyError(f"scripted_key_{cmd}_{n}")
                    if kind == "raise_custom":
                        raise ScriptedFault(f"scripted fault in {cmd} #{n} of env {self.index}")
                    if kind == "raise_custom2":
                        raise ScriptedFault2(self.index, cmd)
                    if kind == "raise_unpicklable":
                        raise UnpicklableFault(f"unpicklable fault in {cmd} #{n}")
                    if kind == "raise_connreset":
                        raise ConnectionResetError(f"scripted connection reset in {cmd} #{n} of env {self.index}")
                    if kind == "raise_brokenpipe":
                        raise BrokenPipeError(f"scripted broken pipe in {cmd} #{n} of env {self.index}")
                    if kind == "raise_big":
                        raise BigFault(f"scripted fault with a large payload in {cmd} #{n}", bytes(512 * 1024))
                    if kind == "sleep":
                        # sleeps *past the caller's timeout* by construction: the driver opens the gate only
                        # after its *_wait(timeout=...) came back (machine load cannot make the sleeper early)
                        gate = f.get("gate", -1)
                        if gate >= 0:
                            import select

                            ready, _, _ = select.select([gate], [], [], SLEEP_MAX_S)
                            if not ready and self.marker_fd >= 0:
                                # nobody opened the gate: the caller kept waiting for this worker
                                try:
                                    os.write(self.marker_fd, f"gaveup {self.index} {cmd} {n} {kind}\n".encode())
                                except OSError:
                                    pass
                        else:
                            time.sleep(SLEEP_S)
                    elif kind == "delay":
                        time.sleep(DELAY_S)
                    elif kind == "delay_long":
                        time.sleep(DELAY_LONG_S)
                    elif kind == "kill_exit":
                        os._exit(17)
                    elif kind == "kill_sigkill":
                        os.kill(os.getpid(), signal.SIGKILL)
                        time.sleep(30)

        def reset(self, seed=None, options=None):
            self._fault("reset")
            self.agents = list(AGENTS)
            self.n_resets += 1
            self.t = 0
            return self._obs(), {a: {} for a in AGENTS}

        def step(self, actions):
            self._fault("step")
            self.t += 1
            rew = {a: float(10 * self.index + self.t) for a in AGENTS}
            return self._obs(), rew, {a: False for a in AGENTS}, {a: False for a in AGENTS}, {a: {} for a in AGENTS}

        def probe(self, x=0):
            self._fault("call")
            return [self.index, self.n_resets, self.t, int(x), self._knob]

        @property
        def knob(self):
            return self._knob

        @knob.setter
        def knob(self, v):
            self._fault("set_attr")
            self._knob = v

        def close(self):
            pass

    ScriptedPZEnv.__module__ = __name__
    ScriptedPZEnv.__qualname__ = "ScriptedPZEnv"
    return ScriptedPZEnv


ScriptedPZEnv = None  # bound in preload() (pettingzoo/gymnasium are imported there, once, before the fork)


def _env_class():
    global ScriptedPZEnv
    if ScriptedPZEnv is None:
        ScriptedPZEnv = _make_env_class()
    return ScriptedPZEnv


def _env_factory(index, plan, marker_fd):
    return _env_class()(index=index, plan=plan, marker_fd=marker_fd)


def preload():
    import gymnasium  # noqa
    import pettingzoo  # noqa
    import psutil  # noqa
    import agilerl.vector.pz_async_vec_env  # noqa
    import agilerl.vector.pz_vec_env  # noqa
    from vf.core import quiet_torch

    quiet_torch()
    _env_class()


# ----------------------------------------------------------------------------- reference model
class RefModel:
    """The documented state machine + the counters of the scripted sub-environments."""

    def __init__(self, n):
        self.n = n
        self.state = "DEFAULT"
        self.envs = [{"r": 0, "t": 0, "knob": 0} for _ in range(n)]
        self.call_arg = 0

    def predict(self, call):
        if self.state == "CLOSED":
            return None if call == "close" else "ClosedEnvironmentError"
        if call == "close":
            return None
        if call.endswith("_wait"):
            want = "WAITING_" + call[:-5].upper()
            return None if self.state == want else "NoAsyncCallError"
        return None if self.state == "DEFAULT" else "AlreadyPendingCallError"

    def legal_calls(self):
        return [c for c in CALLS if c != "close" and self.predict(c) is None]

    def apply(self, call, arg):
        """call was accepted"""
        base = call[:-6] if call.endswith("_async") else call
        if call == "close":
            self.state = "CLOSED"
            return
        if call.endswith("_wait"):
            self.state = "DEFAULT"
            return
        if base == "reset":
            for e in self.envs:
                e["r"] += 1
                e["t"] = 0
        elif base == "step":
            for e in self.envs:
                e["t"] += 1
        elif base == "call":
            self.call_arg = arg
        elif base == "set_attr":
            vals = arg if isinstance(arg, (list, tuple)) else [arg] * self.n
            for e, v in zip(self.envs, vals):
                e["knob"] = v
        if call.endswith("_async"):
            self.state = "WAITING_" + base.upper()

    def check_result(self, call, value):
        """-> None if the returned value is what the counters predict, else a description"""
        base = call[:-5] if call.endswith("_wait") else call
        try:
            if base in ("reset", "step"):
                obs = value[0]
                for ai, a in enumerate(AGENTS):
                    got = np.asarray(obs[a], dtype=np.float64).reshape(self.n, 3)
                    want = np.array([[i, e["r"], e["t"] + 0.25 * ai] for i, e in enumerate(self.envs)], dtype=np.float64)
                    if not np.array_equal(got, want):
                        return {"what": f"{base} observation of {a}", "got": got.tolist(), "want": want.tolist()}
                if base == "step":
                    rew = value[1]
                    for a in AGENTS:
                        got = np.asarray(rew[a], dtype=np.float64).reshape(-1)
                        want = np.array([10 * i + e["t"] for i, e in enumerate(self.envs)], dtype=np.float64)
                        if got.shape != want.shape or not np.array_equal(got, want):
                            return {"what": f"step reward of {a}", "got": got.tolist(), "want": want.tolist()}
            elif base == "call":
                got = [list(v) for v in value]
                want = [[i, e["r"], e["t"], int(self.call_arg), e["knob"]] for i, e in enumerate(self.envs)]
                if got != want:
                    return {"what": "call result", "got": got, "want": want}
        except Exception as e:  # malformed result
            return {"what": "malformed result", "error": f"{type(e).__name__}: {e}", "value": repr(value)[:200]}
        return None


# ----------------------------------------------------------------------------- driver side (child process)
def _js(x, depth=0):
    if depth > 5:
        return repr(x)[:120]
    if x is None or isinstance(x, (bool, int, float, str)):
        return x
    if isinstance(x, dict):
        return {str(k): _js(v, depth + 1) for k, v in x.items()}
    if isinstance(x, (list, tuple, set)):
        return [_js(v, depth + 1) for v in x]
    if isinstance(x, np.generic):
        return x.item()
    if isinstance(x, np.ndarray):
        return x.tolist()
    return repr(x)[:200]


class _Em:
    """event stream driver -> supervisor (monitors record, they never raise)"""

    def __init__(self, conn):
        self.conn = conn
        self.buf = {}

    def _send(self, m):
        try:
            self.conn.send(m)
        except Exception:
            pass

    def flush(self):
        if self.buf:
            self._send({"t": "hits", "h": self.buf})
            self.buf = {}

    def hit(self, name, n=1):
        self.buf[name] = self.buf.get(name, 0) + n

    def op(self, tag, **d):
        self.flush()
        self._send({"t": "op", "tag": tag, "d": _js(d)})

    def violate(self, monitor, kind, site, **detail):
        self.flush()
        self._send({"t": "viol", "monitor": monitor, "kind": kind, "site": site, "detail": _js(detail)})

    def extra(self, key, value):
        self._send({"t": "extra", "key": key, "value": _js(value)})

    def msg(self, t, **kw):
        self.flush()
        m = {"t": t}
        m.update(_js(kw))
        self._send(m)


def _exc_name(e):
    return type(e).__name__


_PIPE_ERRORS = ("EOFError", "BrokenPipeError", "ConnectionResetError", "ConnectionAbortedError", "ConnectionRefusedError")


def _stable_exc_name(e):
    """EOFError / BrokenPipeError / ConnectionResetError are timing variants of 'the peer of this pipe is gone'"""
    n = type(e).__name__
    return "PipePeerGone" if n in _PIPE_ERRORS else n


def _actions_list(n):
    return [[0 for _ in AGENTS] for _ in range(n)]


def _actions_dict(n):
    return {a: np.zeros(n, dtype=np.int64) for a in AGENTS}


def _perform(vec, call, arg=None, timeout=None):
    """one interface call on the real object -> ("ok", value) | ("exc", exception)"""
    try:
        n = vec.num_envs
        if call == "reset_async":
            return "ok", vec.reset_async(seed=arg, options=None)
        if call == "reset_wait":
            return "ok", vec.reset_wait(timeout=timeout) if timeout is not None else vec.reset_wait()
        if call == "step_async":
            return "ok", vec.step_async(_actions_list(n))
        if call == "step_wait":
            return "ok", vec.step_wait(timeout=timeout) if timeout is not None else vec.step_wait()
        if call == "call_async":
            return "ok", vec.call_async("probe", arg)
        if call == "call_wait":
            return "ok", vec.call_wait(timeout=timeout) if timeout is not None else vec.call_wait()
        if call == "set_attr":
            return "ok", vec.set_attr("knob", arg)
        if call == "close":
            return "ok", vec.close()
        if call == "reset":
            return "ok", vec.reset(seed=arg, options=None)
        if call == "step":
            return "ok", vec.step(_actions_dict(n))
        if call == "call":
            return "ok", vec.call("probe", arg)
        raise RuntimeError(f"harness: unknown call {call}")
    except Exception as e:  # noqa
        return "exc", e


def _pid_ctime(pid):
    import psutil

    try:
        return psutil.Process(pid).create_time()
    except Exception:
        return None


def _alive(pid):
    """alive and not a zombie"""
    import psutil

    try:
        p = psutil.Process(pid)
        return p.is_running() and p.status() != psutil.STATUS_ZOMBIE
    except Exception:
        return False


def _children_pids():
    import psutil

    try:
        return [c.pid for c in psutil.Process().children(recursive=True)]
    except Exception:
        return []


def _make_vec(n_envs, plan, marker_fd, em):
    import faulthandler

    from agilerl.vector.pz_async_vec_env import AsyncPettingZooVecEnv

    try:
        faulthandler.cancel_dump_traceback_later()  # no helper thread may exist while workers are forked
    except Exception:
        pass
    before = set(_children_pids())
    fns = [functools.partial(_env_factory, i, plan, marker_fd) for i in range(n_envs)]
    em.op("construct", n_envs=n_envs)
    vec = AsyncPettingZooVecEnv(fns)
    pids = [p for p in _children_pids() if p not in before]
    try:
        order = [p.pid for p in vec.processes]
        pids = [p for p in order if p in pids] + [p for p in pids if p not in order]
    except Exception:
        pass
    em.msg("pids", pids=[[p, _pid_ctime(p)] for p in pids])
    return vec, pids


def _arm_dump(tb_fd):
    import faulthandler

    try:
        faulthandler.dump_traceback_later(DUMP_LATER_S, repeat=True, file=tb_fd, exit=False)
    except Exception:
        pass


def _kill_pids(pids):
    for p in pids:
        try:
            os.kill(p, signal.SIGKILL)
        except OSError:
            pass


def _dispose(vec, pids):
    """throw an env set away without trusting it"""
    _kill_pids(pids)
    _kill_pids(_children_pids())
    try:
        vec.closed = True  # keeps __del__ from re-entering close() on a broken object
    except Exception:
        pass


def _blocked_class(snap):
    """'read' | 'wait4' | 'poll_inf' if the main thread sits in a syscall that only another process can end"""
    if not snap.get("alive") or snap.get("state") != "S":
        return None
    sc = snap.get("syscall") or []
    if not sc or not sc[0].lstrip("-").isdigit():
        return None
    nr = int(sc[0])
    try:
        args = [int(a, 16) for a in sc[1:7]]
    except ValueError:
        return None
    if nr == 0:
        return "read"
    if nr == 61 and len(args) >= 3 and (args[2] & 0xFFFFFFFF) == 0:
        return "wait4"
    if nr == 7 and len(args) >= 3 and (args[2] & 0xFFFFFFFF) == 0xFFFFFFFF:
        return "poll_inf"
    return None


def _thread_blocked_forever(sc) -> bool:
    """True iff a thread's /proc syscall line shows a call that only ANOTHER process or thread can end (no timeout)."""
    if not sc or not sc[0].lstrip("-").isdigit():
        return False
    nr = int(sc[0])
    try:
        args = [int(a, 16) for a in sc[1:7]]
    except ValueError:
        return False
    if nr in (0, 1):  # read / write on a pipe or socket
        return True
    if nr == 202:  # futex(uaddr, op, val, timeout, ...): FUTEX_WAIT* without a timeout
        op = args[1] & 0x7F if len(args) > 1 else -1
        return op in (0, 9) and len(args) > 3 and args[3] == 0
    if nr == 61:  # wait4 without WNOHANG
        return len(args) >= 3 and (args[2] & 0xFFFFFFFF) == 0
    if nr == 7:  # poll(-1)
        return len(args) >= 3 and (args[2] & 0xFFFFFFFF) == 0xFFFFFFFF
    if nr == 271:  # ppoll(NULL timeout)
        return len(args) >= 3 and args[2] == 0
    if nr in (23, 270):  # select / pselect6 with a NULL timeout
        return len(args) >= 5 and args[4] == 0
    return False


def _threads(pid):
    """[(tid, state, syscall words, (voluntary, involuntary) context switches)] of every thread of pid"""
    out = []
    try:
        tids = sorted(int(t) for t in os.listdir(f"/proc/{pid}/task"))
    except OSError:
        return out
    for tid in tids:
        st = _read_file(f"/proc/{pid}/task/{tid}/stat")
        if not st:
            continue
        state = st[st.rfind(")") + 2 :].split()[0]
        status = _read_file(f"/proc/{pid}/task/{tid}/status") or ""
        m = re.search(r"voluntary_ctxt_switches:\s+(\d+)\s+nonvoluntary_ctxt_switches:\s+(\d+)", status)
        out.append((tid, state, tuple((_read_file(f"/proc/{pid}/task/{tid}/syscall") or "").split()),
                    (int(m.group(1)), int(m.group(2))) if m else None))
    return out


def _read_file(path):
    try:
        with open(path) as f:
            return f.read()
    except OSError:
        return None


def _snapshot(pid):
    st = _read_file(f"/proc/{pid}/stat")
    if not st:
        return {"pid": pid, "alive": False, "state": "gone"}
    rest = st[st.rfind(")") + 2 :].split()
    state = rest[0]
    snap = {"pid": pid, "state": state, "alive": state not in ("Z", "X", "x"), "cpu": int(rest[11]) + int(rest[12])}
    status = _read_file(f"/proc/{pid}/status") or ""
    m = re.search(r"voluntary_ctxt_switches:\s+(\d+)\s+nonvoluntary_ctxt_switches:\s+(\d+)", status)
    snap["ctx"] = [int(m.group(1)), int(m.group(2))] if m else None
    m = re.search(r"Threads:\s+(\d+)", status)
    snap["threads"] = int(m.group(1)) if m else None
    snap["syscall"] = (_read_file(f"/proc/{pid}/syscall") or "").split()
    snap["wchan"] = (_read_file(f"/proc/{pid}/wchan") or "").strip()
    stack = _read_file(f"/proc/{pid}/stack") or ""
    snap["kstack"] = [ln.split("] ")[-1].split("+")[0] for ln in stack.splitlines()[:6]]
    snap["tasks"] = _threads(pid)
    if snap["syscall"] and snap["syscall"][0] == "0" and len(snap["syscall"]) > 1:
        try:
            snap["fd"] = os.readlink(f"/proc/{pid}/fd/{int(snap['syscall'][1], 16)}")
        except (OSError, ValueError):
            snap["fd"] = None
    return snap


def _check_no_worker_alive(em, pids, site, close_outcome, **detail):
    """after close(): every recorded worker and every other child of the driver must be gone"""
    em.hit("no_worker_alive_checks")
    t0 = time.monotonic()
    grace = 0.0 if close_outcome == "returned" else GRACE_S
    watch = list(pids)
    while True:
        extra_children = [p for p in _children_pids() if p not in watch]
        alive = [p for p in watch + extra_children if _alive(p)]
        blocked, runnable = [], []
        for p in alive:
            s = _snapshot(p)
            if s.get("alive"):
                (blocked if _blocked_class(s) == "read" else runnable).append(s)
        waited = time.monotonic() - t0
        if not (blocked or runnable) or waited >= GRACE_MAX_S or grace == 0.0:
            break
        if waited >= grace and not runnable:
            break  # whoever is left waits for a command that will never come
        time.sleep(0.05)
    if not (blocked or runnable):
        return True
    if close_outcome == "returned" or blocked:
        em.violate(
            "worker_alive_after_close",
            "close_returned_but_worker_alive" if close_outcome == "returned" else f"close_{close_outcome}_and_worker_blocked_alive",
            site,
            alive_workers=[s["pid"] for s in blocked + runnable],
            worker_index=[pids.index(s["pid"]) if s["pid"] in pids else -1 for s in blocked + runnable],
            snapshots=[{k: s.get(k) for k in ("state", "wchan", "syscall", "fd")} for s in (blocked + runnable)[:3]],
            **detail,
        )
    else:
        em.msg("inconclusive", why=f"worker still runnable {GRACE_MAX_S}s after close() {close_outcome} ({site})")
    return False


# ---- misuse
def _arg_for(call, k, n):
    base = call[:-6] if call.endswith("_async") else call
    if base == "reset":
        return None if k % 2 else 100 + k
    if base == "call":
        return k
    if base == "set_attr":
        return [k * 10 + i for i in range(n)] if k % 2 else k
    return None


def _run_sequence(es, seq, em, salt, seq_id):
    """-> True if the env set may be re-used for the next sequence"""
    vec, model, pids = es["vec"], es["model"], es["pids"]
    n = model.n
    rejected = 0
    ok_after_reject = 0
    history = []
    clean = True

    def one(call, tag):
        nonlocal rejected, ok_after_reject, clean
        k = es["k"] = es["k"] + 1
        arg = _arg_for(call, k, n)
        timeout = None
        if call.endswith("_wait") and (k + salt) % 2:
            timeout = T_LONG
        state = model.state
        want = model.predict(call)
        site = f"{call}@{state}"
        em.op(tag, seq=seq_id, call=call, state=state, history=history[-6:])
        kind, val = _perform(vec, call, arg, timeout)
        history.append(call)
        got = _exc_name(val) if kind == "exc" else None
        if want is not None:
            em.hit("misuse_rejections_checked")
            em.hit("rejections:" + want)
            if got == want:
                rejected += 1
                return True
            clean = False
            em.violate(
                "misuse_guard",
                f"expected_{want}_got_{got or 'no_exception'}",
                site,
                sequence=history[-8:],
                message=str(val)[:200] if kind == "exc" else None,
                real_state=str(getattr(vec, "_state", None)),
                real_closed=bool(getattr(vec, "closed", None)),
            )
            return False
        if kind == "exc":
            clean = False
            em.violate(
                "misuse_usable",
                f"correct_call_raised_{got}",
                site,
                after_rejections=rejected,
                sequence=history[-8:],
                message=str(val)[:200],
                real_state=str(getattr(vec, "_state", None)),
            )
            return False
        model.apply(call, arg)
        if call.endswith("_wait") or call in ("reset", "step", "call"):
            em.hit("accepted_call_value_checks")
            bad = model.check_result(call, val)
            if bad is not None:
                clean = False
                em.violate("misuse_usable", "accepted_call_returned_wrong_values", site, after_rejections=rejected, sequence=history[-8:], **bad)
                return False
        if rejected:
            ok_after_reject += 1
        return True

    for call in seq:
        if not one(call, "misuse_call"):
            break
    if clean:
        # usability probe: complete what is pending, then one remote call and one step must give the right values
        if model.state.startswith("WAITING_"):
            clean = one(model.state[8:].lower() + "_wait", "misuse_probe")
        if clean and model.state == "DEFAULT":
            clean = one("call", "misuse_probe") and one("step", "misuse_probe")
        elif clean and model.state == "CLOSED":
            em.op("misuse_post_close", seq=seq_id)
            _check_no_worker_alive(em, pids, "misuse_close", "returned", sequence=history[-8:])
            em.hit("closed_no_worker_alive_checks")
            kind, val = _perform(vec, "close")
            if kind == "exc":
                em.violate("misuse_guard", f"second_close_raised_{_exc_name(val)}", "close@CLOSED", sequence=history[-8:])
    if rejected:
        em.hit("usable_after_reject_checks")
        if clean and (ok_after_reject or model.state == "CLOSED"):
            em.hit("sequences_rejection_then_correct_call_ok")
    em.hit("misuse_sequences_checked")
    em.hit("misuse_calls_issued", len(history))
    em.msg("seq_done", i=seq_id, nontrivial=bool(clean and rejected and ok_after_reject))
    return clean and model.state == "DEFAULT"


def _nth_sequence(length, idx):
    out = []
    for _ in range(length):
        idx, r = divmod(idx, len(CALLS))
        out.append(CALLS[r])
    return out[::-1]


def _drive_misuse(job, em, tb_fd, marker_fd):
    n = job["n_envs"]
    es = None
    try:
        for i in range(job["start"] + job.get("skip", 0), job["start"] + job["count"]):
            seq = _nth_sequence(job["len"], i)
            if es is None:
                vec, pids = _make_vec(n, [], -1, em)
                _arm_dump(tb_fd)
                es = {"vec": vec, "model": RefModel(n), "pids": pids, "k": 0}
                em.hit("env_sets_created")
            reusable = _run_sequence(es, seq, em, job.get("salt", 0) + i, i)
            if not reusable:
                _dispose(es["vec"], es["pids"])
                es = None
    finally:
        if es is not None:
            em.op("misuse_final_close")
            kind, val = _perform(es["vec"], "close")
            if kind == "exc":
                em.violate("misuse_usable", f"final_close_raised_{_exc_name(val)}", "close@DEFAULT", message=str(val)[:200])
            else:
                _check_no_worker_alive(em, es["pids"], "misuse_close", "returned")
            _dispose(es["vec"], es["pids"])


def _drive_walk(job, em, tb_fd, marker_fd):
    n = job["n_envs"]
    rng = np.random.default_rng(job["seed"])
    vec, pids = _make_vec(n, [], -1, em)
    _arm_dump(tb_fd)
    es = {"vec": vec, "model": RefModel(n), "pids": pids, "k": 0}
    em.hit("env_sets_created")
    calls = []
    model = es["model"]

    def walk():
        # generated against the model, one call at a time (55 % a call that is legal now, else any call but close)
        for _ in range(job["calls"]):
            legal = model.legal_calls()
            if legal and rng.random() < 0.55:
                c = legal[int(rng.integers(len(legal)))]
            else:
                pool = [c for c in CALLS if c != "close"]
                c = pool[int(rng.integers(len(pool)))]
            calls.append(c)
            yield c
        yield "close"
        for _ in range(3):
            yield CALLS[int(rng.integers(len(CALLS)))]

    try:
        _run_sequence(es, walk(), em, job["seed"], 0)
        em.hit("random_walks_done")
    finally:
        _dispose(es["vec"], es["pids"])


# ---- faults
def _op_index(f):
    return f["n"] * len(CMDS) + CMDS.index(f["cmd"])


def _read_marker(marker_fd):
    try:
        data = os.pread(marker_fd, 1 << 16, 0).decode()
    except OSError:
        return []
    out = []
    for ln in data.splitlines():
        p = ln.split()
        if len(p) == 4:
            out.append({"w": int(p[0]), "cmd": p[1], "n": int(p[2]), "kind": p[3]})
    return out


def _read_gaveup(marker_fd):
    """sleepers that left their gate because SLEEP_MAX_S expired (the driver had not released them)"""
    try:
        data = os.pread(marker_fd, 1 << 16, 0).decode()
    except OSError:
        return []
    return [ln.split()[1:] for ln in data.splitlines() if ln.startswith("gaveup ")]


def _families(faults):
    return "+".join(sorted({FAMILY[f["kind"]] for f in faults})) or "none"


def _do_cmd(vec, cmd, mode, timeout, arg, em, tag, site=None):
    """one scripted command in the given call mode -> (status, value_or_exc, where)"""
    if cmd == "set_attr" or mode == "sync":
        em.op(tag, cmd=cmd, how="sync", site=site)
        k, v = _perform(vec, cmd, arg)
        return k, v, cmd
    em.op(tag, cmd=cmd, how="async", site=site)
    k, v = _perform(vec, cmd + "_async", arg)
    if k == "exc":
        return k, v, cmd + "_async"
    em.op(tag, cmd=cmd, how="wait", timeout=timeout, site=site)
    k, v = _perform(vec, cmd + "_wait", None, timeout)
    return k, v, cmd + "_wait"


def _drive_fault(job, em, tb_fd, marker_fd):
    import multiprocessing as mp
    import threading

    n = job["n_envs"]
    faults = [dict(f) for f in job["faults"]]
    mode = job["mode"]
    phase = job["phase"]
    gates = {}
    for j, f in enumerate(faults):
        if f["kind"] == "sleep":
            r, w = os.pipe()
            f["gate"] = r
            gates[j] = w

    def release(op_i, after=0.0):
        """open the gate of every sleeper planned for scripted op op_i (now, or from a timer thread)"""

        def _open():
            for j, f in enumerate(faults):
                if j in gates and _op_index(f) == op_i:
                    try:
                        os.write(gates[j], b"x")
                    except OSError:
                        pass

        if after > 0:
            t = threading.Timer(after, _open)
            t.daemon = True
            t.start()
        else:
            _open()

    vec, pids = _make_vec(n, faults, marker_fd, em)
    _arm_dump(tb_fd)
    model = RefModel(n)
    max_n = max(f["n"] for f in faults)
    script = [c for _ in range(max_n + 2) for c in CMDS]
    fault_ops = sorted({_op_index(f) for f in faults})
    go_until = fault_ops[-1] if job.get("reach_second") else fault_ops[0]
    after_left = int(job.get("after_ops", 0))
    failed = False
    pending_close = False
    pending_gate_op = None  # scripted op whose sleepers stay gated until close() has come back
    plain_gated = False  # plain close() with a worker that is already dead and a gated sleeper
    t_sleep = job.get("tmo", T_SHORT)
    first_cmd = script[fault_ops[0]]
    detail = {
        "fault_kinds": [f["kind"] for f in faults],
        "command": first_cmd,
        "phase": phase,
        "mode": mode,
        "n_envs": n,
        "workers": [f["w"] for f in faults],
        "invocation": [f["n"] for f in faults],
        "close_variant": job.get("close", "plain"),
    }
    k = 0
    reached = -1  # index of the last scripted op that was issued
    continued = 0  # caller ops issued after the first failure

    def cur_site():
        fam = _families([f for f in faults if _op_index(f) <= max(reached, fault_ops[0])])
        return f"{fam}@{first_cmd}" + ("/continued" if continued else "")

    for i, cmd in enumerate(script):
        here = [f for f in faults if _op_index(f) == i]
        k += 1
        arg = _arg_for(cmd, k, n)
        if not failed:
            reached = i
            if not here:
                st, val, where = _do_cmd(vec, cmd, mode, T_LONG if mode == "async_timeout" else None, arg, em, "healthy_op")
                em.hit("healthy_ops_checked")
                if st == "exc":
                    em.violate("healthy_op", f"raised_{_exc_name(val)}", where, message=str(val)[:200], op_index=i, **detail)
                    failed = True
                    break
                model.apply(cmd, arg)
                bad = model.check_result(cmd, val) if cmd != "set_attr" else None
                if bad is not None:
                    em.violate("healthy_op", "wrong_values", where, op_index=i, **detail, **bad)
                    failed = True
                    break
                continue
            # ---- the op in which the plan fires
            kinds_here = [f["kind"] for f in here]
            site = cur_site()
            sleepy = any(kd == "sleep" for kd in kinds_here) and cmd != "set_attr"
            if phase == "close" and cmd != "set_attr":
                em.op("fault_async", cmd=cmd, site=site)
                st, val = _perform(vec, cmd + "_async", arg)
                if st == "exc":
                    em.violate("healthy_op", f"raised_{_exc_name(val)}", cmd + "_async", message=str(val)[:200], **detail)
                if job.get("settle"):
                    time.sleep(float(job["settle"]))
                dead_with_sleeper = False
                if job.get("close", "plain") == "plain" and sleepy and any(FAMILY[kd] == "kill" for kd in kinds_here):
                    # a killed worker TOGETHER with a gated sleeper: once the victim is really dead, a plain close()
                    # has nothing to negotiate any more and must not wait for the sleeper either (gate stays shut)
                    victims = [pids[f["w"]] for f in here if FAMILY[f["kind"]] == "kill" and f["w"] < len(pids)]
                    t_end = time.monotonic() + 3.0
                    while time.monotonic() < t_end and any(_alive(p) for p in victims):
                        time.sleep(0.02)
                    dead_with_sleeper = bool(victims) and not any(_alive(p) for p in victims)
                if job.get("close", "plain") == "plain" and not dead_with_sleeper:
                    release(i, after=SLEEP_S)
                plain_gated = dead_with_sleeper
                pending_gate_op = i
                failed = True
                pending_close = True
                break
            m_here = "async_timeout" if sleepy else mode
            tmo = t_sleep if sleepy else (T_LONG if m_here == "async_timeout" else None)
            if not sleepy:
                release(i, after=SLEEP_S)  # sleeper in set_attr: no timeout to outlast, merely slow
            st, val, where = _do_cmd(vec, cmd, m_here, tmo, arg, em, "fault_op", site=site)
            release(i)
            got_cls = type(val) if st == "exc" else None
            accept = set()
            wildcard = False
            for kd in kinds_here:
                if FAMILY[kd] == "kill":
                    wildcard = True
                elif kd == "sleep":
                    if cmd != "set_attr":
                        accept.add(mp.TimeoutError)
                elif FAMILY[kd] != "delay":
                    accept.add(_fault_class(kd))
            em.extra("fault_op_outcome", {"site": site, "outcome": _exc_name(val) if st == "exc" else "returned", "where": where})
            if wildcard:
                em.hit("kill_outcomes_recorded(info)")
                em.hit(f"kill_seen_as:{_exc_name(val) if st == 'exc' else 'no_exception'}(info)")
            elif accept:
                only_timeout = accept == {mp.TimeoutError}
                em.hit("timeout_checks" if only_timeout else "fault_exception_type_checks")
                if only_timeout and tmo == 0:
                    em.hit("timeout_zero_checks")
                if only_timeout:
                    em.hit(f"timeout_value:{tmo!r}")
                if got_cls not in accept:
                    want = "|".join(sorted(c.__name__ for c in accept))
                    em.violate(
                        "timeout_reported" if only_timeout else "exception_type",
                        f"raised_{want}_seen_{got_cls.__name__ if got_cls else 'no_exception'}"
                        + ("_with_timeout_0" if only_timeout and tmo == 0 else ""),
                        site,
                        where=where,
                        wait_timeout=repr(tmo),
                        sleeper_left_gate_on_its_own=bool(_read_gaveup(marker_fd)),
                        message=str(val)[:200] if st == "exc" else None,
                        **detail,
                    )
            else:
                # delay / sleep in set_attr: merely slow, must succeed with the right values
                em.hit("slow_worker_checks")
                if st == "exc":
                    em.violate("healthy_op", f"slow_worker_raised_{_exc_name(val)}", site, where=where, message=str(val)[:200], **detail)
                else:
                    model.apply(cmd, arg)
                    bad = model.check_result(cmd, val) if cmd != "set_attr" else None
                    if bad is not None:
                        em.violate("healthy_op", "slow_worker_wrong_values", site, **detail, **bad)
            if st == "exc":
                failed = True
                st_name = str(getattr(vec, "_state", None))
                em.extra("state_after_fault", st_name)
                if "WAITING" in st_name:
                    em.hit("pending_state_stuck_after_fault(info)")
            elif wildcard or accept:
                # an expected failure was not reported: nothing sensible can follow, go straight to close()
                failed = True
                break
            if i >= go_until and after_left <= 0 and failed:
                break
            continue
        # ---- caller keeps going after a failure (not judged, except for dead-lock)
        if i > go_until:
            if after_left <= 0:
                break
            after_left -= 1
        reached = i
        continued += 1
        if cmd == "set_attr":
            release(i, after=SLEEP_S)
        st, val, where = _do_cmd(vec, cmd, "async_timeout", T_AFTER, arg, em, "after_fault_op", site=cur_site())
        release(i)
        em.hit("after_fault_ops(info)")
        em.hit(f"after_fault_op_outcome:{_exc_name(val) if st == 'exc' else 'returned'}(info)")

    # ---- close
    variant = job.get("close", "plain")
    kw = {}
    if variant == "timeout":
        kw = {"timeout": t_sleep if any(f["kind"] == "sleep" for f in faults) and pending_close else 2.0}
    elif variant == "terminate":
        kw = {"terminate": True}
    trig = _read_marker(marker_fd)
    site = cur_site()
    detail["caller_ops_after_failure"] = continued
    detail["triggered_before_close"] = [f"{f['kind']}@{f['cmd']}#{f['n']}/w{f['w']}" for f in trig]
    em.hit("close_return_checks")
    em.op("close", site=site, phase=phase, variant=variant, detail=detail)
    t0 = time.monotonic()
    try:
        vec.close(**kw)
        close_exc = None
    except Exception as e:  # noqa
        close_exc = e
    dt = time.monotonic() - t0
    em.op("post_close", seconds=round(dt, 3))
    em.extra("close_seconds", round(dt, 3))
    trig = _read_marker(marker_fd)
    gated = pending_gate_op is not None and (variant != "plain" or plain_gated) and any(j in gates and _op_index(f) == pending_gate_op for j, f in enumerate(faults))
    if gated:
        # close(terminate=True) / close(timeout=t) on a call that is pending on a gated sleeper: the gate is still
        # shut here (it is only opened below), so close() must have come back without that worker's reply.  A
        # sleeper that left its gate on its own (SLEEP_MAX_S) before close() returned means close() waited for it.
        em.hit("close_on_gated_sleeper_checks")
        em.hit(f"close_on_gated_sleeper:{variant}" + (f"({kw.get('timeout')!r})" if variant == "timeout" else "")
               + ("+dead_worker" if plain_gated else ""))
        at_gate = [t for t in trig if t["kind"] == "sleep" and _op_index(t) == pending_gate_op]
        if at_gate:
            em.hit("close_on_gated_sleeper_reached_gate")
        gave = _read_gaveup(marker_fd)
        if gave:
            em.violate(
                "close_prompt",
                "close_waited_for_gated_sleeper_instead_of_terminating",
                cur_site(),
                close_kwargs={k: repr(v) for k, v in kw.items()},
                close_seconds=round(dt, 3),
                sleepers_that_gave_up=gave,
                close_outcome="returned" if close_exc is None else _exc_name(close_exc),
                **detail,
            )
        release(pending_gate_op)
    if close_exc is None:
        outcome = "returned"
        em.hit("close_returned")
    else:
        outcome = f"raised_{_stable_exc_name(close_exc)}"
        detail["close_exception"] = _exc_name(close_exc)
        injected = {_fault_class(f["kind"]) for f in trig if _fault_class(f["kind"]) is not None}
        if pending_close and type(close_exc) in injected:
            em.hit("close_propagated_worker_exception(info)")
        else:
            em.violate(
                "close_raises",
                outcome,
                site,
                message=str(close_exc)[:200],
                tb=[f"{os.path.basename(fr.filename)}:{fr.name}" for fr in traceback.extract_tb(close_exc.__traceback__)[-5:]],
                real_state=str(getattr(vec, "_state", None)),
                **detail,
            )
    _check_no_worker_alive(em, pids, site, outcome, **detail)
    # ---- bookkeeping
    for f in trig:
        em.hit("faults_injected:" + f["kind"])
        em.hit("faults_injected_total")
    planned_first = [f for f in faults if _op_index(f) == fault_ops[0]]
    fired_first = [f for f in planned_first if any(t["w"] == f["w"] and t["cmd"] == f["cmd"] and t["n"] == f["n"] for t in trig)]
    if not fired_first:
        em.hit("fault_not_triggered")
        if phase == "wait":
            em.msg("inconclusive", why=f"planned fault never fired in phase wait ({site})")
    em.msg("fault_done", pairs=[[t["cmd"], t["kind"]] for t in trig], nontrivial=bool(fired_first))
    _dispose(vec, pids)


def _selftest_child(conn):
    conn.recv()  # nobody ever writes


def _drive_selftest(job, em, tb_fd, marker_fd):
    """a dead-lock by construction that does not involve the code under observation"""
    import multiprocessing as mp

    ctx = mp.get_context("fork")
    a, b = ctx.Pipe()
    c, d = ctx.Pipe()
    child = ctx.Process(target=_selftest_child, args=(d,), daemon=True)
    child.start()
    em.msg("pids", pids=[[child.pid, _pid_ctime(child.pid)]])
    em.op("selftest_block")
    a.recv()  # b is held by the driver and its child: never written, never closed


def _driver_entry(conn, job, tb_fd, marker_fd):
    """body of the driver process (forked from the shard worker)"""
    import faulthandler

    code = 0
    em = _Em(conn)
    try:
        try:
            os.setpgid(0, 0)
        except OSError:
            pass
        signal.setitimer(signal.ITIMER_REAL, 0)
        signal.signal(signal.SIGALRM, signal.SIG_DFL)
        if not DEBUG:
            dn = os.open(os.devnull, os.O_WRONLY)
            os.dup2(dn, 1)
            os.dup2(dn, 2)
        faulthandler.register(signal.SIGUSR1, file=tb_fd, all_threads=False, chain=False)
        kind = job["kind"]
        if kind == "misuse":
            _drive_misuse(job, em, tb_fd, marker_fd)
        elif kind == "walk":
            _drive_walk(job, em, tb_fd, marker_fd)
        elif kind == "fault":
            _drive_fault(job, em, tb_fd, marker_fd)
        elif kind == "selftest":
            _drive_selftest(job, em, tb_fd, marker_fd)
        else:
            raise RuntimeError(f"unknown job kind {kind}")
        em.msg("done")
    except BaseException as e:  # harness problem: never a verdict about the code under observation
        em.msg("harness_error", error=f"{type(e).__name__}: {e}", tb=traceback.format_exc()[-1500:])
        code = 4
    finally:
        try:
            em.flush()
            _kill_pids(_children_pids())
        except BaseException:
            pass
        os._exit(code)


# ----------------------------------------------------------------------------- supervisor side (shard worker)
_FRAME_RE = re.compile(r'File "([^"]+)", line (\d+) in (\S+)')


def _tgkill(pid, sig):
    try:
        import ctypes

        libc = ctypes.CDLL(None, use_errno=True)
        if libc.syscall(234, pid, pid, int(sig)) == 0:
            return True
    except Exception:
        pass
    try:
        os.kill(pid, sig)
        return True
    except OSError:
        return False


def _py_stack(pid, tb_fd, wait_s=20.0):
    """ask the process (faulthandler handler inherited through fork) for its main-thread python stack"""
    try:
        size0 = os.fstat(tb_fd).st_size
    except OSError:
        return []
    if not _tgkill(pid, signal.SIGUSR1):
        return []
    deadline = time.monotonic() + wait_s  # generous: on an overloaded machine the handler may run late
    data = b""
    while time.monotonic() < deadline:
        time.sleep(0.05)
        try:
            size1 = os.fstat(tb_fd).st_size
            if size1 > size0:
                time.sleep(0.05)
                size1 = os.fstat(tb_fd).st_size
                data = os.pread(tb_fd, size1 - size0, size0)
                break
        except OSError:
            return []
    text = data.decode(errors="replace")
    if "Stack (most recent call first)" in text:
        text = text[text.rfind("Stack (most recent call first)") :]
    return [(os.path.basename(f), fn) for f, _ln, fn in _FRAME_RE.findall(text)]


def _mechanism(frames, snap=None):
    """(blocking primitive, chain of functions of the code under observation, outermost first)"""
    prim = "unknown"
    if not frames and snap is not None:
        # no python stack obtained: name the primitive from what the kernel says the driver waits on
        fd = snap.get("fd") or ""
        cls = _blocked_class(snap)
        if cls == "read":
            prim = "queue_get" if fd.startswith("pipe:") else "recv"  # mp.Queue reads an os.pipe, worker links are socketpairs
        elif cls == "wait4":
            prim = "join"
        elif cls == "poll_inf":
            prim = "poll"
        return prim, "?"
    for f, fn in frames[:4]:
        if f == "connection.py" and fn in ("_recv", "_recv_bytes", "recv", "recv_bytes"):
            prim = "recv"
        elif f == "connection.py" and fn in ("poll", "_poll", "wait"):
            prim = "poll"
        elif f in ("popen_fork.py", "process.py") and fn in ("poll", "wait", "join"):
            prim = "join"
        elif f == "queues.py" and fn == "get":
            prim = "queue_get"
            break
        elif f == "selectors.py":
            prim = "poll"
        else:
            continue
        if prim in ("recv", "join"):
            # a recv below Queue.get is the error queue, not a worker pipe
            if any(ff == "queues.py" and ffn == "get" for ff, ffn in frames[:5]):
                prim = "queue_get"
            break
    chain = [fn for f, fn in frames if f in ("pz_async_vec_env.py", "pz_vec_env.py")]
    return prim, ">".join(reversed(chain)) or "?"


def _inspect(driver_pid, worker_pids, tb_fd):
    """structural dead-lock test -> (verdict, report); verdict in deadlock|progress|unknown"""
    import psutil

    try:
        kids = [c.pid for c in psutil.Process(driver_pid).children(recursive=True)]
    except Exception:
        kids = []
    workers = list(dict.fromkeys(list(worker_pids) + kids))
    samples = []
    for r in range(3):
        if r:
            time.sleep(0.25)
        samples.append({p: _snapshot(p) for p in [driver_pid] + workers})
    report = {"driver": samples[-1][driver_pid], "workers": [samples[-1][p] for p in workers]}
    d = samples[-1][driver_pid]
    if not d.get("alive"):
        return "progress", report
    reason = None
    dcls = _blocked_class(d)
    if dcls is None:
        reason = f"driver not in a blocking read/wait4/poll(-1): state={d.get('state')} syscall={d.get('syscall', [])[:1]} wchan={d.get('wchan')}"
    live = []
    for p in workers:
        s = samples[-1][p]
        if not s.get("alive"):
            continue
        live.append(p)
        if _blocked_class(s) != "read" and reason is None:
            # not the plain "waiting for the next command" picture: still a member of a dead-lock if EVERY thread of the
            # worker sleeps in a call without a timeout (e.g. main thread joins the queue feeder at exit, the feeder is
            # stuck writing a large report into a pipe nobody reads)
            tasks = s.get("tasks") or []
            if not tasks or not all(st == "S" and _thread_blocked_forever(sc) for _, st, sc, _ in tasks):
                reason = f"worker {p} not blocked in read: state={s.get('state')} syscall={s.get('syscall', [])[:1]} wchan={s.get('wchan')}"
    if reason is None:
        for p in [driver_pid] + live:
            sig = [(s[p].get("state"), tuple(s[p].get("syscall") or ()), tuple(s[p].get("ctx") or ()), s[p].get("cpu"),
                    tuple(s[p].get("tasks") or ()) if p != driver_pid else None) for s in samples]
            if len(set(sig)) != 1 or samples[0][p].get("ctx") is None:
                reason = f"process {p} changed between samples"
                break
    report["live_workers"] = live
    report["dead_workers"] = [p for p in workers if p not in live]
    if reason is not None:
        report["why_not_deadlock"] = reason
        return "progress", report
    # closed set, everybody waits for somebody else in the set: name the mechanism
    frames = _py_stack(driver_pid, tb_fd)
    report["driver_py"] = [f"{f}:{fn}" for f, fn in frames[:10]]
    report["driver_block"] = dcls
    report["mechanism"] = _mechanism(frames, d)
    wpy = []
    for p in live:
        fr = _py_stack(p, tb_fd, wait_s=3.0)
        wpy.append([f"{f}:{fn}" for f, fn in fr[:5]])
    report["workers_py"] = wpy
    return "deadlock", report


def _open_tmp(tag):
    import tempfile

    fd, path = tempfile.mkstemp(prefix=f"vf_c13_{tag}_")
    os.close(fd)
    fd2 = os.open(path, os.O_RDWR | os.O_APPEND)
    os.unlink(path)
    return fd2


def _slim(snap):
    return {k: snap.get(k) for k in ("pid", "state", "wchan", "syscall", "fd", "kstack", "threads") if k in snap}


_TAG_MONITOR = {
    "close": "close_deadlock",
    "fault_op": "wait_deadlock",
    "fault_async": "wait_deadlock",
    "after_fault_op": "after_fault_deadlock",
    "healthy_op": "healthy_deadlock",
    "construct": "construct_deadlock",
    "misuse_call": "misuse_deadlock",
    "misuse_probe": "misuse_deadlock",
    "misuse_final_close": "misuse_deadlock",
    "misuse_post_close": "misuse_deadlock",
    "post_close": "post_close_deadlock",
}


def _supervise(job, rec: Recorder):
    """run one driver; -> dict(status=done|hang_deadlock|hang_unknown|died|harness_error, next_seq=...)"""
    import multiprocessing as mp

    ctx = mp.get_context("fork")
    rconn, wconn = ctx.Pipe(duplex=False)
    tb_fd = _open_tmp("tb")
    marker_fd = _open_tmp("mk")
    proc = ctx.Process(target=_driver_entry, args=(wconn, job, tb_fd, marker_fd), name="vf-c13-driver")
    proc.start()
    wconn.close()
    dpid = proc.pid
    info = {"status": None, "last_seq_done": None, "pairs": [], "nontrivial": False}
    worker_pids = []  # [(pid, ctime)] over the whole life of the driver
    cur_workers = []
    cur_op = {"tag": "start", "d": {}}
    last = time.monotonic()
    last_inspect = 0.0
    n_inspect = 0

    def handle(m):
        nonlocal cur_op, cur_workers
        t = m.get("t")
        if t == "op":
            cur_op = m
        elif t == "hits":
            for k, v in m["h"].items():
                rec.hit(k, v)
        elif t == "viol":
            rec.violate(m["monitor"], m["kind"], m["site"], **(m.get("detail") or {}))
        elif t == "extra":
            rec.extra[m["key"]] = m["value"]
        elif t == "pids":
            cur_workers = [p for p, _ in m["pids"]]
            worker_pids.extend((p, c) for p, c in m["pids"])
        elif t == "seq_done":
            info["last_seq_done"] = m["i"]
            info["nontrivial"] = info["nontrivial"] or bool(m.get("nontrivial"))
        elif t == "fault_done":
            info["pairs"] = m.get("pairs", [])
            info["nontrivial"] = bool(m.get("nontrivial"))
        elif t == "inconclusive":
            rec.extra.setdefault("inconclusive", []).append(m.get("why"))
        elif t == "harness_error":
            info["status"] = "harness_error"
            rec.extra.setdefault("inconclusive", []).append("harness error in driver: " + str(m.get("error")))
            rec.extra["harness_tb"] = m.get("tb")
        elif t == "done":
            info["status"] = info["status"] or "done"

    try:
        while True:
            got = False
            try:
                while rconn.poll(0.1 if not got else 0):
                    handle(rconn.recv())
                    got = True
                    if info["status"] in ("done", "harness_error"):
                        break
            except (EOFError, OSError):
                pass
            now = time.monotonic()
            if got:
                last = now
            if info["status"] in ("done", "harness_error"):
                break
            if not proc.is_alive():
                try:
                    while rconn.poll(0):
                        handle(rconn.recv())
                except (EOFError, OSError):
                    pass
                if info["status"] is None:
                    info["status"] = "died"
                    rec.extra.setdefault("inconclusive", []).append(
                        f"driver died (exit code {proc.exitcode}) during op {cur_op.get('tag')}"
                    )
                break
            quiet = now - last
            if quiet > INSPECT_AFTER_S and now - last_inspect > INSPECT_EVERY_S:
                last_inspect = now
                n_inspect += 1
                rec.hit("structural_inspections")
                verdict, report = _inspect(dpid, cur_workers, tb_fd)
                if rconn.poll(0):
                    continue  # it moved on while we were looking
                if verdict == "deadlock" and job["kind"] == "selftest":
                    prim, _chain = report["mechanism"]
                    if cur_op.get("tag") == "selftest_block" and prim == "recv" and len(report["live_workers"]) == 1:
                        rec.hit("deadlock_detector_selftest_ok")
                    else:
                        rec.extra.setdefault("inconclusive", []).append(f"dead-lock detector self-test: unexpected report {report.get('mechanism')} / {report.get('driver_py')}")
                    info["status"] = "selftest_done"
                    break
                if verdict == "deadlock":
                    tag = cur_op.get("tag", "?")
                    d = cur_op.get("d") or {}
                    prim, chain = report["mechanism"]
                    monitor = _TAG_MONITOR.get(tag, "deadlock")
                    trig = _read_marker(marker_fd)
                    if job["kind"] == "fault":
                        cmd = (d.get("detail") or {}).get("command") or d.get("cmd") or CMDS[_op_index(job["faults"][0]) % len(CMDS)]
                        site = d.get("site") or f"{_families(job['faults'])}@{cmd}"
                        extra = {
                            "fault_kinds": [f["kind"] for f in job["faults"]],
                            "command": cmd,
                            "phase": job["phase"],
                            "mode": job["mode"],
                            "n_envs": job["n_envs"],
                            "workers": [f["w"] for f in job["faults"]],
                            "invocation": [f["n"] for f in job["faults"]],
                            "close_variant": job.get("close", "plain"),
                            "triggered": [f"{f['kind']}@{f['cmd']}#{f['n']}/w{f['w']}" for f in trig],
                        }
                        for f in trig:
                            rec.hit("faults_injected:" + f["kind"])
                            rec.hit("faults_injected_total")
                        info["pairs"] = [[t["cmd"], t["kind"]] for t in trig]
                        info["nontrivial"] = bool(trig)
                        if tag == "close":
                            rec.hit("no_worker_alive_checks")
                    else:
                        site = f"{d.get('call')}@{d.get('state')}"
                        extra = {"sequence": (d.get("history") or []) + [d.get("call")], "seq": d.get("seq")}
                    rec.hit("deadlocks_seen")
                    rec.violate(
                        monitor,
                        f"driver_blocked_in_{prim}:{chain}",
                        site,
                        op=tag,
                        driver=_slim(report["driver"]),
                        driver_py=report.get("driver_py"),
                        live_workers_blocked_in_read=[_slim(s) for s in report["workers"] if s["pid"] in report["live_workers"]],
                        workers_py=report.get("workers_py"),
                        dead_workers=len(report["dead_workers"]),
                        worker_alive_after=len(report["live_workers"]),
                        quiet_seconds=round(quiet, 1),
                        **extra,
                    )
                    info["status"] = "hang_deadlock"
                    break
                rec.extra["last_inspection"] = report.get("why_not_deadlock")
            if quiet > WATCHDOG_S:
                info["status"] = "hang_unknown"
                if job["kind"] == "selftest":
                    rec.extra.setdefault("inconclusive", []).append("dead-lock detector self-test: synthetic dead-lock not recognised: " + str(rec.extra.get("last_inspection")))
                    break
                rec.hit("watchdog_fired_not_deadlocked")
                rec.extra.setdefault("inconclusive", []).append(
                    f"driver silent for {WATCHDOG_S}s in op {cur_op.get('tag')} but not provably dead-locked: {rec.extra.get('last_inspection')}"
                )
                break
    finally:
        # nothing may leak: the whole process group of the driver, then every recorded worker
        left = 0
        try:
            os.killpg(dpid, signal.SIGKILL)
        except OSError:
            pass
        try:
            proc.kill()
        except Exception:
            pass
        proc.join(10)
        import psutil

        t_end = time.monotonic() + 1.0
        while time.monotonic() < t_end and any(_alive(p) for p, _ in worker_pids):
            time.sleep(0.02)
        for p, c in worker_pids:
            try:
                pp = psutil.Process(p)
                if c is not None and abs(pp.create_time() - c) < 0.01 and pp.status() != psutil.STATUS_ZOMBIE:
                    left += 1
                    pp.kill()
            except Exception:
                pass
        if left:
            rec.hit("leftover_workers_killed_by_supervisor(info)", left)
        for fd in (tb_fd, marker_fd):
            try:
                os.close(fd)
            except OSError:
                pass
        try:
            rconn.close()
        except Exception:
            pass
    rec.hit("driver_processes")
    return info


# ----------------------------------------------------------------------------- cases
def _fault_case(n_envs, faults, mode="sync", phase="wait", after_ops=0, close="plain", settle=0.0, reach_second=False, tmo=T_SHORT):
    return {
        "tmo": tmo,
        "kind": "fault",
        "n_envs": n_envs,
        "faults": faults,
        "mode": mode,
        "phase": phase,
        "after_ops": after_ops,
        "close": close,
        "settle": settle,
        "reach_second": reach_second,
    }


def _F(w, cmd, n, kind):
    return {"w": w, "cmd": cmd, "n": n, "kind": kind}


MODES = ["sync", "async_none", "async_timeout"]
CLOSES = ["plain", "timeout", "terminate"]
PAIR_KINDS = [
    ("raise_value", "raise_key"),
    ("raise_value", "sleep"),
    ("sleep", "raise_value"),
    ("raise_value", "kill_sigkill"),
    ("kill_sigkill", "raise_value"),
    ("sleep", "kill_exit"),
    ("kill_exit", "sleep"),
    ("kill_sigkill", "kill_exit"),
    ("sleep", "sleep"),
    ("raise_custom", "raise_custom"),
    ("raise_custom", "delay"),
]


def _timeout_cases(tier, rng):
    """sleepers against every timeout value: *_wait(timeout=t) and close(terminate=True) / close(timeout=t) on a pending call"""
    ri = lambda n: int(rng.integers(n))  # noqa
    out = []
    reps = 1 if tier == "quick" else 4
    for rep_i in range(reps):
        for cmd in ("reset", "step", "call"):
            for t in TIMEOUTS[1:] if tier == "quick" else TIMEOUTS:
                ne = 2 + (ri(2) if rep_i else 0)
                out.append(_fault_case(ne, [_F(ri(ne), cmd, ri(3) if rep_i else 0, "sleep")], mode="async_timeout", tmo=t, after_ops=ri(2) if rep_i else 0))
            for variant, t in (("terminate", T_SHORT), ("timeout", 0), ("timeout", 0.0), ("timeout", 0.001)):
                ne = 2 + (ri(2) if rep_i else 0)
                out.append(
                    _fault_case(ne, [_F(ri(ne), cmd, ri(3), "sleep")], mode="async_none", phase="close", close=variant, settle=0.0 if rep_i % 2 else 0.2, tmo=t)
                )
    return out


def _fault_cases(tier, seed):
    rng = np.random.default_rng(7000 + seed)
    out = _timeout_cases(tier, rng)
    ri = lambda n: int(rng.integers(n))  # noqa
    if tier == "quick":
        for ci, cmd in enumerate(CMDS):
            for ki, kind in enumerate(KINDS):
                # corner: first worker, first invocation, plain close
                out.append(_fault_case(2, [_F(0, cmd, 0, kind)], mode=MODES[(ci + ki) % 3], tmo=TIMEOUTS[ci % 4]))
                ne = 2 + ri(2)
                out.append(
                    _fault_case(
                        ne,
                        [_F(ne - 1, cmd, 1 + ri(3), kind)],
                        mode=MODES[ri(3)],
                        after_ops=ri(2),
                        close=CLOSES[0] if rng.random() < 0.6 else CLOSES[1 + ri(2)],
                    )
                )
        j = 0
        for cmd in ("reset", "step", "call"):
            for kind in ("raise_value", "raise_custom", "sleep", "kill_sigkill", "kill_exit"):
                for w in (0, 1):
                    out.append(
                        _fault_case(
                            2, [_F(w, cmd, ri(3), kind)], mode="async_none", phase="close", close=CLOSES[j % 3], settle=0.2 if (j // 3) % 2 == 0 else 0.0
                        )
                    )
                    j += 1
        for cmd in ("reset", "step", "call"):
            # a pending call, one worker dead, a LOWER- or higher-indexed worker hung: plain close()
            for (ka, kb) in (("sleep", "kill_sigkill"), ("kill_exit", "sleep"), ("sleep", "kill_exit")):
                ne = 2 + ri(2)
                nn = ri(3)
                out.append(_fault_case(ne, [_F(0, cmd, nn, ka), _F(ne - 1, cmd, nn, kb)], mode="async_none", phase="close", close="plain", settle=0.2))
        for pi, (k1, k2) in enumerate(PAIR_KINDS):
            for ci, cmd in enumerate(CMDS):
                if (pi + ci) % 4 == 3:
                    continue
                ne = 2 + (pi + ci) % 2
                nn = ri(3)
                out.append(_fault_case(ne, [_F(0, cmd, nn, k1), _F(ne - 1, cmd, nn, k2)], mode=MODES[(pi + ci) % 3], after_ops=(pi + ci) % 2))
        for _ in range(14):
            # a timeout first, another fault later, caller keeps going up to it
            c1, c2 = CMDS[ri(3)], CMDS[ri(4)]
            n1 = ri(2)
            f2 = _F(ri(2), c2, n1 + 1 + ri(2), ["raise_value", "kill_sigkill", "sleep", "raise_custom", "kill_exit"][ri(5)])
            out.append(_fault_case(2, [_F(ri(2), c1, n1, "sleep"), f2], mode="async_timeout", reach_second=True, close=CLOSES[ri(3)]))
    else:
        r = 0
        for ne in (2, 3):
            for w in range(ne):
                for cmd in CMDS:
                    for nn in range(4):
                        for kind in KINDS:
                            out.append(
                                _fault_case(
                                    ne,
                                    [_F(w, cmd, nn, kind)],
                                    mode=MODES[r % 3],
                                    after_ops=(r // 3) % 2,
                                    close=CLOSES[(r // 7) % 3] if r % 4 == 3 else "plain",
                                    tmo=TIMEOUTS[(nn + w) % 4],
                                )
                            )
                            r += 1
        j = 0
        for cmd in ("reset", "step", "call"):
            for kind in ("raise_value", "raise_key", "raise_custom", "raise_custom2", "sleep", "kill_sigkill", "kill_exit"):
                for close in CLOSES:
                    for settle in (0.2, 0.0):
                        for ne, w in ((2, 0), (2, 1), (3, 1)):
                            out.append(_fault_case(ne, [_F(w, cmd, j % 4, kind)], mode="async_none", phase="close", close=close, settle=settle))
                            j += 1
        for rep in range(4):
            for cmd in ("reset", "step", "call"):
                for (ka, kb) in (("sleep", "kill_sigkill"), ("kill_sigkill", "sleep"), ("kill_exit", "sleep"), ("sleep", "kill_exit")):
                    ne = 2 + ri(2)
                    nn = ri(4)
                    wa, wb = (0, ne - 1) if rep % 2 == 0 else (ne - 2, ne - 1)
                    out.append(_fault_case(ne, [_F(wa, cmd, nn, ka), _F(wb, cmd, nn, kb)], mode="async_none", phase="close", close="plain", settle=0.2 if rep < 2 else 0.0))
        for rep in range(8):
            for pi, (k1, k2) in enumerate(PAIR_KINDS):
                for ci, cmd in enumerate(CMDS):
                    ne = 2 + ri(2)
                    w1, w2 = (0, ne - 1) if rep % 2 == 0 else (ne - 1, 0)
                    nn = ri(4)
                    out.append(
                        _fault_case(ne, [_F(w1, cmd, nn, k1), _F(w2, cmd, nn, k2)], mode=MODES[ri(3)], after_ops=ri(2), close=CLOSES[0] if rng.random() < 0.6 else CLOSES[1 + ri(2)])
                    )
        for _ in range(90):
            ne = 2 + ri(2)
            c1, c2 = CMDS[ri(3)], CMDS[ri(4)]
            n1 = ri(3)
            f2 = _F(ri(ne), c2, min(3, n1 + 1 + ri(2)), KINDS[ri(len(KINDS))])
            out.append(_fault_case(ne, [_F(ri(ne), c1, n1, "sleep"), f2], mode="async_timeout", reach_second=True, close=CLOSES[ri(3)]))
    return out


def _control_cases():
    return [
        {"kind": "selftest"},
        _fault_case(2, [_F(1, "step", 1, "delay_long")], mode="sync"),
        _fault_case(3, [_F(0, "call", 0, "delay_long")], mode="async_none"),
    ]


def cases(tier, seed):
    rng = np.random.default_rng(1300 + seed)
    faults = _control_cases() + _fault_cases(tier, seed)
    misuse = []
    lmax = 3 if tier == "quick" else 4
    block = 32 if tier == "quick" else 64
    for length in range(1, lmax + 1):
        total = len(CALLS) ** length
        for start in range(0, total, block):
            misuse.append(
                {"kind": "misuse", "len": length, "start": start, "count": min(block, total - start), "n_envs": 2, "salt": int(seed)}
            )
    nwalk = 8 if tier == "quick" else 64
    for i in range(nwalk):
        misuse.append({"kind": "walk", "n_envs": 2 + (i % 2), "calls": 200, "seed": int(rng.integers(1 << 30))})
    # interleave so that every shard gets its share of (slower) fault scenarios
    out = []
    a, b = list(faults), list(misuse)
    ratio = max(1, len(a) // max(1, len(b)))
    while a or b:
        for _ in range(ratio):
            if a:
                out.append(a.pop(0))
        if b:
            out.append(b.pop(0))
    return out


# ----------------------------------------------------------------------------- run
def run_case(case):
    rec = Recorder()
    kind = case["kind"]
    if kind == "selftest":
        info = _supervise(case, rec)
        rec.extra["status"] = info["status"]
    elif kind == "fault":
        info = _supervise(case, rec)
        rec.extra["pairs"] = info.get("pairs", [])
        rec.extra["status"] = info["status"]
        rec.nontrivial = bool(info.get("nontrivial")) and info["status"] in ("done", "hang_deadlock")
        rec.hit("fault_scenarios_run")
        if any(f["kind"] == "delay_long" for f in case["faults"]):
            # negative control: inspected while merely slow, finished normally, no dead-lock reported
            if info["status"] == "done" and rec.counters.get("structural_inspections", 0) >= 1 and not rec.counters.get("deadlocks_seen"):
                rec.hit("deadlock_detector_negative_control_ok")
    elif kind == "walk":
        info = _supervise(case, rec)
        rec.extra["status"] = info["status"]
        rec.nontrivial = bool(info.get("nontrivial"))
    else:
        job = dict(case)
        skip = 0
        hangs = 0
        nontrivial = False
        while skip < case["count"]:
            job["skip"] = skip
            info = _supervise(job, rec)
            nontrivial = nontrivial or bool(info.get("nontrivial"))
            if info["status"] == "done":
                break
            # the sequence in flight hung / killed the driver: go on behind it with a fresh driver
            done = info.get("last_seq_done")
            nxt = (done - case["start"] + 1) if done is not None else skip
            skip = max(nxt, skip) + 1
            hangs += 1
            rec.hit("misuse_sequences_abandoned")
            if hangs >= 4:
                rec.extra.setdefault("inconclusive_soft", []).append("more than 3 hung sequences in one block; rest of the block skipped")
                break
        rec.extra["status"] = info["status"]
        rec.nontrivial = nontrivial
    return rec.result()


def finalize(ctx):
    pairs = set()
    statuses = {}
    for idx, r in ctx["results"].items():
        ex = r.get("extra") or {}
        for p in ex.get("pairs") or []:
            pairs.add((p[0], p[1]))
        st = ex.get("status")
        statuses[st] = statuses.get(st, 0) + 1
        for why in ex.get("inconclusive") or []:
            ctx["inconclusive"].append(f"case {idx}: {why}")
        has_witness = bool(r.get("witnesses"))
        for why in ex.get("inconclusive_soft") or []:
            if not has_witness:
                ctx["inconclusive"].append(f"case {idx}: {why}")
    c = ctx["counters"]
    planned = sum(cs["count"] for cs in ctx["cases"] if cs.get("kind") == "misuse") + sum(1 for cs in ctx["cases"] if cs.get("kind") == "walk")
    lengths = sorted({cs["len"] for cs in ctx["cases"] if cs.get("kind") == "misuse"})
    return {
        "misuse_enumeration": {
            "space": f"all {len(CALLS)}^L sequences of interface calls for L in {lengths} (+ random walks)",
            "planned_sequences": planned,
            "checked_sequences": int(c.get("misuse_sequences_checked", 0)),
            "complete": int(c.get("misuse_sequences_checked", 0)) == planned and not c.get("misuse_sequences_abandoned"),
        },
        "distinct_command_fault_pairs": len(pairs),
        "command_fault_pairs": sorted(f"{a}:{b}" for a, b in pairs),
        "driver_status_histogram": statuses,
        "sequences_checked": int(c.get("misuse_sequences_checked", 0)),
        "faults_injected_per_kind": {k.split(":", 1)[1]: int(v) for k, v in c.items() if k.startswith("faults_injected:")},
        "deadlocks_seen": int(c.get("deadlocks_seen", 0)),
    }
