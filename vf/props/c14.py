"""C14 - every selected action is a legal member of the action space.

Monitors (all on the real get_action of the 11 algorithms):
  legal_action      batch shape + membership per row: Discrete/MultiDiscrete integer index in range, MultiBinary
                    in {0,1}, Box inside the bounds (DDPG/TD3/MADDPG/MATD3 in both modes, PPO/IPPO in evaluation
                    mode only - the statement promises nothing for training-mode policy-gradient samples)
  mask              a masked action is never chosen while >= 1 action is allowed (value-based learners, bandits,
                    MADDPG/MATD3 discrete, PPO/IPPO incl. many independent draws of the stochastic policies)
  greedy_optimality exploration off (epsilon=0 / training=False): the chosen action's score is maximal among the
                    allowed ones; scores = output of the policy network captured by a forward wrapper during that
                    very get_action call, so noisy layers / train-eval switches cannot desynchronise oracle and
                    code (bandits: the `action_values` local read by a frame tap); ties accepted
  mask_fed_draw     the epsilon-random branch of DQN/CQN is fed the corner variate 0.0 (inside the support of
                    rand_like / uniform) for every allowed action
  greedy_fed_draw   DQN at epsilon=0: the per-row "use the policy?" variate (Tensor.uniform_) is fed 0.0
  get_action_raises get_action raised on a C14 input (mask / infos / epsilon / training flag / noise) although the
                    same observation is accepted by a plain get_action(obs) call (differential: crashes caused by
                    the observation alone are C15's business and only counted as information)
"""

from __future__ import annotations

import itertools

import numpy as np

from vf.core import CaseTimeout, Recorder

PROPERTY = "C14"
LEVEL = "exploration"
RULE = (
    "case = (algorithm, action space [Discrete(1..6,9) | MultiDiscrete | MultiBinary | named Box: symmetric, "
    "asymmetric, per-dimension, odd, one-dimensional, partly infinite], actor head activation [default | None | ReLU "
    "| Tanh | Sigmoid via net_config head_config, DDPG/TD3/MADDPG/MATD3], observation kind, forced output layer "
    "[none | ties | desc | asc | +-1e30 patterns | all -3e8 | x1e4], noise / squash / vectorisation / mask-form / "
    "infos-order / env-defined-actions config, seed). Inside a case: single observation, batch of one and batched "
    "observations; epsilon in {0,.5,1} or training flag on/off; ALL 2^n-1 masks for n<=5 per exploration setting "
    "(single-agent learners and bandits in both tiers, multi-agent learners in the thorough tier; hostile subset + "
    "random masks otherwise), many-draw batches for stochastic policies, fed corner variates (0.0) for the "
    "exploration draws of DQN/CQN. Non-trivial = at least one row was judged by the legality monitor AND, for "
    "discrete / multi-discrete / multi-binary action spaces, at least one judged mask row had both allowed and masked "
    "actions (so Discrete(1) cases are trivial); for Box action spaces, at least one judged value sat on a finite "
    "bound, i.e. the clip / clamp / saturated squashing really decided it (partly infinite boxes are never judged, "
    "hence trivial); distinct = distinct case descriptions"
    " Added: the same mask object is handed over on a second consecutive call (bool / list / object forms always, every third numeric call) and judged against the contents the caller wrote; in vectorised multi-agent calls every third masked step gives one agent an all-zero mask row in one sub-environment (that row is not judged)"
)
ASSUMPTIONS = [
    "CPU only; accelerate / torch.compile paths are not driven",
    "a single (unbatched) observation counts as a batch of one (every AgileRL learner returns a leading batch "
    "dimension); trailing singleton dimensions of discrete actions ((B,1) of MATD3/IPPO, (B,1,1) of PPO Box(1,)) are "
    "accepted and only counted as information (strict_shape_mismatch(info))",
    "Box membership allows 4 float32 ulps of max(|low|,|high|) per dimension (DeterministicActor rescales in float32)",
    "partly infinite Box bounds are outside the statement's quantifier (finite, asymmetric and per-dimension bounds): "
    "they are driven, but an out-of-bounds value there is only counted (partly_infinite_box_out_of_bounds(info)), "
    "never a verdict (observed: MADDPG/MATD3 evaluation mode returns the un-rescaled tanh output unclamped)",
    "mask forms inside the verdict: numeric numpy arrays (int8/int64/float32) of shape (n,), (1,n), (B,n) for the "
    "single-agent API, numpy arrays and (nested) lists inside `infos` for the multi-agent API (both are documented / "
    "used by the library). bool arrays, python lists and object arrays passed to single-agent get_action are tried "
    "too: a returned action is judged, a raise is only counted as information",
    "MultiBinary masks follow the library's own semantics: mask bit 0 forbids setting that bit",
    "rows whose mask allows nothing (or a MultiDiscrete component without allowed value) are not judged",
    "greedy optimality is demanded only with exploration off (epsilon=0 for DQN/CQN, training=False for Rainbow / "
    "MADDPG / MATD3); for bandits the algorithm's own UCB / Thompson values are the score; PPO/IPPO are sampled, "
    "never compared with an argmax; rows with non-finite scores are not judged",
    "env_defined_actions: legality of every returned row is judged; whether the environment's value is the one "
    "returned is only counted as information",
    "a get_action that raises on an observation alone (no mask, default flags) is C15's business: information only",
]
# every deciding monitor must have fired for every algorithm family present in the run: see finalize()
# (per-family requirements instead of a flat list so that replaying a single case stays decidable)
REQUIRED_COUNTERS = ["legal_rows"]
# typical case: 0.05-1 s.  Generous: on the shared build machine (load average > 400) whole shards stalled for
# minutes; a timeout is inconclusive, never a verdict
CASE_TIMEOUT_S = 900

VALUE_DISCRETE = ["DQN", "RainbowDQN", "CQN"]
BANDITS = ["NeuralUCB", "NeuralTS"]
DET_CONT = ["DDPG", "TD3"]
MA_DET = ["MADDPG", "MATD3"]
AGENTS = ["agent_0", "agent_1", "other_0"]
EPS = [0.0, 0.5, 1.0]

# named Box action spaces (None = infinite on that side)
BOXES = {
    "sym": ([-1.0, -1.0], [1.0, 1.0]),
    "asym": ([-2.0, 0.0], [0.5, 3.0]),
    "perdim": ([-2.0, -0.5], [2.0, 0.5]),
    "perdim3": ([-0.1, -3.0, 1.0], [0.1, 3.0, 4.0]),
    "odd": ([-0.3, 0.1], [0.7, 0.3]),
    "dim1": ([-1.5], [0.5]),
    "pinf_a": ([0.0, None], [5.0, None]),
    "pinf_b": ([None, 0.0], [None, 5.0]),
    "halfinf": ([0.0, -1.0], [None, 1.0]),
}
OTHER_BOX = {"sym": "odd", "asym": "perdim", "perdim": "asym", "odd": "sym"}  # same shape, other bounds
FINITE_BOXES = ["sym", "asym", "perdim", "perdim3", "odd", "dim1"]
INF_BOXES = ["pinf_a", "pinf_b", "halfinf"]
FORCES_DISC = ["none", "ties", "desc", "asc", "ext", "neg_ext", "pos_ext", "low", "scale"]
FORCES_BOX = ["none", "pos_ext", "neg_ext", "ext", "scale"]
OBS_ROT = ["vector", "image", "dict", "discrete", "tuple"]


def preload():
    import agilerl.algorithms  # noqa
    from vf.core import quiet_torch

    quiet_torch()


# ====================================================================== cases
def cases(tier, seed):
    rng = np.random.default_rng(1400 + seed)
    quick = tier == "quick"
    depth = 1 if quick else 2
    reps = 1 if quick else 4
    out = []
    rot = [0]

    def obs_kind(allowed=OBS_ROT):
        rot[0] += 1
        return allowed[rot[0] % len(allowed)]

    def add(**kw):
        kw["seed"] = int(rng.integers(1 << 30))
        kw["depth"] = depth
        kw["pre_op"] = [None, None, None, "mut", None, None, "mut+clone", None][len(out) % 8]
        if kw.get("algo") == "PPO" and kw.get("squash") and len(out) % 2:
            kw["pre_op"] = "mut"
        a = kw.get("act", {})
        if kw.get("algo") in MA_DET + ["IPPO"] and a.get("type") == "box" and a.get("name") in OTHER_BOX and len(out) % 2:
            # the agents of the second policy group ("other_0") act in ANOTHER box of the same shape: bounds must be
            # looked up per agent, not per group index / first agent
            kw["act"] = dict(a, other=OTHER_BOX[a["name"]])
        out.append(kw)

    for rep in range(reps):
        # ---- hostile corners first: masks against forced extreme outputs, per-dimension bounds with large noise
        for algo in VALUE_DISCRETE:
            for n in (5, 3, 2, 4, 1, 6, 9):
                for force in FORCES_DISC:
                    add(algo=algo, obs=obs_kind(), act={"type": "discrete", "n": n}, force=force)
        for algo in MA_DET:
            for box in FINITE_BOXES + INF_BOXES:
                for ou in (False, True):
                    for expl in (5.0, 0.1):
                        for vect in (0, 3):
                            force = FORCES_BOX[(len(out) + rep) % len(FORCES_BOX)]
                            add(algo=algo, obs=obs_kind(["vector", "image", "dict", "vector"]), act={"type": "box", "name": box},
                                force=force, ou=ou, expl=expl, vect=vect, envdef=bool((len(out) // 3) % 4 == 0))
            for n in (3, 5, 2, 1, 4, 6):
                for force in ("none", "ties", "ext", "desc", "scale"):
                    for vect in (0, 3):
                        add(algo=algo, obs=obs_kind(["vector", "image", "dict", "discrete"]), act={"type": "discrete", "n": n},
                            force=force, ou=bool(len(out) % 2), expl=0.1 if len(out) % 3 else 5.0, vect=vect,
                            maskform="np" if len(out) % 2 else "list", envdef=bool(len(out) % 5 == 0))
        for algo in DET_CONT:
            for box in FINITE_BOXES + INF_BOXES:
                for ou in (False, True):
                    for expl in (5.0, 0.1):
                        for force in FORCES_BOX if not quick else (FORCES_BOX[len(out) % 5], FORCES_BOX[(len(out) + 2) % 5]):
                            add(algo=algo, obs=obs_kind(), act={"type": "box", "name": box}, force=force, ou=ou, expl=expl,
                                vect_noise=4 if len(out) % 3 == 0 else 1)
        # ---- non-default actor heads (net_config head_config output_activation): None / ReLU do not squash, so only
        #      the final clip / clamp of get_action keeps the raw output inside the bounds; Tanh / Sigmoid are rescaled
        for algo in DET_CONT + MA_DET:
            for box in ("asym", "perdim", "perdim3", "odd"):
                for head in ("None", "ReLU", "Tanh", "Sigmoid"):
                    for k in range(1 if quick else 2):
                        force = ("scale", "none", "pos_ext", "neg_ext", "ext")[(len(out) + k) % 5] if head in ("None", "ReLU") and k == 0 and len(out) % 3 else "scale"
                        if algo in DET_CONT:
                            add(algo=algo, obs=obs_kind(), act={"type": "box", "name": box}, force=force, ou=bool(len(out) % 2),
                                expl=0.1 if len(out) % 3 else 5.0, vect_noise=1, head=head)
                        else:
                            add(algo=algo, obs=obs_kind(["vector", "image", "dict", "vector"]), act={"type": "box", "name": box},
                                force=force, ou=bool(len(out) % 2), expl=0.1 if len(out) % 3 else 5.0, vect=3 if len(out) % 2 else 0,
                                envdef=False, head=head)
        # ---- PPO
        for n in (5, 3, 2, 4, 1, 6, 9):
            for force in FORCES_DISC:
                add(algo="PPO", obs=obs_kind(), act={"type": "discrete", "n": n}, force=force)
        for nvec in ([2, 2], [3, 2], [2, 1, 3], [4, 3]):
            for force in ("none", "ties", "ext", "neg_ext", "low", "desc"):
                add(algo="PPO", obs=obs_kind(), act={"type": "multidiscrete", "nvec": nvec}, force=force)
        for n in (1, 3, 5):
            for force in ("none", "ties", "ext", "pos_ext", "scale"):
                add(algo="PPO", obs=obs_kind(), act={"type": "multibinary", "n": n}, force=force)
        for box in FINITE_BOXES + INF_BOXES:
            for squash in (False, True):
                if squash and box in INF_BOXES:
                    continue
                for force in FORCES_BOX if not quick else (FORCES_BOX[len(out) % 5], FORCES_BOX[(len(out) + 3) % 5]):
                    add(algo="PPO", obs=obs_kind(), act={"type": "box", "name": box}, force=force, squash=squash)
        # ---- IPPO
        for n in (5, 3, 2, 4, 1, 6):
            for force in ("none", "ties", "ext", "neg_ext", "low", "desc"):
                for vect in (0, 3):
                    add(algo="IPPO", obs=obs_kind(["vector", "image", "dict", "discrete"]), act={"type": "discrete", "n": n},
                        force=force, vect=vect, maskform="np" if len(out) % 3 == 0 else "list",
                        order="permuted" if len(out) % 4 == 1 else "agent", envdef=bool(len(out) % 5 == 0))
        for nvec in ([2, 2], [3, 2]):
            for force in ("none", "ext", "neg_ext"):
                for vect in (0, 3):
                    add(algo="IPPO", obs=obs_kind(["vector", "dict"]), act={"type": "multidiscrete", "nvec": nvec}, force=force,
                        vect=vect, maskform="list", order="agent", envdef=False)
        for n in (1, 3):
            for force in ("none", "pos_ext"):
                add(algo="IPPO", obs=obs_kind(["vector", "image"]), act={"type": "multibinary", "n": n}, force=force,
                    vect=3 if n == 3 else 0, maskform="list", order="agent", envdef=False)
        for box in FINITE_BOXES + INF_BOXES:
            for vect in (0, 3):
                force = FORCES_BOX[len(out) % len(FORCES_BOX)]
                add(algo="IPPO", obs=obs_kind(["vector", "image", "dict"]), act={"type": "box", "name": box}, force=force,
                    vect=vect, envdef=bool(len(out) % 4 == 0))
        # ---- bandits
        for algo in BANDITS:
            for n in (5, 3, 2, 4, 1, 6):
                for force in ("none", "ties", "scale"):
                    add(algo=algo, obs=obs_kind(["vector", "image", "dict"]), act={"type": "discrete", "n": n}, force=force)
    return out


# ====================================================================== helpers
def _space(act):
    from gymnasium import spaces

    t = act["type"]
    if t == "discrete":
        return spaces.Discrete(int(act["n"]))
    if t == "multidiscrete":
        return spaces.MultiDiscrete(list(act["nvec"]))
    if t == "multibinary":
        return spaces.MultiBinary(int(act["n"]))
    if t == "box":
        lo, hi = BOXES[act["name"]]
        low = np.array([-np.inf if v is None else v for v in lo], np.float32)
        high = np.array([np.inf if v is None else v for v in hi], np.float32)
        return spaces.Box(low, high, (len(lo),), np.float32)
    raise ValueError(t)


def _box_family(act):
    name = act.get("name", "")
    if name in INF_BOXES:
        return "partly_infinite"
    if name in ("perdim", "perdim3", "odd", "asym"):
        return "per_dimension"
    return "uniform"


def _all_masks(n, rng, depth):
    """All 2^n-1 non-empty masks for n<=5 (exhaustive sub-space), hostile corners + random ones above."""
    if n <= 5:
        ms = [np.array(bits, np.int64) for bits in itertools.product((0, 1), repeat=n) if any(bits)]
        # hostile first: single allowed action, highest index first
        ms.sort(key=lambda m: (int(m.sum()), -int(np.argmax(m))))
        return ms
    ms = []
    for j in range(n):  # only j allowed / all but j allowed
        m = np.zeros(n, np.int64)
        m[j] = 1
        ms.append(m)
        ms.append(1 - m)
    ms.append(np.ones(n, np.int64))
    for _ in range(16 * depth):
        m = (rng.random(n) < rng.choice([0.2, 0.5, 0.8])).astype(np.int64)
        if not m.any():
            m[int(rng.integers(n))] = 1
        ms.append(m)
    return ms


def _md_masks(nvec, rng, depth):
    """Masks over the concatenated components of a MultiDiscrete space, every component non-empty."""
    per = []
    for k in nvec:
        per.append([np.array(b, np.int64) for b in itertools.product((0, 1), repeat=int(k)) if any(b)])
    total = int(np.prod([len(p) for p in per]))
    if total <= 64:
        combos = list(itertools.product(*per))
    else:
        combos = [tuple(p[int(rng.integers(len(p)))] for p in per) for _ in range(48 * depth)]
        combos.append(tuple(p[0] for p in per))
    ms = [np.concatenate(c) for c in combos]
    ms.sort(key=lambda m: int(m.sum()))
    return ms


def _pattern(name, n):
    if name == "ties":
        return np.zeros(n)
    if name == "desc":
        return np.arange(n, 0, -1).astype(float)
    if name == "asc":
        return np.arange(n).astype(float)
    if name == "ext":
        return np.array([[1e30, -1e30, 0.0][i % 3] for i in range(n)])
    if name == "neg_ext":
        return np.full(n, -1e30)
    if name == "pos_ext":
        return np.full(n, 1e30)
    if name == "low":
        return np.full(n, -3e8)
    raise ValueError(name)


def _out_layer(net):
    import torch

    root = getattr(net, "head_net", net)
    last = None
    for _, m in root.named_modules():
        if isinstance(m, torch.nn.Linear) or type(m).__name__ == "NoisyLinear":
            last = m
    return last


def _force(net, mode, rainbow_atoms=None):
    """Overwrite the policy network's output layer: ties, +-1e30 patterns, huge scale (NaN-free)."""
    import torch

    if mode == "none":
        return
    layer = _out_layer(net)
    if layer is None:
        return
    noisy = type(layer).__name__ == "NoisyLinear"
    w = layer.weight_mu if noisy else layer.weight
    b = layer.bias_mu if noisy else layer.bias
    with torch.no_grad():
        if mode == "scale":
            f = 50.0 if rainbow_atoms else 1e4
            w.mul_(f)
            if b is not None:
                b.mul_(f)
            return
        w.zero_()
        if noisy:
            layer.weight_sigma.zero_()
            layer.bias_sigma.zero_()
        nout = w.shape[0]
        if rainbow_atoms:
            n = nout // rainbow_atoms
            pat = np.clip(_pattern(mode, n), -50.0, 50.0)
            vec = np.zeros((n, rainbow_atoms))
            vec[:, -1] = pat  # action a prefers the top atom by pat[a]
            vec = vec.reshape(-1)
        else:
            vec = _pattern(mode, nout)
        b.copy_(torch.as_tensor(vec, dtype=b.dtype))


def _obs_space(kind):
    from vf import zoo

    return zoo.obs_space(kind)


def _sample_obs(space, n, rng):
    from vf import zoo

    return zoo.sample_obs(space, n, rng)


class _Capture:
    """Forward wrappers: output of the policy network during the observed get_action call.
    (EvolvableNetwork.__call__ calls self.forward directly, so torch forward hooks never fire; the wrapper is an
    instance attribute `forward` that records the result and returns it unchanged.)"""

    def __init__(self):
        self.out = {}
        self.wrapped = []

    def attach(self, module, key):
        orig = module.forward  # bound method of the class

        def forward(*args, _orig=orig, _key=key, **kwargs):
            result = _orig(*args, **kwargs)
            try:
                o = result[0] if isinstance(result, tuple) else result
                self.out[_key] = o.detach().to("cpu").double().numpy().copy()
            except CaseTimeout:
                raise
            except Exception:  # never raise into the observed code
                self.out[_key] = None
            return result

        module.forward = forward
        self.wrapped.append(module)

    def clear(self):
        self.out = {}

    def remove(self):
        for m in self.wrapped:
            try:
                del m.forward
            except Exception:
                pass
        self.wrapped = []


class _Ctx:
    """Per-case bookkeeping shared by the monitors."""

    def __init__(self, case, rec):
        self.case = case
        self.rec = rec
        self.algo = case["algo"]
        self.site = f"{self.algo}.get_action"
        self.crash_seen = set()
        self.mixed_mask_rows = 0
        self.bound_touched = 0
        self.uses_masks = False

    def crash(self, e, where, **detail):
        if isinstance(e, CaseTimeout):
            raise e
        key = (type(e).__name__, where.split("|")[0])
        if key in self.crash_seen:
            self.rec.hit("crash_repeats")
            return
        self.crash_seen.add(key)
        self.rec.crash(e, "get_action_raises", where, algo=self.algo, **detail)

    def info_reject(self, e, what):
        if isinstance(e, CaseTimeout):
            raise e
        self.rec.hit(f"{what}(info)")
        self.rec.extra.setdefault(what, f"{type(e).__name__}: {str(e)[:100]}")


# ---------------------------------------------------------------------- monitors
def _rows(arr, B):
    """(B, k) view of a returned action or None when the batch shape is wrong."""
    a = np.asarray(arr)
    if a.ndim == 0:
        return a.reshape(1, 1) if B == 1 else None
    if a.shape[0] != B:
        return None
    return a.reshape(B, -1)


def check_legal(cx, space, action, B, mode, where, **detail):
    """Shape + membership per row.  mode: 'train' | 'eval' (only matters for Box of PPO/IPPO)."""
    from gymnasium import spaces

    rec = cx.rec
    rec.hit("legal_calls")
    a = np.asarray(action)
    rows = _rows(a, B)
    k = {
        spaces.Discrete: lambda s: 1,
        spaces.MultiDiscrete: lambda s: len(s.nvec),
        spaces.MultiBinary: lambda s: int(np.prod(s.shape)),
        spaces.Box: lambda s: int(np.prod(s.shape)),
    }[type(space)](space)
    if rows is None or rows.shape[1] != k:
        rec.hit("legal_rows", B)
        rec.violate("legal_action", "wrong_batch_shape", cx.site, algo=cx.algo, got_shape=list(a.shape), batch=B,
                    per_row=k, where=where, **detail)
        return None
    want = (B,) + tuple(space.shape)
    if tuple(a.shape) != want:
        rec.hit("strict_shape_mismatch(info)")
        rec.extra.setdefault("strict_shape_mismatch", {"algo": cx.algo, "got": list(a.shape), "want": list(want)})
    rec.hit("legal_rows", B)
    rec.hit(f"legal_rows:{cx.algo}", B)
    if isinstance(space, (spaces.Discrete, spaces.MultiDiscrete)):
        if a.dtype.kind not in "iu":
            rec.violate("legal_action", "discrete_action_not_integer_dtype", cx.site, algo=cx.algo, dtype=str(a.dtype),
                        where=where, **detail)
            return None
        hi = np.array([space.n]) if isinstance(space, spaces.Discrete) else np.asarray(space.nvec)
        bad = (rows < 0) | (rows >= hi[None, :])
        if bad.any():
            r = int(np.argwhere(bad)[0][0])
            rec.violate("legal_action", "index_out_of_range", cx.site, algo=cx.algo, row=r, action=rows[r], n=hi,
                        where=where, **detail)
        return rows
    if isinstance(space, spaces.MultiBinary):
        bad = ~((rows == 0) | (rows == 1))
        if bad.any():
            r = int(np.argwhere(bad)[0][0])
            rec.violate("legal_action", "multibinary_value_not_0_or_1", cx.site, algo=cx.algo, row=r, action=rows[r],
                        where=where, **detail)
        return rows
    # Box
    r64 = rows.astype(np.float64)
    if np.isnan(r64).any():
        rec.violate("legal_action", "nan_action", cx.site, algo=cx.algo, where=where, mode=mode, **detail)
        return rows
    stochastic = cx.algo in ("PPO", "IPPO")
    low = space.low.reshape(-1).astype(np.float64)
    high = space.high.reshape(-1).astype(np.float64)
    mag = np.maximum(np.where(np.isfinite(low), np.abs(low), 0.0), np.where(np.isfinite(high), np.abs(high), 0.0))
    tol = 4 * float(np.finfo(np.float32).eps) * mag
    over = np.maximum(r64 - high[None, :], low[None, :] - r64)
    strict_out = over > 0
    out = over > tol[None, :]
    if stochastic and mode == "train":
        rec.hit("pg_training_rows_not_bound_checked", B)
        if strict_out.any():
            rec.hit("pg_training_out_of_bounds(info)", int(strict_out.any(axis=1).sum()))
        return rows
    if _box_family(cx.case["act"]) == "partly_infinite":
        # outside the statement's quantifier ("finite, asymmetric and per-dimension bounds"): information only
        rec.hit("partly_infinite_box_rows_not_judged", B)
        if out.any():
            rec.hit(f"partly_infinite_box_out_of_bounds(info):{cx.algo}:{mode}", int(out.any(axis=1).sum()))
            r, d = (int(v) for v in np.argwhere(out)[0])
            rec.extra.setdefault(
                "partly_infinite_box_out_of_bounds",
                {"algo": cx.algo, "mode": mode, "value": float(r64[r, d]), "dim": d, "low": repr(low.tolist()), "high": repr(high.tolist())},
            )
        return rows
    rec.hit("bound_rows", B)
    rec.hit(f"bound_rows:{cx.algo}", B)
    touched = (np.abs(r64 - low[None, :]) <= tol[None, :]) | (np.abs(r64 - high[None, :]) <= tol[None, :])
    if touched.any():
        # the clip / clamp / saturated squashing was engaged: the bound really decided this value
        cx.bound_touched += int(touched.any(axis=1).sum())
        rec.hit("bound_rows_on_a_bound", int(touched.any(axis=1).sum()))
    if (strict_out & ~out).any():
        rec.hit("within_float32_tolerance_of_bound(info)")
    if out.any():
        r, d = (int(v) for v in np.argwhere(out)[0])
        head = cx.case.get("head") or "default"
        unsq = ":unsquashed_head" if head in ("None", "ReLU") else ""
        rec.violate("legal_action", f"box_out_of_bounds:{mode}{unsq}", cx.site, algo=cx.algo, box_family=_box_family(cx.case["act"]), head=head,
                    row=r, dim=d, value=float(r64[r, d]), low=low, high=high, where=where, **detail)
    return rows


FILL = -1e8  # the mask fill value EvolvableDistribution.apply_mask used before fix f32fbb4; kept as a label for "extreme" allowed logits


def _starved(space, logits_row, mrow):
    """Observed mechanism label: some component's best allowed logit is not clearly above the -1e8 mask fill."""
    from gymnasium import spaces

    if logits_row is None or not np.isfinite(logits_row).all() or logits_row.shape != mrow.shape:
        return False
    segs = [int(k) for k in space.nvec] if isinstance(space, spaces.MultiDiscrete) else [len(mrow)]
    off = 0
    for k in segs:
        m = mrow[off : off + k]
        if m.any() and not m.all() and logits_row[off : off + k][m].max() < FILL + 100.0:
            return True
        off += k
    return False


def check_mask(cx, space, rows, mask_rows, where, kind_suffix="", logits=None, **detail):
    """mask_rows: (B, flat) 0/1.  A masked action is never chosen while >= 1 action is allowed."""
    from gymnasium import spaces

    rec = cx.rec
    if rows is None:
        return
    B = rows.shape[0]
    M = np.asarray(mask_rows).astype(np.float64).reshape(B, -1) > 0
    L = None
    if logits is not None:
        L = np.asarray(logits, dtype=np.float64)
        L = L.reshape(B, -1) if L.size == M.size else None
    base_suffix = kind_suffix
    for r in range(B):
        kind_suffix = base_suffix
        if L is not None and _starved(space, L[r], M[r]):
            kind_suffix = base_suffix + ":allowed_logits_below_-1e8"
            rec.hit("mask_rows_allowed_logits_below_-1e8")
        if isinstance(space, spaces.Discrete):
            if not M[r].any():
                rec.hit("mask_rows_nothing_allowed")
                continue
            rec.hit("mask_rows")
            rec.hit(f"mask_rows:{cx.algo}")
            if not M[r].all():
                cx.mixed_mask_rows += 1
            a = int(rows[r, 0])
            if 0 <= a < M.shape[1] and not M[r, a]:
                rec.violate("mask", "masked_action_chosen" + kind_suffix, cx.site, algo=cx.algo, row=r, action=a,
                            mask=M[r].astype(int), where=where, **detail)
        elif isinstance(space, spaces.MultiDiscrete):
            off = 0
            ok_row = True
            for c, kk in enumerate(space.nvec):
                seg = M[r, off : off + int(kk)]
                if not seg.any():
                    ok_row = False
                off += int(kk)
            if not ok_row:
                rec.hit("mask_rows_nothing_allowed")
                continue
            rec.hit("mask_rows")
            rec.hit(f"mask_rows:{cx.algo}")
            if not M[r].all():
                cx.mixed_mask_rows += 1
            off = 0
            for c, kk in enumerate(space.nvec):
                a = int(rows[r, c])
                if 0 <= a < int(kk) and not M[r, off + a]:
                    rec.violate("mask", "masked_component_value_chosen" + kind_suffix, cx.site, algo=cx.algo, row=r, component=c,
                                action=rows[r], mask=M[r].astype(int), where=where, **detail)
                    break
                off += int(kk)
        elif isinstance(space, spaces.MultiBinary):
            rec.hit("mask_rows")
            rec.hit(f"mask_rows:{cx.algo}")
            if not M[r].all():
                cx.mixed_mask_rows += 1
            if ((rows[r] == 1) & ~M[r]).any():
                rec.violate("mask", "masked_bit_set" + kind_suffix, cx.site, algo=cx.algo, row=r, action=rows[r],
                            mask=M[r].astype(int), where=where, **detail)


def check_greedy(cx, rows, scores, mask_rows, where, **detail):
    """Exploration off: the chosen action's score is maximal among the allowed ones (ties accepted)."""
    rec = cx.rec
    if rows is None:
        return
    if scores is None:
        rec.hit("greedy_scores_not_captured")
        return
    B = rows.shape[0]
    S = np.asarray(scores, dtype=np.float64).reshape(B, -1) if np.asarray(scores).size % B == 0 else None
    if S is None:
        rec.hit("greedy_scores_not_captured")
        return
    n = S.shape[1]
    M = np.ones((B, n), bool) if mask_rows is None else (np.asarray(mask_rows).astype(np.float64).reshape(B, -1) > 0)
    for r in range(B):
        if not M[r].any():
            continue
        if not np.isfinite(S[r]).all():
            rec.hit("greedy_rows_nonfinite_scores_skipped")
            continue
        a = int(rows[r, 0])
        if not (0 <= a < n) or not M[r, a]:
            continue  # the legality / mask monitors own this
        rec.hit("greedy_rows")
        rec.hit(f"greedy_rows:{cx.algo}")
        best = S[r][M[r]].max()
        if (S[r][M[r]] == best).sum() > 1:
            rec.hit("greedy_rows_with_ties")
        if S[r, a] < best:
            rec.violate("greedy_optimality", "chosen_action_not_best_allowed", cx.site, algo=cx.algo, row=r, action=a,
                        scores=S[r], mask=M[r].astype(int), where=where, **detail)


# ====================================================================== builders
class _BuildFailed(Exception):
    pass


def _head_config(head):
    """Documented net_config route to a non-default actor head (the critic's activation is reset by the learners)."""
    return {"head_config": {"hidden_size": [16], "output_activation": None if head == "None" else head}}


def _build_single(case):
    from vf import zoo

    cls = zoo.algo_cls(case["algo"])
    osp = _obs_space(case["obs"])
    asp = _space(case["act"])
    algo = case["algo"]
    kw = {}
    if algo == "RainbowDQN":
        kw.update(num_atoms=11, v_min=-5.0, v_max=5.0)
    if algo in DET_CONT:
        kw.update(O_U_noise=bool(case["ou"]), expl_noise=float(case["expl"]), vect_noise_dim=int(case.get("vect_noise", 1)))
    if case.get("head"):
        kw["net_config"] = _head_config(case["head"])
    if algo == "PPO" and case.get("squash"):
        kw["net_config"] = {"squash_output": True, "head_config": {"hidden_size": [16]}}
    try:
        return _pre_op(cls(osp, asp, **kw), case), osp, asp
    except CaseTimeout:
        raise
    except Exception as e:
        raise _BuildFailed(f"{algo}: {type(e).__name__}: {e}")


def _pre_op(agent, case):
    """Agents in a population are clones that went through architecture mutations: a quarter of the cases act with such an
    agent (three real Mutations.mutation rounds and / or a clone) instead of a freshly constructed one."""
    op = case.get("pre_op")
    if not op:
        return agent
    from vf import agentops

    if "mut" in op:
        m = agentops.make_mutations("arch", seed=case["seed"] % 100000, new_layer_prob=0.2)
        for g in range(3):
            agentops.seed_all(case["seed"] + g)
            agent = m.mutation([agent], pre_training_mut=False)[0]
    if "clone" in op:
        agent = agent.clone()
    return agent


def _build_multi(case):
    from vf import zoo

    cls = zoo.algo_cls(case["algo"])
    osp = [_obs_space(case["obs"]) for _ in AGENTS]
    asp = [_space(case["act"]) for _ in AGENTS]
    if case["act"].get("other"):
        asp = [_space(dict(case["act"], name=case["act"]["other"])) if a.startswith("other") else sp for a, sp in zip(AGENTS, asp)]
    kw = {}
    if case["algo"] in MA_DET:
        kw.update(O_U_noise=bool(case["ou"]), expl_noise=float(case["expl"]), vect_noise_dim=max(1, int(case["vect"])))
    if case.get("head"):
        kw["net_config"] = _head_config(case["head"])
    try:
        return _pre_op(cls(osp, asp, agent_ids=list(AGENTS), **kw), case), osp, asp
    except CaseTimeout:
        raise
    except Exception as e:
        raise _BuildFailed(f"{case['algo']}: {type(e).__name__}: {e}")


def _forms(case, B):
    return [("single", None, 1), ("batch1", 1, 1), ("batch", B, B)]


def _cast_mask(m, i):
    return np.asarray(m).astype([np.int64, np.int8, np.float32][i % 3])


def _extended_forms(M):
    """Mask forms outside the verdict for raises (bool / list / object array)."""
    out = [("bool", np.asarray(M).astype(bool)), ("list", np.asarray(M).tolist())]
    if np.asarray(M).ndim == 2:
        o = np.empty(len(M), dtype=object)
        for i in range(len(M)):
            o[i] = np.asarray(M[i])
        out.append(("object", o))
    return out


# ====================================================================== single-agent, discrete, value based
def _run_value_discrete(case, rec):
    from vf import agentops

    cx = _Ctx(case, rec)
    cx.uses_masks = True
    agentops.seed_all(case["seed"])
    agent, osp, asp = _build_single(case)
    algo = case["algo"]
    n = int(asp.n)
    _force(agent.actor, case["force"], rainbow_atoms=11 if algo == "RainbowDQN" else None)
    cap = _Capture()
    cap.attach(agent.actor, "actor")
    rng = np.random.default_rng(case["seed"])
    masks = _all_masks(n, rng, case["depth"])
    B = 8 if n > 2 else 4
    flags = [False, True] if algo == "RainbowDQN" else EPS  # Rainbow: training flag; others: epsilon
    ci = [0]

    def act(obs, flag, mask):
        cap.clear()
        if algo == "RainbowDQN":
            return agent.get_action(obs, action_mask=mask, training=bool(flag))
        return agent.get_action(obs, epsilon=float(flag), action_mask=mask)

    def explore_off(flag):
        return (flag is False) if algo == "RainbowDQN" else (float(flag) == 0.0)

    def one(obs, Bn, flag, mask_rows, mask_arg, where, judge_crash=True, form="numeric"):
        ci[0] += 1
        # a caller that keeps ONE legal-moves array and hands the same object over on consecutive calls: every call is
        # judged against the contents the caller wrote (extended forms always, every third numeric call)
        again = mask_arg is not None and (form != "numeric" or ci[0] % 3 == 0)
        for k in range(2 if again else 1):
            rec.hit(f"calls:{algo}")
            if k:
                rec.hit("calls_with_the_same_mask_object_again")
                where = where + "|same_mask_object_again"
            try:
                a = act(obs, flag, mask_arg)
            except Exception as e:
                if judge_crash:
                    cx.crash(e, where, flag=flag, mask=mask_rows, n=n)
                else:
                    cx.info_reject(e, f"mask_form_rejected:{form}")
                return
            rows = check_legal(cx, asp, a, Bn, "train", where, flag=flag)
            if mask_rows is not None:
                check_mask(cx, asp, rows, mask_rows, where, flag=flag, force=case["force"])
            if explore_off(flag):
                check_greedy(cx, rows, cap.out.get("actor"), mask_rows, where, flag=flag, force=case["force"])

    try:
        for fname, nb, Bn in _forms(case, B):
            obs = _sample_obs(osp, nb, rng)
            try:
                act(obs, flags[0], None)
            except Exception as e:
                cx.info_reject(e, f"obs_rejected_by_plain_get_action:{case['obs']}:{fname}")
                continue
            for flag in flags:
                one(obs, Bn, flag, None, None, f"{fname}|nomask")
                if Bn == 1:
                    sub = masks if case["depth"] > 1 else masks[: 3 + (ci[0] % 3)] + masks[-1:]
                    for j, m in enumerate(sub):
                        marg = _cast_mask(m, j) if (fname == "single" and j % 2 == 0) else _cast_mask(m[None, :], j)
                        one(obs, 1, flag, m[None, :], marg, f"{fname}|mask")
                else:
                    for s in range(0, len(masks), Bn):
                        chunk = [masks[(s + i) % len(masks)] for i in range(Bn)]
                        M = np.stack(chunk)
                        one(obs, Bn, flag, M, _cast_mask(M, s), f"{fname}|mask")
            # extended mask forms: a returned action is judged, a raise is information
            M = np.stack([masks[i % len(masks)] for i in range(Bn)])
            for form, marg in _extended_forms(M if nb is not None else M[0]):
                one(obs, Bn, flags[0], M, marg, f"{fname}|mask_form:{form}", judge_crash=False, form=form)
        # ---- fed exploration draws: every allowed action draws exactly 0.0 (inside the support of the sampler)
        if algo in ("DQN", "CQN") and n >= 2:
            obs = _sample_obs(osp, B, rng)
            hostile = [m for m in masks if m[0] == 0][: (6 if case["depth"] == 1 else 24)]
            for s in range(0, len(hostile), B):
                chunk = [hostile[(s + i) % len(hostile)] for i in range(B)]
                M = np.stack(chunk)
                rec.hit("fed_draw_calls")
                rec.hit(f"fed_draw_calls:{algo}")
                try:
                    with _FedZeroDraws(algo, M):
                        a = act(obs, 1.0, M.copy())
                except Exception as e:
                    cx.info_reject(e, "fed_draw_call_raised")
                    continue
                rows = _rows(a, B)
                if rows is None:
                    continue
                for r in range(B):
                    av = int(rows[r, 0])
                    rec.hit("fed_draw_rows")
                    if 0 <= av < n and not M[r, av]:
                        rec.violate(
                            "mask_fed_draw",
                            "masked_action_chosen_when_allowed_draws_are_zero",
                            "DQN._get_action" if algo == "DQN" else "CQN.get_action",
                            algo=algo, row=r, action=av, mask=M[r], epsilon=1.0,
                        )
                        break
        # ---- DQN, epsilon = 0: the "use the policy?" variate of every row is fed 0.0 (inside uniform_'s support)
        if algo == "DQN" and n >= 2:
            obs = _sample_obs(osp, B, rng)
            for j in range(2 if case["depth"] == 1 else 6):
                M = None if j == 0 else np.stack([masks[(j * B + i) % len(masks)] for i in range(B)])
                rec.hit("fed_draw_calls")
                rec.hit("fed_uniform_calls:DQN")
                try:
                    with _FedZeroUniform(B):
                        a = act(obs, 0.0, None if M is None else M.copy())
                except Exception as e:
                    cx.info_reject(e, "fed_draw_call_raised")
                    continue
                rows = _rows(a, B)
                S = cap.out.get("actor")
                if rows is None or S is None or not np.isfinite(S).all():
                    continue
                S = np.asarray(S).reshape(B, -1)
                for r in range(B):
                    allowed = np.ones(n, bool) if M is None else M[r] > 0
                    av = int(rows[r, 0])
                    if not (0 <= av < n) or not allowed[av]:
                        continue
                    rec.hit("fed_uniform_rows")
                    if S[r, av] < S[r][allowed].max():
                        rec.violate(
                            "greedy_fed_draw",
                            "random_action_at_epsilon_zero_when_draw_is_zero",
                            "DQN._get_action",
                            algo=algo, row=r, action=av, scores=S[r], mask=allowed.astype(int), epsilon=0.0,
                        )
                        break
    finally:
        cap.remove()
    rec.nontrivial = rec.counters.get("legal_rows", 0) > 0 and cx.mixed_mask_rows > 0


class _FedZeroUniform:
    """Feed 0.0 as the per-row exploration variate drawn with Tensor.uniform_() (shape (B,)); uniform_ samples from
    [0, 1), so 0.0 is a possible draw.  Installed as a class attribute of torch.Tensor for the duration of one call."""

    def __init__(self, B):
        self.B = B

    def __enter__(self):
        import torch

        orig = torch.Tensor.uniform_
        B = self.B

        def fed(t, *a, **k):
            r = orig(t, *a, **k)
            if tuple(r.shape) == (B,):
                r.zero_()
            return r

        torch.Tensor.uniform_ = fed
        return self

    def __exit__(self, *exc):
        import torch

        try:
            del torch.Tensor.uniform_  # the inherited C implementation becomes visible again
        except AttributeError:
            pass
        return False


class _FedZeroDraws:
    """Feed the corner variate 0.0 to the random-action scores of every *allowed* action (DQN: torch.rand_like,
    CQN: np.random.uniform); masked positions keep their real draw.  The code still takes every decision itself."""

    def __init__(self, algo, M):
        self.algo = algo
        self.M = np.asarray(M)

    def __enter__(self):
        import torch

        M = self.M
        if self.algo == "DQN":
            self.orig = torch.rand_like

            def fed(t, *a, **k):
                r = self.orig(t, *a, **k)
                if tuple(r.shape) == M.shape:
                    r = r * torch.as_tensor(1 - M, dtype=r.dtype)
                return r

            torch.rand_like = fed
        else:
            self.orig = np.random.uniform

            def fedu(low=0.0, high=1.0, size=None):
                r = self.orig(low, high, size)
                if isinstance(r, np.ndarray) and r.shape == M.shape:
                    r = r * (1 - M)
                return r

            np.random.uniform = fedu
        return self

    def __exit__(self, *exc):
        import torch

        if self.algo == "DQN":
            torch.rand_like = self.orig
        else:
            np.random.uniform = self.orig
        return False


# ====================================================================== bandits
def _run_bandit(case, rec):
    from vf import agentops, zoo
    from vf.taps import FrameTap

    cx = _Ctx(case, rec)
    cx.uses_masks = True
    agentops.seed_all(case["seed"])
    agent, osp, asp = _build_single(case)
    algo = case["algo"]
    n = int(asp.n)
    _force(agent.actor, case["force"])
    rng = np.random.default_rng(case["seed"])
    masks = _all_masks(n, rng, case["depth"])
    tap = FrameTap("c14-bandit")
    tap.on_return(type(agent).get_action, ["action_values"], label="values")

    def one(obs, mask, marg, where, judge_crash=True, form="numeric"):
        _one(obs, mask, marg, where, judge_crash, form)
        if marg is not None and form != "numeric":
            rec.hit("calls_with_the_same_mask_object_again")
            _one(obs, mask, marg, where + "|same_mask_object_again", judge_crash, form)

    def _one(obs, mask, marg, where, judge_crash=True, form="numeric"):
        rec.hit(f"calls:{algo}")
        tap.clear()
        try:
            a = agent.get_action(obs) if marg is None else agent.get_action(obs, action_mask=marg)
        except Exception as e:
            if judge_crash:
                cx.crash(e, where, mask=mask, n=n)
            else:
                cx.info_reject(e, f"mask_form_rejected:{form}")
            return
        rows = check_legal(cx, asp, a, 1, "train", where)
        if mask is not None:
            check_mask(cx, asp, rows, mask[None, :], where, force=case["force"])
        recs = tap.get("values")
        if recs and "action_values" in recs[-1].values:
            rec.hit("bandit_value_taps")
            rec.hit(f"bandit_value_taps:{algo}")
            vals = np.asarray(recs[-1].values["action_values"], dtype=np.float64).reshape(1, -1)
            if vals.shape[1] == n:
                check_greedy(cx, rows, vals, None if mask is None else mask[None, :], where, force=case["force"])
        else:
            rec.hit("bandit_value_tap_lost")

    with tap:
        reps = 2 if case["depth"] == 1 else 4
        for rep in range(reps):
            obs = _sample_obs(osp, n, rng)  # one context row per arm
            try:
                agent.get_action(obs)
            except Exception as e:
                cx.info_reject(e, f"obs_rejected_by_plain_get_action:{case['obs']}")
                continue
            one(obs, None, None, "nomask")
            for j, m in enumerate(masks):
                one(obs, m, _cast_mask(m, j + rep), "mask")
            for form, marg in _extended_forms(masks[0]):
                one(obs, masks[0], marg, f"mask_form:{form}", judge_crash=False, form=form)
    if tap.problems:
        rec.hit("bandit_tap_problems")
        rec.extra["tap_problems"] = tap.problems[:3]
    rec.nontrivial = rec.counters.get("legal_rows", 0) > 0 and cx.mixed_mask_rows > 0


# ====================================================================== DDPG / TD3
def _run_det_cont(case, rec):
    from vf import agentops

    cx = _Ctx(case, rec)
    agentops.seed_all(case["seed"])
    agent, osp, asp = _build_single(case)
    algo = case["algo"]
    _force(agent.actor, case["force"])
    rng = np.random.default_rng(case["seed"])
    vn = int(case.get("vect_noise", 1))
    forms = [("batch", vn, vn)] if vn > 1 else _forms(case, 5)
    reps = 4 if case["depth"] == 1 else 10
    for fname, nb, Bn in forms:
        obs = _sample_obs(osp, nb, rng)
        try:
            agent.get_action(obs, training=False)
        except Exception as e:
            cx.info_reject(e, f"obs_rejected_by_plain_get_action:{case['obs']}:{fname}")
            continue
        for training in (True, False):
            for rep in range(reps if training else 2):  # OU noise accumulates over calls
                rec.hit(f"calls:{algo}")
                if rep:
                    obs = _sample_obs(osp, nb, rng)
                where = f"{fname}|training={training}"
                try:
                    a = agent.get_action(obs, training=training)
                except Exception as e:
                    cx.crash(e, where, training=training)
                    break
                check_legal(cx, asp, a, Bn, "train" if training else "eval", where, training=training, ou=case["ou"],
                            expl_noise=case["expl"], force=case["force"])
    rec.nontrivial = cx.bound_touched > 0


# ====================================================================== PPO
def _run_ppo(case, rec):
    from gymnasium import spaces

    from vf import agentops

    cx = _Ctx(case, rec)
    agentops.seed_all(case["seed"])
    agent, osp, asp = _build_single(case)
    _force(agent.actor, case["force"])
    rng = np.random.default_rng(case["seed"])
    depth = case["depth"]
    is_box = isinstance(asp, spaces.Box)
    cx.uses_masks = not is_box
    if isinstance(asp, spaces.Discrete):
        masks = _all_masks(int(asp.n), rng, depth)
    elif isinstance(asp, spaces.MultiDiscrete):
        masks = _md_masks(list(asp.nvec), rng, depth)
    elif isinstance(asp, spaces.MultiBinary):
        nb_ = int(asp.n)
        masks = [np.array(b, np.int64) for b in itertools.product((0, 1), repeat=nb_)] if nb_ <= 5 else _all_masks(nb_, rng, depth)
    else:
        masks = []
    B = 6
    cap = _Capture()
    if not is_box:
        cap.attach(agent.actor.head_net.wrapped, "logits")

    def one(obs, Bn, mode, mask_rows, marg, where, judge_crash=True, form="numeric", counter=None):
        rec.hit("calls:PPO")
        cap.clear()
        try:
            out = agent.get_action(obs) if marg is None else agent.get_action(obs, action_mask=marg)
            a = out[0]
        except Exception as e:
            if judge_crash:
                cx.crash(e, where, mode=mode, mask=mask_rows)
            else:
                cx.info_reject(e, f"mask_form_rejected:{form}")
            return
        rows = check_legal(cx, asp, a, Bn, mode, where, mode_=mode, force=case["force"], squash=bool(case.get("squash")))
        if mask_rows is not None:
            check_mask(cx, asp, rows, mask_rows, where, logits=cap.out.get("logits"), force=case["force"])
            if counter and rows is not None:
                rec.hit(counter, Bn)
                rec.hit(f"{counter}:PPO", Bn)

    try:
        _ppo_plan(case, rec, cx, agent, osp, asp, rng, masks, is_box, B, one)
    finally:
        cap.remove()
    rec.nontrivial = rec.counters.get("legal_rows", 0) > 0 and ((is_box and cx.bound_touched > 0) or cx.mixed_mask_rows > 0)


def _ppo_plan(case, rec, cx, agent, osp, asp, rng, masks, is_box, B, one):
    depth = case["depth"]
    for fname, nb, Bn in _forms(case, B):
        obs = _sample_obs(osp, nb, rng)
        agent.set_training_mode(True)
        try:
            agent.get_action(obs)
        except Exception as e:
            cx.info_reject(e, f"obs_rejected_by_plain_get_action:{case['obs']}:{fname}")
            continue
        for mode in ("train", "eval"):
            agent.set_training_mode(mode == "train")
            for rep in range(3 if is_box else 1):
                one(obs, Bn, mode, None, None, f"{fname}|nomask|{mode}")
            if is_box:
                continue
            if Bn == 1:
                sub = masks if depth > 1 else masks[:4] + masks[-1:]
                for j, m in enumerate(sub):
                    marg = _cast_mask(m, j) if (fname == "single" and j % 2 == 0) else _cast_mask(m[None, :], j)
                    one(obs, 1, mode, m[None, :], marg, f"{fname}|mask|{mode}")
            else:
                for s in range(0, len(masks), Bn):
                    M = np.stack([masks[(s + i) % len(masks)] for i in range(Bn)])
                    one(obs, Bn, mode, M, _cast_mask(M, s), f"{fname}|mask|{mode}")
        agent.set_training_mode(True)
        if not is_box and masks:
            M = np.stack([masks[i % len(masks)] for i in range(Bn)])
            import torch

            ext = _extended_forms(M if nb is not None else M[0])
            ext.append(("tensor", torch.as_tensor(M if nb is not None else M[0])))
            for form, marg in ext:
                one(obs, Bn, "train", M, marg, f"{fname}|mask_form:{form}", judge_crash=False, form=form)
    # ---- many independent draws of the stochastic policy under one mask
    if not is_box and masks:
        K = 48
        obs = _sample_obs(osp, K, rng)
        sub = masks[: (6 if depth == 1 else 24)]
        for j, m in enumerate(sub):
            M = np.repeat(m[None, :], K, axis=0)
            one(obs, K, "train", M, _cast_mask(M, j), "many_draws|mask", counter="many_draw_rows")


# ====================================================================== multi-agent
def _ma_obs(osp, vect, rng):
    return {aid: _sample_obs(sp, (vect if vect else None), rng) for aid, sp in zip(AGENTS, osp)}


def _mask_value(M, vect, form):
    """Per-agent mask as it appears in infos: (n,) non-vectorised, (vect, n) vectorised; numpy or nested list."""
    v = np.asarray(M[0] if not vect else M)
    return v.tolist() if form == "list" else v.astype(np.int8)


def _infos(per_agent, order):
    keys = list(AGENTS)
    if order == "permuted":
        keys = [keys[1], keys[2], keys[0]]
    return {k: per_agent[k] for k in keys}


def _envdef(asp, vect, rng, discrete, allowed=None):
    """env_defined_actions for every agent: np.nan where the agent acts itself.  Returns (infos entries, expected)."""
    from gymnasium import spaces

    B = max(1, vect)
    entries, expect = {}, {}
    for ai, aid in enumerate(AGENTS):
        sp = asp[ai]
        if discrete:
            vals = np.full(B, np.nan)
            for r in range(B):
                if rng.random() < 0.5:
                    if allowed is not None and aid in allowed:
                        ok = np.flatnonzero(np.asarray(allowed[aid]).reshape(B, -1)[r] > 0)
                        if len(ok) == 0:
                            continue
                        vals[r] = float(ok[int(rng.integers(len(ok)))])
                    else:
                        vals[r] = float(rng.integers(sp.n))
            expect[aid] = vals.copy()
            if vect:
                entries[aid] = vals
            else:
                entries[aid] = None if np.isnan(vals[0]) else int(vals[0])
        else:
            d = int(np.prod(sp.shape))
            lo = np.where(np.isfinite(sp.low), sp.low, -1.0)
            hi = np.where(np.isfinite(sp.high), sp.high, 1.0)
            vals = np.full((B, d), np.nan)
            for r in range(B):
                if rng.random() < 0.5:
                    vals[r] = (lo + rng.random(d) * (hi - lo)).astype(np.float32)
            expect[aid] = vals.copy()
            if vect:
                entries[aid] = vals
            else:
                entries[aid] = None if np.isnan(vals[0]).all() else vals[0]
    if not vect and all(v is None for v in entries.values()):
        # at least one agent is driven by the environment
        aid = AGENTS[0]
        if discrete:
            pick = 0
            if allowed is not None and aid in allowed:
                ok = np.flatnonzero(np.asarray(allowed[aid]).reshape(1, -1)[0] > 0)
                pick = int(ok[0]) if len(ok) else 0
            entries[aid] = pick
            expect[aid][0] = float(pick)
        else:
            sp = asp[0]
            lo = np.where(np.isfinite(sp.low), sp.low, -1.0)
            entries[aid] = lo.astype(np.float64).copy()
            expect[aid][0] = lo
    return entries, expect


def _envdef_info(rec, action, expect):
    """Information only: are the environment's values the ones returned?"""
    for aid, ex in expect.items():
        a = np.asarray(action[aid], dtype=np.float64).reshape(ex.shape[0], -1)
        e = ex.reshape(ex.shape[0], -1)
        sel = ~np.isnan(e)
        if sel.any():
            rec.hit("env_defined_rows(info)", int(sel.any(axis=1).sum()))
            if not np.allclose(a[sel], e[sel], rtol=1e-6, atol=1e-6):
                rec.hit("env_defined_value_not_returned(info)")


def _run_ma_det(case, rec):
    from gymnasium import spaces

    from vf import agentops

    cx = _Ctx(case, rec)
    agentops.seed_all(case["seed"])
    agent, osp, asp = _build_multi(case)
    algo = case["algo"]
    for actor in agent.actors:
        _force(actor, case["force"])
    rng = np.random.default_rng(case["seed"])
    vect = int(case["vect"])
    B = max(1, vect)
    depth = case["depth"]
    discrete = isinstance(asp[0], spaces.Discrete)
    cap = _Capture()
    for i, actor in enumerate(agent.actors):
        cap.attach(actor, AGENTS[i])
    try:
        obs = _ma_obs(osp, vect, rng)
        try:
            agent.get_action(obs, training=False)
        except Exception as e:
            cx.info_reject(e, f"obs_rejected_by_plain_get_action:{case['obs']}:vect={vect}")
            return
        if not discrete:
            reps = 4 if depth == 1 else 10
            for training in (True, False):
                for rep in range(reps if training else 2):
                    rec.hit(f"calls:{algo}")
                    obs = _ma_obs(osp, vect, rng)
                    infos, expect = None, None
                    if case.get("envdef") and rep % 2 == 1:
                        entries, expect = _envdef(asp, vect, rng, False)
                        infos = _infos({a: {"env_defined_actions": entries[a]} for a in AGENTS}, "agent")
                    where = f"vect={vect}|training={training}" + ("|env_defined" if infos else "")
                    try:
                        out = agent.get_action(obs, training=training, infos=infos)
                    except Exception as e:
                        cx.crash(e, where, training=training)
                        break
                    for ai, aid in enumerate(AGENTS):
                        check_legal(cx, asp[ai], out[0][aid], B, "train" if training else "eval", where, agent=aid,
                                    training=training, ou=case["ou"], expl_noise=case["expl"], force=case["force"])
                    if expect is not None:
                        _envdef_info(rec, out[0], expect)
            rec.nontrivial = cx.bound_touched > 0
            return
        # ---------------- discrete actions: masks per agent in infos
        cx.uses_masks = True
        n = int(asp[0].n)
        masks = _all_masks(n, rng, depth)
        nm = len(masks)
        steps = range(0, nm, B) if depth > 1 else list(range(0, nm, B))[: max(3, 12 // B)] + [max(0, nm - B)]
        for training in (True, False):
            rec.hit(f"calls:{algo}")
            obs = _ma_obs(osp, vect, rng)
            cap.clear()
            try:
                out = agent.get_action(obs, training=training)
            except Exception as e:
                cx.crash(e, f"vect={vect}|nomask", training=training)
                continue
            for ai, aid in enumerate(AGENTS):
                rows = check_legal(cx, asp[ai], out[1][aid], B, "train", f"vect={vect}|nomask", agent=aid, training=training)
                if not training:
                    check_greedy(cx, rows, cap.out.get(aid), None, f"vect={vect}|nomask", agent=aid, force=case["force"])
            for si, s in enumerate(steps):
                rec.hit(f"calls:{algo}")
                obs = _ma_obs(osp, vect, rng)
                per, Ms = {}, {}
                for ai, aid in enumerate(AGENTS):
                    M = np.stack([masks[(s + i + 3 * ai) % nm] for i in range(B)])
                    if B >= 2 and si % 3 == 1 and ai == si % len(AGENTS):
                        # this agent has already left ONE sub-environment (all-zero row, not judged); its masks in the other
                        # sub-environments and everybody else's masks still bind
                        M = M.copy()
                        M[(si // 3) % B] = 0
                        rec.hit("agent_rows_without_any_legal_action")
                    Ms[aid] = M
                    per[aid] = {"action_mask": _mask_value(M, vect, case["maskform"])}
                expect = None
                if case.get("envdef") and si % 2 == 1:
                    entries, expect = _envdef(asp, vect, rng, True, allowed=Ms)
                    for aid in AGENTS:
                        per[aid]["env_defined_actions"] = entries[aid]
                infos = _infos(per, "permuted" if si % 3 == 2 else "agent")
                where = f"vect={vect}|mask:{case['maskform']}" + ("|env_defined" if expect else "")
                cap.clear()
                try:
                    out = agent.get_action(obs, training=training, infos=infos)
                except Exception as e:
                    cx.crash(e, where, training=training, masks={a: Ms[a] for a in AGENTS})
                    continue
                for ai, aid in enumerate(AGENTS):
                    rows = check_legal(cx, asp[ai], out[1][aid], B, "train", where, agent=aid, training=training)
                    check_mask(cx, asp[ai], rows, Ms[aid], where, agent=aid, training=training, force=case["force"])
                    if not training and expect is None:
                        check_greedy(cx, rows, cap.out.get(aid), Ms[aid], where, agent=aid, force=case["force"])
                if expect is not None:
                    _envdef_info(rec, out[1], expect)
    finally:
        cap.remove()
    rec.nontrivial = rec.counters.get("legal_rows", 0) > 0 and cx.mixed_mask_rows > 0


def _run_ippo(case, rec):
    from gymnasium import spaces

    from vf import agentops

    cx = _Ctx(case, rec)
    agentops.seed_all(case["seed"])
    agent, osp, asp = _build_multi(case)
    for actor in agent.actors:
        _force(actor, case["force"])
    rng = np.random.default_rng(case["seed"])
    vect = int(case["vect"])
    B = max(1, vect)
    depth = case["depth"]
    sp0 = asp[0]
    is_box = isinstance(sp0, spaces.Box)
    discrete = isinstance(sp0, spaces.Discrete)
    obs = _ma_obs(osp, vect, rng)
    try:
        agent.get_action(obs)
    except Exception as e:
        cx.info_reject(e, f"obs_rejected_by_plain_get_action:{case['obs']}:vect={vect}")
        return

    cap = _Capture()
    group_of = {}
    if not is_box:
        for gi, gid in enumerate(agent.shared_agent_ids):
            cap.attach(agent.actors[gi].head_net.wrapped, gid)
            for pos, aid in enumerate(agent.homogeneous_agents[gid]):
                group_of[aid] = (gid, pos)

    def agent_logits(aid, Bn):
        gid, pos = group_of.get(aid, (None, 0))
        L = cap.out.get(gid)
        if L is None or L.shape[0] < (pos + 1) * Bn:
            return None
        return L[pos * Bn : (pos + 1) * Bn]

    def judge(out, mode, where, Ms=None, kind_suffix="", Bn=B, counter=None):
        for ai, aid in enumerate(AGENTS):
            rows = check_legal(cx, asp[ai], out[0][aid], Bn, mode, where, agent=aid, mode_=mode, force=case["force"])
            if Ms is not None and aid in Ms:
                check_mask(cx, asp[ai], rows, Ms[aid], where, kind_suffix=kind_suffix, logits=agent_logits(aid, Bn), agent=aid,
                           force=case["force"], infos_order=case.get("order"))
                if counter and rows is not None:
                    rec.hit(counter, Bn)
                    rec.hit(f"{counter}:IPPO", Bn)

    for mode in ("train", "eval"):
        agent.set_training_mode(mode == "train")
        for rep in range(3 if is_box else 1):
            rec.hit("calls:IPPO")
            obs = _ma_obs(osp, vect, rng)
            infos, expect = None, None
            if case.get("envdef") and (is_box or discrete) and rep % 2 == 0:
                entries, expect = _envdef(asp, vect, rng, discrete)
                infos = _infos({a: {"env_defined_actions": entries[a]} for a in AGENTS}, "agent")
            where = f"vect={vect}|nomask|{mode}" + ("|env_defined" if infos else "")
            try:
                out = agent.get_action(obs, infos=infos)
            except Exception as e:
                cx.crash(e, where, mode=mode)
                continue
            judge(out, mode, where)
            if expect is not None:
                _envdef_info(rec, out[0], expect)
    agent.set_training_mode(True)
    if is_box:
        rec.nontrivial = cx.bound_touched > 0
        return
    cx.uses_masks = True
    if discrete:
        masks = _all_masks(int(sp0.n), rng, depth)
    elif isinstance(sp0, spaces.MultiDiscrete):
        masks = _md_masks(list(sp0.nvec), rng, depth)
    else:
        nb_ = int(sp0.n)
        masks = [np.array(b, np.int64) for b in itertools.product((0, 1), repeat=nb_)]
    nm = len(masks)
    order = case.get("order", "agent")
    suffix = ":infos_reordered" if order == "permuted" else ""
    steps = range(0, nm, B) if depth > 1 else list(range(0, nm, B))[: max(4, 16 // B)] + [max(0, nm - B)]
    try:
        for si, s in enumerate(steps):
            rec.hit("calls:IPPO")
            obs = _ma_obs(osp, vect, rng)
            per, Ms = {}, {}
            # every 4th step only the homogeneous group "agent" carries masks (all-or-none holds per group)
            masked_agents = [a for a in AGENTS if a.startswith("agent_")] if si % 4 == 3 else list(AGENTS)
            for ai, aid in enumerate(AGENTS):
                per[aid] = {}
                if aid not in masked_agents:
                    continue
                M = np.stack([masks[(s + i + 3 * ai + 1) % nm] for i in range(B)])
                if B >= 2 and si % 3 == 1 and ai == si % len(AGENTS) and discrete:
                    M = M.copy()
                    M[(si // 3) % B] = 0  # agent without a legal action in one sub-environment (row not judged)
                    rec.hit("agent_rows_without_any_legal_action")
                Ms[aid] = M
                per[aid] = {"action_mask": _mask_value(M, vect, case["maskform"])}
            where = f"vect={vect}|mask:{case['maskform']}|order={order}" + ("|group_only" if len(masked_agents) < len(AGENTS) else "")
            cap.clear()
            try:
                out = agent.get_action(obs, infos=_infos(per, order))
            except Exception as e:
                cx.crash(e, where, masks={a: Ms[a] for a in Ms})
                continue
            judge(out, "train", where, Ms, kind_suffix=suffix)
        # ---- many independent draws under one mask per agent (vectorised width K)
        K = 24
        obs = _ma_obs(osp, K, rng)
        for j in range(3 if depth == 1 else 10):
            rec.hit("calls:IPPO")
            per, Ms = {}, {}
            for ai, aid in enumerate(AGENTS):
                m = masks[(j + 2 * ai) % nm]
                M = np.repeat(m[None, :], K, axis=0)
                Ms[aid] = M
                per[aid] = {"action_mask": _mask_value(M, K, case["maskform"])}
            where = f"many_draws|mask:{case['maskform']}|order={order}"
            cap.clear()
            try:
                out = agent.get_action(obs, infos=_infos(per, order))
            except Exception as e:
                cx.crash(e, where, masks={a: Ms[a][0] for a in AGENTS})
                break
            judge(out, "train", where, Ms, kind_suffix=suffix, Bn=K, counter="many_draw_rows")
    finally:
        cap.remove()
    rec.nontrivial = rec.counters.get("legal_rows", 0) > 0 and cx.mixed_mask_rows > 0


# ====================================================================== entry points
AGENT_ID_STYLES = (
    ["agent_0", "agent_1", "other_0"],
    ["agent_1", "other_0", "agent_0"],  # one policy group declared in non-sorted order, interleaved with the other group
    ["agent_9", "agent_10", "other_0"],  # "agent_10" sorts before "agent_9"
)


def run_case(case):
    global AGENTS
    rec = Recorder()
    algo = case["algo"]
    AGENTS = list(AGENT_ID_STYLES[int(case.get("seed", 0)) % 3 if algo in MA_DET + ["IPPO"] else 0])
    try:
        if algo in VALUE_DISCRETE:
            _run_value_discrete(case, rec)
        elif algo in BANDITS:
            _run_bandit(case, rec)
        elif algo in DET_CONT:
            _run_det_cont(case, rec)
        elif algo == "PPO":
            _run_ppo(case, rec)
        elif algo in MA_DET:
            _run_ma_det(case, rec)
        elif algo == "IPPO":
            _run_ippo(case, rec)
        else:
            raise ValueError(algo)
    except CaseTimeout:
        raise
    except _BuildFailed as e:
        # constructing the agent is not C14's business
        rec.hit("build_failed(info)")
        rec.extra["build_failed"] = str(e)[:160]
    return rec.result()


def _needs(case):
    algo, act = case["algo"], case["act"]
    t = act["type"]
    out = [f"legal_rows:{algo}"]
    if t == "box":
        if act["name"] not in INF_BOXES:
            out.append(f"bound_rows:{algo}")
        return out
    out.append(f"mask_rows:{algo}")
    if algo in VALUE_DISCRETE or algo in BANDITS or algo in MA_DET:
        out.append(f"greedy_rows:{algo}")
    if algo in BANDITS:
        out.append(f"bandit_value_taps:{algo}")
    if algo in ("PPO", "IPPO"):
        out.append(f"many_draw_rows:{algo}")
    if algo in ("DQN", "CQN") and int(act.get("n", 0)) >= 2:
        out.append(f"fed_draw_calls:{algo}")
    return out


def finalize(ctx):
    counters = ctx["counters"]
    needed = sorted({name for c in ctx["cases"] for name in _needs(c)})
    for name in needed:
        if counters.get(name, 0) <= 0:
            ctx["inconclusive"].append(f"deciding monitor '{name}' never evaluated")
    # observability lost is never "held"
    for name in ("greedy_scores_not_captured", "bandit_value_tap_lost", "bandit_tap_problems"):
        if counters.get(name, 0) > 0:
            ctx["inconclusive"].append(f"observability lost: {name}={int(counters[name])}")
    calls = {k.split(":", 1)[1]: int(v) for k, v in counters.items() if k.startswith("calls:")}
    spaces_seen = sorted({c["act"]["type"] + ":" + str(c["act"].get("name", c["act"].get("n", c["act"].get("nvec")))) for c in ctx["cases"]})
    info = {}
    for ex in (r.get("extra") or {} for r in ctx["results"].values()):
        for k, v in ex.items():
            info.setdefault(k, v)
    return {
        "get_action_calls_per_algorithm": calls,
        "get_action_calls_total": int(sum(calls.values())),
        "action_spaces": spaces_seen,
        "observation_kinds": sorted({c["obs"] for c in ctx["cases"]}),
        "deciding_monitors_required": needed,
        "informational_observations": {k: info[k] for k in sorted(info)[:40]},
    }
