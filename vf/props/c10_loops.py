"""C10, second workload: the REAL `train_off_policy` fills and samples the 1-step and the n-step buffer.

The first workload replays the loop's protocol (n_step_memory.add -> memory.add of the returned transition, both sampled
with the same indices) itself.  Here the real loop runs RainbowDQN on a scripted environment whose every observation
encodes (environment, episode, step) and whose rewards are a function of that triple only; a class-level wrapper
around `RainbowDQN.learn` then decides, for every row of every batch pair the loop hands to the learner:

  loop_pairing   row k of the n-step batch starts from the same (observation, action) as row k of the 1-step batch
  loop_one_step  the 1-step row carries the reward, next observation and done flag of its own step
  loop_nstep     the n-step row carries sum_{i<m} gamma^i r_{t+i} over the m <= n steps that followed its first step in the same
                 sub-environment and never beyond a step the loop stored as terminal (m = full window with a single
                 environment; with several environments the library may cut a window when another environment ends
                 inside it, so any shorter prefix is accepted), together with the next observation and done flag of
                 step t+m-1.  The loop stores done = terminated only: windows that run through an episode end by
                 TRUNCATION are counted as information (loop_nstep_windows_through_a_truncation_boundary), not judged;
                 windows that run through the loop's own env.reset() are judged (fixed in /repo, see DESIGN 8.2)
"""

from __future__ import annotations

import contextlib
import io

import numpy as np

OBS_DIM = 4


def _reward(e, ep, t):
    return float(((e * 7 + ep * 13 + t * 3) % 11) - 5) / 4.0


def _obs(e, ep, t):
    return np.array([e, ep, t, (e * 31 + ep * 17 + t * 5) % 97], dtype=np.float32)


def make_env(case):
    from gymnasium import spaces
    from gymnasium.vector.utils import batch_space

    n = int(case["n_envs"])
    vect = bool(case["vect"])
    lens = [int(case["ep_lens"][i % len(case["ep_lens"])]) for i in range(n)]
    osp = spaces.Box(0.0, 1e6, (OBS_DIM,), np.float32)
    asp = spaces.Discrete(3)
    state = {"ep": [-1] * n, "t": [0] * n, "resets": 0, "episodes_cut_by_reset": 0}

    class Env:
        metadata = {}
        render_mode = None

        def __init__(self):
            self.single_observation_space, self.single_action_space = osp, asp
            if vect:
                self.num_envs = n
                self.observation_space, self.action_space = batch_space(osp, n), batch_space(asp, n)
            else:
                self.observation_space, self.action_space = osp, asp

        def _cur(self):
            o = np.stack([_obs(e, state["ep"][e], state["t"][e]) for e in range(n)])
            return o if vect else o[0]

        def reset(self, seed=None, options=None):
            state["resets"] += 1
            for e in range(n):
                if state["ep"][e] >= 0 and state["t"][e] > 0:
                    state["episodes_cut_by_reset"] += 1
                state["ep"][e] += 1
                state["t"][e] = 0
            return self._cur(), {}

        def step(self, action):
            rew, term, trunc = [], [], []
            for e in range(n):
                r = _reward(e, state["ep"][e], state["t"][e])
                state["t"][e] += 1
                done = state["t"][e] >= lens[e]
                te = bool(done and (case["end"] == "term" or (case["end"] == "mixed" and state["ep"][e] % 2 == 0)))
                rew.append(r); term.append(te); trunc.append(bool(done and not te))
                if done and vect:  # same-step auto-reset
                    state["ep"][e] += 1
                    state["t"][e] = 0
            if vect:
                return self._cur(), np.asarray(rew, np.float32), np.asarray(term), np.asarray(trunc), {}
            return self._cur(), float(rew[0]), bool(term[0]), bool(trunc[0]), {}

        def close(self):
            pass

    return Env(), lens, state


def loop_cases(tier, seed):
    rng = np.random.default_rng(1000 + seed)
    out = []
    n = 12 if tier == "quick" else 120
    for i in range(n):
        vect = bool(i % 4 != 3)
        n_envs = int(rng.integers(1, 4)) if vect else 1
        c = {
            "mode": "loop",
            "vect": vect,
            "n_envs": n_envs,
            # un-vectorised environments are not reset by the loop after an episode end (C20's subject): one long episode
            "ep_lens": [int(x) for x in rng.integers(2, 7, size=n_envs)] if vect else [10_000],
            "end": ["term", "trunc", "mixed"][int(rng.integers(3))],
            "n_step": int(rng.integers(1, 5)),
            "gamma": [0.5, 0.9, 0.99, 1.0][int(rng.integers(4))],
            "per": bool(i % 2),
            "learn_step": [1, 2, 5][int(rng.integers(3))],
            "batch": int(rng.integers(2, 7)),
            "cap": int(rng.integers(16, 40)),
            "steps": int(rng.integers(40, 80)),
            "generations": int(rng.integers(1, 3)),
            # populations: every agent's turn starts with an env.reset() while transitions of the previous agent's rollout
            # are still waiting in the n-step window
            "pop": 1 + (i % 3),
            "seed": int(rng.integers(1 << 30)),
        }
        out.append(c)
    return out


def _np(x):
    import torch

    if isinstance(x, torch.Tensor):
        return x.detach().cpu().numpy()
    return np.asarray(x)


def run_loop_case(case, rec):
    from agilerl.algorithms.dqn_rainbow import RainbowDQN
    from agilerl.components import MultiStepReplayBuffer, PrioritizedReplayBuffer, ReplayBuffer
    from agilerl.training.train_off_policy import train_off_policy

    from vf import agentops
    from vf.core import CaseTimeout

    agentops.seed_all(case["seed"])
    env, lens, st = make_env(case)
    E, n_step, gamma = int(case["n_envs"]), int(case["n_step"]), float(case["gamma"])
    site = "train_off_policy -> RainbowDQN.learn"
    ctx = {k: case[k] for k in ("vect", "n_envs", "ep_lens", "end", "n_step", "gamma", "per", "learn_step", "batch", "cap")}
    sink = io.StringIO()
    seen = {"learn": 0}

    def judge(experiences, n_experiences):
        B = int(_np(experiences["obs"]).shape[0])
        o1, a1 = _np(experiences["obs"]).reshape(B, -1), _np(experiences["action"]).reshape(B, -1)
        r1, d1 = _np(experiences["reward"]).reshape(B).astype(np.float64), _np(experiences["done"]).reshape(B).astype(np.float64)
        x1 = _np(experiences["next_obs"]).reshape(B, -1)
        if n_experiences is None:
            rec.hit("loop_learn_without_nstep_batch")
            return
        on, an = _np(n_experiences["obs"]).reshape(B, -1), _np(n_experiences["action"]).reshape(B, -1)
        rn, dn = _np(n_experiences["reward"]).reshape(B).astype(np.float64), _np(n_experiences["done"]).reshape(B).astype(np.float64)
        xn = _np(n_experiences["next_obs"]).reshape(B, -1)
        for k in range(B):
            rec.hit("loop_rows_checked")
            e, ep, t = (int(v) for v in o1[k][:3])
            if not np.array_equal(o1[k], _obs(e, ep, t)):
                rec.hit("loop_undecodable_rows")
                continue
            if not (np.array_equal(o1[k], on[k]) and np.array_equal(a1[k], an[k])):
                rec.violate("loop_pairing", "nstep_row_starts_from_another_observation_or_action_than_the_paired_1step_row", site,
                            row=k, one_step_row=[e, ep, t], n_step_row=[int(v) for v in on[k][:3]], **ctx)
                continue
            # the steps that follow (e, ep, t) in this sub-environment, as the loop tells them to the buffers: an episode
            # ended by TERMINATION ends the window; the loop stores done = terminated only, so an episode ended by
            # truncation is invisible to the n-step buffer and (same-step auto-reset) is followed by (ep+1, 0)
            def ends(ep_):
                term = case["end"] == "term" or (case["end"] == "mixed" and ep_ % 2 == 0)
                return "term" if term else "trunc"

            timeline = []  # (ep, t, reward, next_obs, terminated, crossed_truncation_before)
            ce, ct, crossed = ep, t, False
            for _ in range(n_step):
                last = ct + 1 >= lens[e]
                if last:
                    nx = _obs(e, ce + 1, 0) if case["vect"] else _obs(e, ce, ct + 1)
                else:
                    nx = _obs(e, ce, ct + 1)
                terminated = bool(last and ends(ce) == "term")
                timeline.append((ce, ct, _reward(e, ce, ct), nx, 1.0 if terminated else 0.0, crossed))
                if terminated:
                    break
                if last:
                    if not case["vect"]:
                        break
                    ce, ct, crossed = ce + 1, 0, True
                else:
                    ct += 1
            _, _, r0, x0, d0, _ = timeline[0]
            if abs(r1[k] - r0) > 1e-6 or d1[k] != d0 or not np.array_equal(x1[k], x0):
                rec.violate("loop_one_step", "one_step_row_is_not_the_transition_of_its_step", site, row=k, at=[e, ep, t],
                            got=[float(r1[k]), float(d1[k]), x1[k][:3].tolist()], want=[r0, d0, x0[:3].tolist()], **ctx)
                continue
            rec.hit("loop_nstep_rows_checked")
            ok_m = None
            for m in range(len(timeline), 0, -1):
                tot = sum((gamma ** i) * timeline[i][2] for i in range(m))
                _, _, _, wx, wd, _ = timeline[m - 1]
                if abs(rn[k] - tot) <= 1e-5 * (1 + abs(tot)) and dn[k] == wd and np.array_equal(xn[k], wx):
                    ok_m = m
                    break
            if ok_m is None:
                rec.violate("loop_nstep", "nstep_row_is_no_discounted_window_of_the_steps_that_followed_its_first_step", site, row=k,
                            at=[e, ep, t], got=[float(rn[k]), float(dn[k]), xn[k][:3].tolist()],
                            full_window=[sum((gamma ** i) * timeline[i][2] for i in range(len(timeline))), timeline[-1][4],
                                         timeline[-1][3][:3].tolist()], **ctx)
            else:
                if any(timeline[i][4] for i in range(ok_m)) or len(timeline) < n_step:
                    rec.hit("loop_nstep_rows_with_terminal_in_window")
                if any(timeline[i][5] for i in range(ok_m)):
                    # information: the statement's "end of that episode" at loop level (see DESIGN, C10)
                    rec.hit("loop_nstep_windows_through_a_truncation_boundary(info)")
                if ok_m < len(timeline):
                    rec.hit("loop_nstep_rows_cut_short")
                    if E == 1:
                        rec.violate("loop_nstep", "window_cut_short_with_a_single_environment", site, row=k, at=[e, ep, t],
                                    m=ok_m, want=len(timeline), **ctx)

    orig = RainbowDQN.learn

    def learn(self, experiences, n_experiences=None, per=False, *a, **k):
        seen["learn"] += 1
        rec.hit("loop_learn_calls")
        try:
            judge(experiences, n_experiences)
        except CaseTimeout:
            raise
        except Exception as exc:
            rec.hit("loop_monitor_errors")
            rec.extra.setdefault("loop_monitor_errors", []).append(f"{type(exc).__name__}: {exc}"[:300])
        return orig(self, experiences, n_experiences=n_experiences, per=per, *a, **k)

    with contextlib.redirect_stdout(sink), contextlib.redirect_stderr(sink):
        osp, asp = env.single_observation_space, env.single_action_space
        agent = RainbowDQN(osp, asp, batch_size=int(case["batch"]), learn_step=int(case["learn_step"]), n_step=n_step, gamma=gamma,
                           v_min=-10.0, v_max=10.0, num_atoms=11,
                           net_config={"encoder_config": {"hidden_size": [16]}, "head_config": {"hidden_size": [16]}})
        memory = PrioritizedReplayBuffer(max_size=int(case["cap"]), alpha=0.6) if case["per"] else ReplayBuffer(max_size=int(case["cap"]))
        nmem = MultiStepReplayBuffer(max_size=int(case["cap"]), n_step=n_step, gamma=gamma)
        RainbowDQN.learn = learn
        try:
            steps = int(case["steps"])
            pop = [agent] + [agent.clone(index=j) for j in range(1, int(case.get("pop", 1)))]
            rec.hit("loop_population_members", len(pop))
            train_off_policy(env, "c10-loop", "RainbowDQN", pop, memory, max_steps=steps * int(case["generations"]), evo_steps=steps,
                             eval_steps=3, eval_loop=1, n_step=True, per=bool(case["per"]), n_step_memory=nmem, tournament=None,
                             mutation=None, wb=False, verbose=False)
        except CaseTimeout:
            raise
        except Exception as e:
            rec.hit("loop_run_aborted(info)")
            rec.extra.setdefault("loop_aborts", []).append(f"{type(e).__name__}: {e}"[:300])
        finally:
            RainbowDQN.learn = orig
    rec.hit("loop_cases")
    rec.hit("loop_env_resets", st["resets"])
    rec.hit("loop_episodes_cut_by_reset", st["episodes_cut_by_reset"])
    rec.nontrivial = seen["learn"] >= 1 and rec.counters.get("loop_nstep_rows_checked", 0) > 0
