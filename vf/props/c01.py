"""C01 - a cloned agent is a faithful and fully independent copy of its parent.

Monitors (all on the real clone() / Mutations / TournamentSelection code):
  copy_faithful      structural equality walker over every leaf of parent and clone (hyperparameters, init_dicts,
                     every network leaf found by the module leaf walker, optimizer class / groups / state matched by
                     parameter name, registry, score lists); the statement's target re-sync exception is encoded
  same_greedy_action greedy action / policy statistics on probe observations
  same_update        parent and clone learn from the same batch under the same RNG state -> identical leaves
  alias              alias sanitizer: cross-agent shared tensor memory or shared mutable python containers
  independence       fingerprints of every other agent before/after learn / mutation / discard of one of them
"""

from __future__ import annotations

import copy
import gc

import numpy as np

from vf.core import CaseTimeout, Recorder

PROPERTY = "C01"
LEVEL = "exploration"
RULE = (
    "case = (algorithm, observation family, shared/unshared encoders, optional RSNorm wrapper, seeded history of "
    "0..L ops over {learn, the five mutation kinds through Mutations, clone-and-continue, tournament round}, k=1..3 "
    "sibling clones, seed). Non-trivial = history contains at least one learn step or mutation AND the structural "
    "comparison ran over >= 50 leaves AND at least one sibling was trained afterwards; distinct = distinct case descriptions"
)
ASSUMPTIONS = [
    "CPU only; accelerate / torch.compile paths are not driven",
    "target re-sync exception: a differing leaf of a registry 'shared' network (or DQN's mirrored TensorDicts) of the "
    "clone is accepted iff it equals the same-named leaf of the clone's own eval network",
    "same-update is only demanded when no target re-sync exception was used for that clone (a different target "
    "legitimately changes the update)",
    "structural aliases are verdicts only for the carriers the statement names (weights, optimizer moments and step "
    "counters, hyperparameter ranges/registry, score lists); other shared containers need a visible write "
    "(fingerprint change) to count",
    "bandits (NeuralUCB/TS): 'greedy action' is compared through the actor's predictions because get_action mutates sigma_inv",
]
REQUIRED_COUNTERS = ["copy_faithful_leaves", "alias_pairs", "independence_probes", "same_update_checks"]
CASE_TIMEOUT_S = 1500


def preload():
    import agilerl.algorithms  # noqa
    import agilerl.hpo.mutation  # noqa
    import agilerl.hpo.tournament  # noqa
    import agilerl.wrappers.agent  # noqa
    from vf.core import quiet_torch

    quiet_torch()


OBS_FOR = {
    "NeuralUCB": ["vector", "image", "dict"],
    "NeuralTS": ["vector", "image", "dict"],
}


def cases(tier, seed):
    from vf import agentops, zoo

    rng = np.random.default_rng(4100 + seed)
    out = []
    n_hist = 3 if tier == "quick" else 30
    max_len = 6 if tier == "quick" else 12
    for algo in zoo.ALL:
        kinds = OBS_FOR.get(algo, zoo.OBS_KINDS)
        if tier == "quick":
            # every algorithm sees vector + two rotating other families
            k2 = [kinds[0]] + [kinds[1 + (hash_i % (len(kinds) - 1))] for hash_i in (zoo.ALL.index(algo), zoo.ALL.index(algo) + 1)]
            kinds = list(dict.fromkeys(k2))
        for ok in kinds:
            for h in range(n_hist):
                hist = agentops.random_history(rng, max_len, algo)
                if h == 0:
                    hist = ["act", "learn", "learn", "act"]  # moments non-zero, target lags, acting state advanced
                c = {
                    "algo": algo,
                    "obs": ok,
                    "history": hist,
                    "k": int(rng.integers(1, 4)),
                    "seed": int(rng.integers(1 << 30)),
                    # every scalar constructor option at a non-default value (zoo.nondefault_kwargs)
                    "nondefault": bool((h + zoo.ALL.index(algo)) % 3 == 1),
                }
                if algo in zoo.HAS_SHARE_ENCODERS:
                    c["share_encoders"] = bool(rng.random() < 0.5) if h else True
                if algo in ("DQN", "DDPG", "TD3") and ok == "vector" and rng.random() < 0.5:
                    c["wrapper"] = "RSNorm"
                out.append(c)
    return out


def _build(case):
    from vf import agentops, zoo

    kw = {}
    if case.get("nondefault"):
        kw.update(zoo.nondefault_kwargs(case["algo"]))
    if "share_encoders" in case:
        kw["share_encoders"] = case["share_encoders"]
    agentops.seed_all(case["seed"])
    if case.get("alt_lr"):
        # (C07) the agent a checkpoint is loaded INTO was built with other learning rates than the saved one
        names = [n for n in ("lr", "lr_actor", "lr_critic") if n in __import__("inspect").signature(zoo.algo_cls(case["algo"]).__init__).parameters]
        kw.update({n: v for n, v in zip(names, (7e-4, 6e-4)) })
        if "lr_critic" in names:
            kw["lr_critic"] = 5e-4
    if case.get("reg") is not None and case["algo"] in ("NeuralUCB", "NeuralTS"):
        kw["reg"] = float(case["reg"])  # a regularisation weight large enough to show in one learn step
    if case.get("alt_receiver") and case["algo"] in ("PPO", "IPPO"):
        # (C07) optional constructor values the saved agent leaves at None
        kw["target_kl"] = 0.01
    if case["algo"] in zoo.MULTI and case["seed"] % 2:
        # agents of one policy / name group interleaved with another group
        kw["agent_ids"] = ["agent_0", "other_0", "agent_1"]
    agent = zoo.make_agent(case["algo"], case["obs"], hp_config=zoo.tiny_hp_config(case["algo"]), **kw)
    if case.get("wrapper") == "RSNorm":
        from agilerl.wrappers.agent import RSNorm

        agent = RSNorm(agent)
    return agent


def run_case(case):
    from vf import agentops, walk, zoo

    rec = Recorder()
    algo = case["algo"]
    try:
        agent = _build(case)
        parent = agentops.apply_history(agent, case["history"], case["seed"], rec)
    except CaseTimeout:
        raise
    except Exception as e:
        # building the history is C02/C20's business; C01 cannot judge this case
        rec.hit("history_failed")
        rec.extra["history_failed"] = f"{type(e).__name__}: {str(e)[:120]}"
        return rec.result()

    # one shared batch / rollout, generated before the clones are taken (PPO/IPPO rollouts call get_action,
    # which may advance batch-norm statistics of the agent that produced them)
    s = case["seed"] % 100003
    rollout = batch = None
    try:
        if algo == "PPO":
            rollout = zoo.ppo_rollout(parent, seed=s)
        elif algo == "IPPO":
            rollout = zoo.ippo_rollout(parent, seed=s)
        else:
            batch = zoo.make_batch(parent, seed=s)
    except CaseTimeout:
        raise
    except Exception as e:
        rec.hit("history_failed")
        rec.extra["history_failed"] = f"rollout: {type(e).__name__}: {str(e)[:120]}"
        return rec.result()

    # ---------------------------------------------------------------- clone
    clones = []
    try:
        for _ in range(case["k"]):
            clones.append(parent.clone())
    except CaseTimeout:
        raise
    except Exception as e:
        rec.crash(e, "clone_raises", "agent.clone()", algo=algo, history=case["history"])
        rec.nontrivial = True
        return rec.result()

    LP = walk.agent_leaves(parent)
    LC = [walk.agent_leaves(c) for c in clones]
    resync_used = []
    shared_encoder_resynced = []
    for ci, (c, L) in enumerate(zip(clones, LC)):
        diffs, used = agentops.compare_copy(LP, L, c, allow_target_resync=True)
        resync_used.append(used)
        rec.hit("copy_faithful_leaves", len(LP.values))
        rec.hit("target_resync_exceptions", used)
        enc_stale = [d for d in diffs if _carrier(case, d["path"]) == "shared_encoder_copy"]
        shared_encoder_resynced.append(bool(enc_stale))
        for d in _first_per_carrier(case, diffs):
            rec.violate(
                "copy_faithful",
                "leaf_differs:" + _category(d["path"]),
                "EvolvableAlgorithm.clone",
                algo=algo,
                carrier=_carrier(case, d["path"]),
                path=d["path"],
                detail={k: v for k, v in d.items() if k != "path"},
                history=case["history"],
                n_diffs=len(diffs),
            )
    # ---------------------------------------------------------------- greedy action
    try:
        obs = zoo.probe_obs(parent, 5, seed=case["seed"] % 9973)
        st = agentops.rng_state()
        ap = zoo.greedy_action(parent, copy.deepcopy(obs))
        for c in clones:
            agentops.set_rng_state(st)
            ac = zoo.greedy_action(c, copy.deepcopy(obs))
            rec.hit("greedy_action_checks")
            if not zoo.actions_equal(ap, ac):
                rec.violate("same_greedy_action", "clone_acts_differently", "EvolvableAlgorithm.clone", algo=algo, history=case["history"])
        agentops.set_rng_state(st)
    except CaseTimeout:
        raise
    except Exception as e:
        rec.crash(e, "greedy_action_raises", "get_action after clone", algo=algo)

    # ---------------------------------------------------------------- aliases
    agents = [parent] + clones
    leaves = [LP] + LC
    names = ["parent"] + [f"clone{i}" for i in range(len(clones))]
    for i in range(len(agents)):
        for j in range(i + 1, len(agents)):
            rec.hit("alias_pairs")
            named, other = agentops.classify_aliases(walk.aliases(leaves[i], leaves[j]))
            rec.hit("alias_other_containers(info)", len(other))
            seen = set()
            for a in named:
                key = (a["category"], a["kind"])
                if key in seen:
                    continue
                seen.add(key)
                rec.violate(
                    "alias",
                    f"{a['kind']}:{a['category']}",
                    "EvolvableAlgorithm.clone",
                    algo=algo,
                    pair=[names[i], names[j]],
                    first=a["first"],
                    second=a["second"],
                    n_aliases=len(named),
                    history=case["history"],
                )

    # ---------------------------------------------------------------- independence + same update
    def fps():
        return [walk.fingerprint_map(walk.agent_leaves(a)) for a in agents]

    def check_others(actor_idx, what, before):
        after = fps()
        for j in range(len(agents)):
            if j == actor_idx or agents[j] is None:
                continue
            rec.hit("independence_probes")
            ch = agentops.changed_paths(before[j], after[j])
            if ch:
                rec.violate(
                    "independence",
                    f"{what}_changes_other_agent:" + _category(ch[0]),
                    what,
                    algo=algo,
                    actor=names[actor_idx],
                    victim=names[j],
                    changed=ch[:6],
                    n_changed=len(ch),
                    history=case["history"],
                )
        return after

    trained = False
    try:
        if shared_encoder_resynced and shared_encoder_resynced[0]:
            # known mechanism (shared-encoder copies are only refreshed by the mutation hook): refresh the
            # parent's copies through the same public hook so that the same-update check still decides
            # everything else for share_encoders=True agents
            zoo.unwrap(parent).mutation_hook()
            rec.hit("parent_shared_encoder_refreshed")
            d0, _ = agentops.compare_copy(walk.agent_leaves(parent), walk.agent_leaves(clones[0]), clones[0], True)
            shared_encoder_resynced[0] = bool(d0)
        before = fps()
        agentops.seed_all(s)
        st = agentops.rng_state()
        pobs = zoo.probe_obs(parent, 3, seed=11)
        zoo.greedy_action(parent, copy.deepcopy(pobs))  # as in a training loop: act, then learn (normalises train/eval mode)
        zoo.learn(parent, batch=batch, rollout=copy.deepcopy(rollout))
        before = check_others(0, "learn", before)
        agentops.set_rng_state(st)
        zoo.greedy_action(clones[0], copy.deepcopy(pobs))
        zoo.learn(clones[0], batch=batch, rollout=copy.deepcopy(rollout))
        before = check_others(1, "learn", before)
        trained = True
        if resync_used[0] == 0:
            rec.hit("same_update_checks")
            d2 = _update_diffs(parent, clones[0], walk)
            for d in d2[:3]:
                rec.violate(
                    "same_update",
                    "leaf_differs_after_identical_learn:" + _category(d["path"]),
                    "learn after clone",
                    algo=algo,
                    after_shared_encoder_resync=shared_encoder_resynced[0],
                    carrier=_carrier(case, d["path"]),
                    path=d["path"],
                    detail={k: v for k, v in d.items() if k != "path"},
                    n_diffs=len(d2),
                    history=case["history"],
                )
        else:
            rec.hit("same_update_skipped_target_resync")
            rec.hit("same_update_checks")  # evaluated and decided not applicable for this clone
    except CaseTimeout:
        raise
    except Exception as e:
        rec.crash(e, "learn_after_clone_raises", "learn after clone", algo=algo, history=case["history"])

    # mutate a sibling through the real Mutations object
    try:
        victim_idx = len(agents) - 1
        for kind in ("param", "rl_hp", "arch"):
            before = fps()
            m = agentops.make_mutations(kind, seed=(case["seed"] + 7) % 100000)
            agents[victim_idx] = m.mutation([agents[victim_idx]])[0]
            check_others(victim_idx, f"mutation:{kind}", before)
    except CaseTimeout:
        raise
    except Exception as e:
        # whether a mutation may raise is C02/C03's business; C01 only loses this probe
        rec.hit("mutation_probe_failed(info)")
        rec.extra["mutation_probe_failed"] = f"{type(e).__name__}: {str(e)[:100]}"

    # discard one
    try:
        if len(agents) > 2:
            before = fps()
            idx = len(agents) - 1
            agents[idx] = None
            before[idx] = {}
            gc.collect()
            after = [walk.fingerprint_map(walk.agent_leaves(a)) if a is not None else {} for a in agents]
            for j, a in enumerate(agents):
                if a is None:
                    continue
                rec.hit("independence_probes")
                ch = agentops.changed_paths(before[j], after[j])
                if ch:
                    rec.violate("independence", "discard_changes_other_agent", "del clone", algo=algo, changed=ch[:6])
    except CaseTimeout:
        raise
    except Exception as e:
        rec.crash(e, "crash", "discard", algo=algo)

    has_hist = any(op in ("learn", "act") or op.startswith("mut:") for op in case["history"])
    rec.nontrivial = has_hist and len(LP.values) >= 50 and trained
    return rec.result()


def _category(path: str) -> str:
    from vf import walk

    root = path.split("/")[0].split("[")[0]
    if "/state[" in path or "/group[" in path or path.endswith(("/cls", "/lr_attr", "/kwargs")):
        return "optimizer"
    if "/init_dict" in path:
        return "architecture"
    c = walk.alias_category(path)
    if c == "network_weights":
        return "weights"
    if c == "other":
        return "attribute:" + root
    return c


def _carrier(case, path: str) -> str:
    """Names the mechanism a differing leaf belongs to (used to key known findings)."""
    import re

    if case.get("share_encoders") and re.match(r"^critic[^/]*/encoder\.", path):
        return "shared_encoder_copy"
    return "network_or_attribute"


def _first_per_carrier(case, diffs):
    seen, out = {}, []
    for d in diffs:
        key = (_carrier(case, d["path"]), _category(d["path"]))
        seen[key] = seen.get(key, 0) + 1
        if seen[key] <= 2:
            out.append(d)
    return out[:8]


def _max_lr(agent) -> float:
    from vf import zoo

    a = zoo.unwrap(agent)
    lrs = [float(getattr(a, o.lr)) for o in a.registry.optimizers]
    return max(lrs) if lrs else 1e-3


def _update_diffs(p, c, walk, steps: int = 1):
    """Leaves that differ after parent and clone learned from the same batch under the same RNG state.
    Identical arithmetic is not bitwise reproducible between two objects (reduction order depends on memory
    layout), and Adam's m/(sqrt(v)+eps) amplifies 1e-7 gradient noise up to one full step for elements with
    tiny gradients.  So: optimizer moments (linear / quadratic in the gradient) must agree to 1e-4 relative,
    step counters exactly, and weights / targets to within 2.1 learning rates.  After `steps` > 1 consecutive learn
    steps the weight noise of one step (up to a learning rate) feeds the next gradients (directly through weight-decay
    / regularisation terms), so the moment tolerance grows with steps**2 and the weight tolerance with steps."""
    import torch

    LP, LC = walk.agent_leaves(p), walk.agent_leaves(c)
    lr = _max_lr(p)
    out = []
    for d in walk.diff(LP, LC):
        path = d["path"]
        a, b = LP.values.get(path), LC.values.get(path)
        if d["what"] == "differs" and isinstance(a, torch.Tensor) and isinstance(b, torch.Tensor) and a.shape == b.shape:
            a64, b64 = a.detach().double(), b.detach().double()
            diff = float((a64 - b64).abs().max()) if a.numel() else 0.0
            scale = float(max(a64.abs().max(), b64.abs().max())) if a.numel() else 0.0
            if path.endswith("/step"):
                tol = 0.0
            elif "/state[" in path:
                # relative to the gradient scale of the whole optimizer (a tensor whose true gradient is
                # zero, e.g. a conv bias in front of a batch norm, holds pure rounding noise)
                kind = path.rsplit("/", 1)[1]
                opt_root = path.split("/state[")[0]
                g = max(
                    (float(v.detach().abs().max()) for k, v in LP.values.items()
                     if k.startswith(opt_root + "/state[") and k.endswith("/" + kind) and isinstance(v, torch.Tensor) and v.numel()),
                    default=0.0,
                )
                tol = 1e-4 * steps * steps * max(scale, g) + 1e-12
            else:
                tol = 2.1 * lr * steps + 1e-6 + 1e-5 * scale
            if diff <= tol:
                continue
            d = dict(d, tol=tol, scale=scale)
        out.append(d)
    return out
