"""C09 - replay buffers hold exactly the most recent transitions, each one intact.

History + executable model: every transition carries one unique id replicated in
every field (and, for multi-agent data, id*100+agent), the model is a
collections.deque(maxlen=N) of ids.  After every operation the real buffer is
decoded and compared with the model; batches handed out earlier are
re-fingerprinted after later operations; storage/batch aliasing is checked by
storage pointers.  Class invariants are attached with icontract when available.
"""

from __future__ import annotations

import collections
import random as pyrandom

import numpy as np

from vf.core import Recorder

PROPERTY = "C09"
LEVEL = "exploration"
RULE = (
    "case = (buffer kind single|multi, capacity 1..17, observation kind, vectorised width, seed); a seeded "
    "sequence of add (width 1..N, incl. ending exactly at N / crossing N / width N), sample(k<=len, with and "
    "without return_idx), clear and caller-array re-use is executed on the real buffer and on a deque(maxlen=N) "
    "of unique ids; non-trivial = the sequence wrapped around (added > N) AND at least one sampled batch was "
    "decoded; distinct = distinct case descriptions"
)
ASSUMPTIONS = [
    "transitions are built the way train_off_policy builds them (Transition tensorclass -> to_tensordict, batch_size=[width])",
    "add widths are <= capacity (the property quantifies over widths up to the capacity)",
    "multi-agent buffer: caller re-use of its numpy arrays after save_to_memory is reported as extra observation only "
    "(the statement does not promise a defensive copy); for the single-agent buffer it is part of the verdict",
    "ids < 2**24 so float32 fields hold them exactly",
]
REQUIRED_COUNTERS = ["content_checks", "sample_checks", "handed_out_rechecks"]
CASE_TIMEOUT_S = 1500

OBS_KINDS = ["vector", "image", "dict", "tuple", "scalar"]
AGENTS = ["agent_0", "agent_1", "other_0"]


def preload():
    import torch  # noqa
    import tensordict  # noqa
    import agilerl.components.replay_buffer  # noqa
    import agilerl.components.multi_agent_replay_buffer  # noqa
    import agilerl.components.data  # noqa
    from vf.core import quiet_torch

    quiet_torch()


def cases(tier, seed):
    rng = np.random.default_rng(1000 + seed)
    out = []
    nrand = 220 if tier == "quick" else 6000
    nops = 40 if tier == "quick" else 80
    # corner capacities first, every observation kind
    for buf in ("single", "multi"):
        for cap in (1, 2, 3, 4, 5, 7, 8, 16, 17):
            for obs in OBS_KINDS:
                if buf == "multi" and obs == "scalar":
                    continue
                out.append({"buf": buf, "cap": cap, "obs": obs, "seed": int(rng.integers(1 << 30)), "nops": nops})
    for _ in range(nrand):
        buf = "single" if rng.random() < 0.6 else "multi"
        obs = OBS_KINDS[int(rng.integers(len(OBS_KINDS)))]
        if buf == "multi" and obs == "scalar":
            obs = "vector"
        out.append(
            {
                "buf": buf,
                "cap": int(rng.integers(1, 18)),
                "obs": obs,
                "seed": int(rng.integers(1 << 30)),
                "nops": int(rng.integers(10, nops + 1)),
            }
        )
    return out


# ------------------------------------------------------------------ single
def _mk_obs(kind, ids, off):
    """numpy observation batch whose every element equals id + off."""
    w = len(ids)
    v = (np.asarray(ids, dtype=np.float32) + off).astype(np.float32)
    if kind == "vector":
        return np.broadcast_to(v[:, None], (w, 3)).copy()
    if kind == "image":
        return np.broadcast_to(v[:, None, None, None], (w, 2, 3, 3)).copy()
    if kind == "scalar":
        return v.copy()
    if kind == "dict":
        return {"a": _mk_obs("vector", ids, off), "b": _mk_obs("image", ids, off)}
    if kind == "tuple":
        return (_mk_obs("vector", ids, off), _mk_obs("image", ids, off))
    raise ValueError(kind)


def _decode_td(td, rec, where):
    """Decode a TensorDict of rows into a list of ids; report rows whose fields disagree."""
    import torch

    n = td.shape[0]
    cols = {}
    for k in td.keys(True, True):
        name = k if isinstance(k, str) else "/".join(k)
        t = td[k]
        if name == "idxs":
            continue
        t = t.reshape(n, -1).to(torch.float64)
        lo, hi = t.min(dim=1).values, t.max(dim=1).values
        if not torch.equal(lo, hi):
            rec.violate("row_integrity", "field_not_uniform", where, field=name, row=int((lo != hi).nonzero()[0]))
        cols[name] = lo.tolist()
    ids = []
    for r in range(n):
        got = {}
        for name, col in cols.items():
            v = col[r]
            if name.startswith("next_obs"):
                got[name] = v - 0.5
            elif name == "done":
                got[name] = None  # checked separately
            else:
                got[name] = v
        base = got["action"]
        bad = {k: v for k, v in got.items() if v is not None and v != base}
        if bad:
            rec.violate("row_integrity", "fields_of_different_transitions", where, row=r, action_id=base, others=bad)
        if cols["done"][r] != float(int(base) % 2):
            rec.violate("row_integrity", "done_of_other_transition", where, row=r, id=base, done=cols["done"][r])
        ids.append(int(base))
    return ids


def _ptr_ranges(td):
    out = []
    for k in td.keys(True, True):
        t = td[k]
        if t.numel() == 0:
            continue
        st = t.untyped_storage()
        out.append((st.data_ptr(), st.data_ptr() + st.nbytes()))
    return out


def _overlap(a, b):
    for lo, hi in a:
        for lo2, hi2 in b:
            if lo < hi2 and lo2 < hi:
                return True
    return False


def _run_single(case, rec: Recorder):
    import torch
    from agilerl.components.data import Transition
    from agilerl.components.replay_buffer import ReplayBuffer

    cls = _with_invariants(ReplayBuffer, rec)
    rng = np.random.default_rng(case["seed"])
    torch.manual_seed(case["seed"])
    N = case["cap"]
    kind = case["obs"]
    buf = cls(max_size=N)
    model = collections.deque(maxlen=N)
    next_id = 1
    added = 0
    handed = []  # (clone, live batch, ids)
    ops = []
    wrapped = False
    sampled = False

    def build(ids):
        tr = Transition(
            obs=_mk_obs(kind, ids, 0.0),
            action=np.asarray(ids, dtype=np.float32)[:, None] * np.ones((1, 2), dtype=np.float32),
            reward=np.asarray(ids, dtype=np.float32),
            next_obs=_mk_obs(kind, ids, 0.5),
            done=np.asarray([i % 2 for i in ids], dtype=np.float32),
        )
        td = tr.to_tensordict()
        td.batch_size = [len(ids)]
        return td

    def check_content(where):
        rec.hit("content_checks")
        if len(buf) != len(model):
            rec.violate("length", "len_differs_from_model", where, got=len(buf), want=len(model), ops=ops[-6:])
        if len(model) == 0:
            return
        st = buf.storage
        if st is None:
            rec.violate("content", "storage_missing", where)
            return
        ids = _decode_td(st[: len(buf)], rec, where)
        if sorted(ids) != sorted(model):
            rec.violate(
                "content", "stored_set_differs_from_last_min_N_added", where, got=sorted(ids), want=sorted(model), ops=ops[-6:]
            )

    def recheck_handed(where):
        for snap, live, ids in handed:
            rec.hit("handed_out_rechecks")
            for k in snap.keys(True, True):
                if not torch.equal(snap[k], live[k]):
                    rec.violate("handed_out_batch", "batch_changed_after_later_operation", where, field=str(k), ids=ids)
                    break

    for step in range(case["nops"]):
        r = rng.random()
        if r < 0.55 or len(model) == 0:
            # choose widths that hit the corners
            room = N - (added % N)
            choices = [1, room, min(N, room + 1), N, int(rng.integers(1, N + 1))]
            w = int(choices[int(rng.integers(len(choices)))])
            w = max(1, min(N, w))
            ids = list(range(next_id, next_id + w))
            next_id += w
            td = build(ids)
            ops.append(["add", w])
            buf.add(td)
            added += w
            model.extend(ids)
            if added > N:
                wrapped = True
            check_content("ReplayBuffer.add")
            if rng.random() < 0.5:
                # caller re-uses its arrays: stored data must not change
                for k in td.keys(True, True):
                    td[k].fill_(-7.0)
                rec.hit("caller_reuse_checks")
                check_content("ReplayBuffer.add/caller_reuse")
        elif r < 0.93:
            k = int(rng.integers(1, len(model) + 1))
            ret_idx = bool(rng.random() < 0.5)
            # three ways the library itself samples a buffer: directly, through Sampler(memory=...) (every training loop)
            # and through Sampler(dataset=ReplayDataset, dataloader=DataLoader) (the accelerated loops)
            route = ("direct", "sampler", "distributed")[int(rng.integers(3))]
            if route == "distributed":
                ret_idx = False
            ops.append(["sample", k, ret_idx, route])
            if route == "direct":
                batch = buf.sample(k, return_idx=ret_idx)
            elif route == "sampler":
                from agilerl.components.sampler import Sampler

                batch = Sampler(memory=buf).sample(k, return_idx=ret_idx)
            else:
                from torch.utils.data import DataLoader

                from agilerl.components.data import ReplayDataset
                from agilerl.components.sampler import Sampler

                ds = ReplayDataset(buf, batch_size=max(1, k // 2))  # the sampler has to set the requested size itself
                batch = Sampler(dataset=ds, dataloader=DataLoader(ds, batch_size=None)).sample(k)
            rec.hit("sample_checks")
            rec.hit("sample_route:" + route)
            sampled = True
            if batch.shape[0] != k:
                rec.violate("sample", "wrong_batch_size", "ReplayBuffer.sample", got=int(batch.shape[0]), want=k)
            ids = _decode_td(batch, rec, "ReplayBuffer.sample")
            if any(i not in model for i in ids):
                rec.violate(
                    "sample", "row_not_a_stored_transition", "ReplayBuffer.sample", ids=ids, stored=sorted(model), ops=ops[-6:]
                )
            if len(set(ids)) != len(ids):
                rec.violate("sample", "duplicate_rows_in_uniform_batch", "ReplayBuffer.sample", ids=ids)
            if ret_idx:
                idxs = batch["idxs"].reshape(-1)
                if int(idxs.max()) >= len(buf) or int(idxs.min()) < 0:
                    rec.violate("sample", "index_out_of_range", "ReplayBuffer.sample", idxs=idxs.tolist(), size=len(buf))
                else:
                    ids2 = _decode_td(buf.storage[idxs], rec, "ReplayBuffer.sample/idx")
                    if ids2 != ids:
                        rec.violate("sample", "idxs_do_not_address_returned_rows", "ReplayBuffer.sample", ids=ids, via_idx=ids2)
            rec.hit("alias_checks")
            if _overlap(_ptr_ranges(batch), _ptr_ranges(buf.storage)):
                rec.violate("alias", "batch_shares_memory_with_storage", "ReplayBuffer.sample")
            handed.append((batch.clone(), batch, ids))
            handed[:] = handed[-6:]
        else:
            ops.append(["clear"])
            buf.clear()
            model.clear()
            added = 0
            rec.hit("clear_checks")
            check_content("ReplayBuffer.clear")
        recheck_handed(ops[-1][0])
    rec.nontrivial = wrapped and sampled
    rec.extra["ops_tail"] = ops[-3:]


# ------------------------------------------------------------------ multi
def _ma_obs(kind, ids, agent_idx):
    code = [i * 100 + agent_idx for i in ids]
    return _mk_obs(kind, code, 0.0), _mk_obs(kind, code, 0.5)


def _first(x):
    import torch

    if isinstance(x, dict):
        return {k: _first(v) for k, v in x.items()}
    if isinstance(x, tuple):
        return tuple(_first(v) for v in x)
    return x


def _row_vals(x, n):
    """Per-row (min,max) over all leaves of a (possibly nested) batch."""
    import torch

    leaves = []

    def walk(v):
        if isinstance(v, dict):
            for vv in v.values():
                walk(vv)
        elif isinstance(v, (tuple, list)):
            for vv in v:
                walk(vv)
        else:
            t = torch.as_tensor(np.asarray(v) if not isinstance(v, torch.Tensor) else v).to(torch.float64)
            leaves.append(t.reshape(n, -1))

    walk(x)
    cat = torch.cat(leaves, dim=1)
    return cat.min(dim=1).values.tolist(), cat.max(dim=1).values.tolist()


def _fingerprint_nested(x):
    import hashlib

    import torch

    h = hashlib.sha256()

    def walk(v):
        if isinstance(v, dict):
            for k in sorted(v):
                h.update(str(k).encode())
                walk(v[k])
        elif isinstance(v, (tuple, list)):
            for vv in v:
                walk(vv)
        elif isinstance(v, torch.Tensor):
            h.update(v.detach().cpu().numpy().tobytes())
        else:
            h.update(np.asarray(v).tobytes())

    walk(x)
    return h.hexdigest()


def _run_multi(case, rec: Recorder):
    import torch
    from agilerl.components.multi_agent_replay_buffer import MultiAgentReplayBuffer

    cls = _with_invariants_ma(MultiAgentReplayBuffer, rec)
    rng = np.random.default_rng(case["seed"])
    pyrandom.seed(case["seed"])
    N = case["cap"]
    kind = case["obs"]
    fields = ["state", "action", "reward", "next_state", "done"]
    buf = cls(memory_size=N, field_names=fields, agent_ids=list(AGENTS))
    model = collections.deque(maxlen=N)
    next_id = 1
    added = 0
    wrapped = sampled = False
    handed = []
    ops = []
    reuse_changed = 0

    key_rng = np.random.default_rng(case["seed"] + 17)
    shuffle_keys = bool(case["seed"] % 2)
    reuse_containers = bool((case["seed"] // 2) % 2)
    persist = [dict() for _ in range(5)]

    def build(ids, vect):
        state, action, reward, nstate, done = {}, {}, {}, {}, {}
        for ai, ag in enumerate(AGENTS):
            o, no = _ma_obs(kind, ids, ai)
            code = np.asarray([i * 100 + ai for i in ids], dtype=np.float32)
            a = code[:, None] * np.ones((1, 2), dtype=np.float32)
            # rewards: integral for even ids, with a quarter on top for odd ids; un-vectorised callers hand them over as
            # Python ints resp. floats, as environments do (0 / 1 on plain steps, 0.5 on bonus steps)
            r = code + np.asarray([0.25 * (i % 2) for i in ids], dtype=np.float32)
            d = np.asarray([i % 2 for i in ids], dtype=np.float32)
            if not vect:
                o, no = _unbatch(o), _unbatch(no)
                a, r, d = a[0], (float(r[0]) if ids[0] % 2 else int(r[0])), bool(d[0])
            state[ag], action[ag], reward[ag], nstate[ag], done[ag] = o, a, r, no, d
        fields = [state, action, reward, nstate, done]
        if shuffle_keys:
            # dicts are keyed by agent id: the key order of any field dict must not matter
            out = []
            for f in fields:
                order = list(f.keys())
                key_rng.shuffle(order)
                out.append({k: f[k] for k in order})
            rec.hit("ma_adds_with_shuffled_key_order")
            return tuple(out)
        return tuple(fields)

    def decode(sample, n, where):
        st, ac, rw, ns, dn = sample
        ids = [None] * n
        for ai, ag in enumerate(AGENTS):
            per_field = {}
            for name, val, off in (("state", st[ag], 0.0), ("action", ac[ag], 0.0), ("reward", rw[ag], 0.0), ("next_state", ns[ag], 0.5)):
                lo, hi = _row_vals(val, n)
                for r in range(n):
                    if lo[r] != hi[r]:
                        rec.violate("row_integrity", "field_not_uniform", where, field=name, agent=ag, row=r)
                per_field[name] = [v - off for v in lo]
            dlo, _ = _row_vals(dn[ag], n)
            # the quarter an odd transition's reward carries (see build): taken off with the id read from the action
            per_field["reward"] = [v - 0.25 * (divmod(int(b), 100)[0] % 2) for v, b in zip(per_field["reward"], per_field["action"])]
            for r in range(n):
                codes = {f: per_field[f][r] for f in per_field}
                base = codes["action"]
                if any(v != base for v in codes.values()):
                    rec.violate("row_integrity", "fields_of_different_transitions", where, agent=ag, row=r, codes=codes)
                tid, agent_code = divmod(int(base), 100)
                if agent_code != ai:
                    rec.violate("row_integrity", "agents_mixed", where, agent=ag, row=r, code=int(base))
                if dlo[r] != float(tid % 2):
                    rec.violate("row_integrity", "done_of_other_transition", where, agent=ag, row=r, id=tid, done=dlo[r])
                if ids[r] is None:
                    ids[r] = tid
                elif ids[r] != tid:
                    rec.violate("row_integrity", "agents_of_different_transitions", where, row=r, ids=[ids[r], tid])
        return ids

    def check_content(where):
        rec.hit("content_checks")
        if len(buf) != len(model):
            rec.violate("length", "len_differs_from_model", where, got=len(buf), want=len(model), ops=ops[-6:])
        if len(model) == 0 or len(buf) == 0:
            return
        # read every stored transition through the public path
        exps = list(buf.memory)
        tr = buf._process_transition(exps)
        ids = decode(tuple(tr.values()), len(exps), where)
        if ids != list(model):
            rec.violate("content", "stored_sequence_differs_from_last_min_N_added", where, got=ids, want=list(model), ops=ops[-6:])

    for step in range(case["nops"]):
        r = rng.random()
        if r < 0.55 or len(model) == 0:
            vect = bool(rng.random() < 0.6)
            w = 1
            if vect:
                room = N - (added % N)
                choices = [1, room, min(N, room + 1), N, int(rng.integers(1, N + 1))]
                w = max(1, min(N, int(choices[int(rng.integers(len(choices)))])))
            ids = list(range(next_id, next_id + w))
            next_id += w
            args = build(ids, vect)
            if reuse_containers and vect:
                # a caller that keeps ONE dict per field and refills it every step (same objects, new arrays); only for
                # vectorised adds: an un-vectorised add stores the caller's dicts themselves (information, see below)
                for k, f in enumerate(args):
                    persist[k].clear()
                    persist[k].update(f)
                args = list(persist)
                rec.hit("ma_adds_with_reused_field_dicts")
            ops.append(["add", w, "vect" if vect else "single"])
            buf.save_to_memory(*args, is_vectorised=vect)
            added += w
            model.extend(ids)
            wrapped = wrapped or added > N
            check_content("MultiAgentReplayBuffer.save_to_memory")
            if rng.random() < 0.3:
                # informational only: caller re-uses its arrays
                before = _fingerprint_nested(buf._process_transition(list(buf.memory), np_array=True))
                _scribble(args)
                after = _fingerprint_nested(buf._process_transition(list(buf.memory), np_array=True))
                rec.hit("ma_caller_reuse_probes")
                if before != after:
                    reuse_changed += 1
                    # restore the values so that the model stays comparable
                    _restore(args, build(ids, vect))
        elif r < 0.93:
            k = int(rng.integers(1, len(model) + 1))
            route = ("direct", "sampler")[int(rng.integers(2))]
            ops.append(["sample", k, route])
            if route == "direct":
                batch = buf.sample(k)
            else:
                from agilerl.components.sampler import Sampler

                batch = Sampler(memory=buf).sample(k)
            rec.hit("sample_checks")
            rec.hit("sample_route:" + route)
            sampled = True
            ids = decode(batch, k, "MultiAgentReplayBuffer.sample")
            if any(i not in model for i in ids):
                rec.violate("sample", "row_not_a_stored_transition", "MultiAgentReplayBuffer.sample", ids=ids, stored=list(model))
            if len(set(ids)) != len(ids):
                rec.violate("sample", "duplicate_rows_in_uniform_batch", "MultiAgentReplayBuffer.sample", ids=ids)
            handed.append((_fingerprint_nested(batch), batch, ids))
            handed[:] = handed[-6:]
        else:
            # the multi-agent buffer has no clear(); emptying is by a fresh deque (as its users do)
            continue
        for fp, live, ids in handed:
            rec.hit("handed_out_rechecks")
            if _fingerprint_nested(live) != fp:
                rec.violate("handed_out_batch", "batch_changed_after_later_operation", ops[-1][0], ids=ids)
    rec.nontrivial = wrapped and sampled
    if reuse_changed:
        rec.hit("ma_caller_reuse_changed_storage(info)", reuse_changed)


def _unbatch(o):
    if isinstance(o, dict):
        return {k: v[0] for k, v in o.items()}
    if isinstance(o, tuple):
        return tuple(v[0] for v in o)
    return o[0]


def _scribble(args):
    def walk(v):
        if isinstance(v, dict):
            for vv in v.values():
                walk(vv)
        elif isinstance(v, tuple):
            for vv in v:
                walk(vv)
        elif isinstance(v, np.ndarray):
            v[...] = -7

    for a in args:
        walk(a)


def _restore(args, fresh):
    def walk(v, f):
        if isinstance(v, dict):
            for k in v:
                walk(v[k], f[k])
        elif isinstance(v, tuple):
            for vv, ff in zip(v, f):
                walk(vv, ff)
        elif isinstance(v, np.ndarray):
            v[...] = f

    for a, f in zip(args, fresh):
        walk(a, f)


# ------------------------------------------------------------------ invariants
class InvariantBroken(Exception):
    pass


_INV_STATE = {"rec": None}


def _size_in_range(self):
    rec = _INV_STATE["rec"]
    if rec is not None:
        rec.hit("icontract_invariant_evals")
        ok = 0 <= self._size <= self.max_size and 0 <= self._cursor < max(1, self.max_size)
        if not ok:
            rec.violate("class_invariant", "size_or_cursor_out_of_range", "ReplayBuffer", size=self._size, cursor=self._cursor)
        if self._storage is not None and self._storage.shape[0] != self.max_size:
            rec.violate("class_invariant", "storage_rows_differ_from_capacity", "ReplayBuffer", rows=int(self._storage.shape[0]))
    return True


def _ma_len_in_range(self):
    rec = _INV_STATE["rec"]
    if rec is not None:
        rec.hit("icontract_invariant_evals")
        if not (0 <= len(self.memory) <= self.memory_size):
            rec.violate("class_invariant", "len_out_of_range", "MultiAgentReplayBuffer", n=len(self.memory))
    return True


_CACHE = {}


def _with_invariants(cls, rec):
    _INV_STATE["rec"] = rec
    if "single" not in _CACHE:
        try:
            import icontract

            sub = type("MonitoredReplayBuffer", (cls,), {})
            _CACHE["single"] = icontract.invariant(_size_in_range, error=InvariantBroken)(sub)
        except Exception:
            _CACHE["single"] = cls
            rec.hit("icontract_unavailable")
    return _CACHE["single"]


def _with_invariants_ma(cls, rec):
    _INV_STATE["rec"] = rec
    if "multi" not in _CACHE:
        try:
            import icontract

            sub = type("MonitoredMultiAgentReplayBuffer", (cls,), {})
            _CACHE["multi"] = icontract.invariant(_ma_len_in_range, error=InvariantBroken)(sub)
        except Exception:
            _CACHE["multi"] = cls
            rec.hit("icontract_unavailable")
    return _CACHE["multi"]


def run_case(case):
    rec = Recorder()
    try:
        if case["buf"] == "single":
            _run_single(case, rec)
        else:
            _run_multi(case, rec)
    except Exception as e:  # the buffer itself raised on a legal operation
        from vf.core import CaseTimeout

        if isinstance(e, CaseTimeout):
            raise
        rec.crash(e, "crash", "buffer operation")
        rec.nontrivial = True
    return rec.result()
