"""C07 - a saved checkpoint restores an equivalent agent.

save_checkpoint -> Algo.load(path) / fresh.load_checkpoint(path) on agents with a seeded history (mutated
architectures, lagging targets, non-zero optimizer moments).  Monitors:
  restored_equal     strict structural equality walker (no target exception: the statement includes targets)
  same_greedy_action probe observations
  same_continuation  original and restored learn k further steps from the same batches under the same RNG state
  wrapper_state      AgentWrapper attributes (RSNorm statistics) survive
"""

from __future__ import annotations

import copy
import os
import shutil
import tempfile

import numpy as np

from vf.core import CaseTimeout, Recorder

PROPERTY = "C07"
LEVEL = "exploration"
RULE = (
    "case = (algorithm, observation family, shared/unshared encoders, optional RSNorm wrapper, seeded history, save "
    "point = a prefix of the history ('crash point'), load path in {classmethod load, load_checkpoint into a fresh "
    "agent}, k=1..3 further learn steps). Non-trivial = history prefix before the save contains a learn step or a "
    "mutation AND >= 50 leaves compared AND the continuation ran; distinct = distinct case descriptions"
    " Added: load_checkpoint into existing agents with their own history (rl_hp / architecture / activation / parameter mutations, learn steps, other optional constructor values), a second agent restored from the same file whose fingerprint must not move while the first learns / acts / appends bookkeeping, bandits with reg=0.5, population checkpoints with ONE shared HyperparameterConfig and members mutated a different number of times"
)
ASSUMPTIONS = [
    "CPU only; files are written to a per-case temporary directory and removed",
    "continuation tolerance as in C01 (optimizer moments rel 1e-4, weights 2.1 learning rates): two separate objects do "
    "not reproduce float reductions bitwise",
    "load_checkpoint path: the receiving agent is built with the same constructor arguments as the original",
    "extra bookkeeping attributes that load_checkpoint() sets from the file (agilerl_version, wrapper_*) and the "
    "OptimizerWrapper.lr constructor echo are not compared (the effective lr in param_groups is)",
    "leaves of known mechanisms (DQN detached target, shared-encoder copies) are recorded as witnesses and then "
    "overwritten with the original's values so the continuation check still decides everything else",
]
REQUIRED_COUNTERS = ["restored_leaves_compared", "continuation_checks", "greedy_action_checks"]
CASE_TIMEOUT_S = 1500

OBS_FOR = {"NeuralUCB": ["vector", "image", "dict"], "NeuralTS": ["vector", "image", "dict"]}


def preload():
    import agilerl.algorithms  # noqa
    import agilerl.hpo.mutation  # noqa
    import agilerl.hpo.tournament  # noqa
    import agilerl.wrappers.agent  # noqa
    from vf.core import quiet_torch

    quiet_torch()


def cases(tier, seed):
    from vf import agentops, zoo

    rng = np.random.default_rng(7100 + seed)
    out = []
    n_hist = 2 if tier == "quick" else 24
    max_len = 5 if tier == "quick" else 10
    for algo in zoo.ALL:
        kinds = OBS_FOR.get(algo, zoo.OBS_KINDS)
        if tier == "quick":
            i = zoo.ALL.index(algo)
            kinds = list(dict.fromkeys([kinds[0], kinds[1 + i % (len(kinds) - 1)]]))
        for ok in kinds:
            for h in range(n_hist):
                hist = agentops.random_history(rng, max_len, algo)
                if h == 0:
                    hist = ["act", "learn", "learn", "learn", "act"]
                elif not hist:
                    hist = ["mut:arch", "learn"]
                for path in ("load", "load_checkpoint"):
                    c = {
                        "algo": algo,
                        "obs": ok,
                        "history": hist,
                        "save_at": len(hist) if (h == 0 or rng.random() < 0.6) else int(rng.integers(0, len(hist) + 1)),
                        "path": path,
                        "k": int(rng.integers(1, 4)),
                        "seed": int(rng.integers(1 << 30)),
                        # the training loops save right after test(), i.e. in inference mode
                        "eval_mode_at_save": bool(rng.random() < 0.4),
                        "nondefault": bool((h + zoo.ALL.index(algo)) % 3 == 1),
                        # load_checkpoint: the EXISTING agent the file is loaded into has a life of its own (other optional
                        # constructor values, own mutations / learn steps) - as a population member has
                        "receiver": [None, ["mut:rl_hp"], ["learn", "mut:arch"], ["mut:act", "learn"], ["mut:param"]][int(rng.integers(5))]
                        if path == "load_checkpoint" else None,
                    }
                    if algo in zoo.HAS_SHARE_ENCODERS:
                        c["share_encoders"] = bool(h % 2 == 0)
                    if algo in ("DQN", "DDPG", "TD3") and ok == "vector" and h % 2 == 1:
                        c["wrapper"] = "RSNorm"
                        # the wrapper's running statistics only differ from a fresh wrapper's after acting in training mode
                        c["history"] = ["act"] + list(hist)
                        c["save_at"] = len(c["history"])
                    out.append(c)
    # directed: bandits with a strong regulariser towards their initial output layer (the anchor is part of what is restored)
    for algo in ("NeuralUCB", "NeuralTS"):
        for path in ("load", "load_checkpoint"):
            out.append({"algo": algo, "obs": "vector", "history": ["learn", "learn", "act", "learn"], "save_at": 4, "path": path, "k": 2,
                        "seed": int(rng.integers(1 << 30)), "eval_mode_at_save": False, "nondefault": False, "reg": 0.5, "receiver": None})
    # population-level checkpoints through the helper of the training loops (algorithms without the known carriers)
    for algo in ("CQN", "RainbowDQN", "TD3", "NeuralUCB", "MATD3"):
        for overwrite in (False, True):
            for steps_move in ((True, False) if tier == "quick" else (True, False, True, False)):
                out.append({"kind": "population", "algo": algo, "obs": "vector", "overwrite": overwrite, "steps_move": steps_move,
                            "seed": int(rng.integers(1 << 30))})
    return out


# the effective learning rate is the one in param_groups (compared); OptimizerWrapper.lr is a constructor echo
IGNORE = ("/lr_attr",)
CHECKPOINT_METADATA = ("agilerl_version", "wrapper_cls", "wrapper_attrs", "wrapper_init_dict", "network_info")


def _is_checkpoint_metadata(d) -> bool:
    """load_checkpoint() sets every checkpoint key as an attribute: extra bookkeeping attributes of the restored
    agent are not a difference the statement cares about."""
    root = d["path"].split("/")[0].split("[")[0].split(".")[0]
    return root in CHECKPOINT_METADATA


def _carrier(case, path: str) -> str:
    import re

    if case.get("share_encoders") and re.match(r"^critic[^/]*/encoder\.", path):
        return "shared_encoder_copy"
    root = path.split("/")[0].split("[")[0]
    if root in ("target_params", "param_vals") or (root.endswith("_target") or root.endswith("_targets")) and "/" in path:
        return "target_network"  # leaves of a target NETWORK (actor_target/..., critic_targets[..]/...), not attributes like target_kl
    return "network_or_attribute"


def _run_population(case, rec):
    """save_population_checkpoint (the helper every training loop uses): after each call, the file documented for member i
    (`<path>_<i>.pt` with overwrite, `<path>_<i>_<steps>.pt` without) holds member i AS IT IS NOW."""
    import contextlib
    import io

    from agilerl.utils.utils import save_population_checkpoint

    from vf import agentops, walk, zoo

    algo = case["algo"]
    kw = {"share_encoders": False} if algo in zoo.HAS_SHARE_ENCODERS else {}
    agentops.seed_all(case["seed"])
    # ONE HyperparameterConfig object for the whole population (what Algo.population / create_population hand out); the
    # members then receive different numbers of RL-hyperparameter mutations, so their values drift apart
    shared_cfg = zoo.tiny_hp_config(algo)
    pop = [zoo.make_agent(algo, case["obs"], index=i, hp_config=shared_cfg, **kw) for i in range(3)]
    m_hp = agentops.make_mutations("rl_hp", seed=case["seed"] % 99991)
    tmpdir = tempfile.mkdtemp(prefix="vf_c07p_")
    base = os.path.join(tmpdir, "pop")
    try:
        for rnd in range(3):
            for j, ag in enumerate(pop):
                agentops.seed_all(case["seed"] + 10 * rnd + j)
                zoo.learn(ag, batch_seed=case["seed"] % 997 + 10 * rnd + j)
                for _rep in range(j + rnd):
                    pop[j] = ag = m_hp.mutation([ag])[0]
                    rec.hit("population_member_hp_mutations")
                if case["steps_move"] or rnd == 0:
                    ag.steps[-1] += 5  # steps_move=False: a second save at an unchanged step count
            with contextlib.redirect_stdout(io.StringIO()):
                save_population_checkpoint(pop, base, overwrite_checkpoints=bool(case["overwrite"]))
            rec.hit("population_saves")
            for i, ag in enumerate(pop):
                path = f"{base}_{i}.pt" if case["overwrite"] else f"{base}_{i}_{ag.steps[-1]}.pt"
                rec.hit("population_file_checks")
                if not os.path.exists(path):
                    rec.violate("population_checkpoint", "documented_file_missing", "save_population_checkpoint", algo=algo, member=i,
                                overwrite=case["overwrite"], round=rnd)
                    continue
                restored = type(ag).load(path)
                diffs = [d for d in walk.diff(walk.agent_leaves(ag), walk.agent_leaves(restored), ignore=IGNORE) if not _is_checkpoint_metadata(d)]
                if diffs:
                    rec.violate("population_checkpoint", "file_does_not_hold_the_member_as_saved_now", "save_population_checkpoint", algo=algo,
                                member=i, overwrite=case["overwrite"], round=rnd, steps_moved=case["steps_move"], path=diffs[0]["path"],
                                n_diffs=len(diffs))
        rec.nontrivial = True
    finally:
        shutil.rmtree(tmpdir, ignore_errors=True)


def run_case(case):
    from vf import agentops, walk, zoo
    from vf.props import c01

    rec = Recorder()
    if case.get("kind") == "population":
        try:
            _run_population(case, rec)
        except CaseTimeout:
            raise
        except Exception as e:
            rec.crash(e, "population_checkpoint", "save_population_checkpoint workload", algo=case["algo"])
            rec.nontrivial = True
        return rec.result()
    algo = case["algo"]
    tmpdir = None
    try:
        try:
            agent = c01._build(case)
            orig = agentops.apply_history(agent, case["history"][: case["save_at"]], case["seed"], rec)
            # non-default training bookkeeping, so that a checkpoint that drops it is visible
            u = zoo.unwrap(orig)
            u.scores = list(u.scores) + [1.5, -2.25]
            u.fitness = list(u.fitness) + [0.75]
            u.steps = list(u.steps[:-1]) + [u.steps[-1] + 37, 41]
            s = case["seed"] % 100003
            rollouts, batches = [], []
            for j in range(case["k"]):
                if algo == "PPO":
                    rollouts.append(zoo.ppo_rollout(orig, seed=s + j))
                elif algo == "IPPO":
                    rollouts.append(zoo.ippo_rollout(orig, seed=s + j))
                else:
                    batches.append(zoo.make_batch(orig, seed=s + j))
        except CaseTimeout:
            raise
        except Exception as e:
            rec.hit("history_failed")
            rec.extra["history_failed"] = f"{type(e).__name__}: {str(e)[:120]}"
            return rec.result()

        if case.get("eval_mode_at_save"):
            orig.set_training_mode(False)
            rec.hit("saved_in_inference_mode")
        tmpdir = tempfile.mkdtemp(prefix="vf_c07_")
        path = os.path.join(tmpdir, "agent.pt")
        # ------------------------------------------------------------ save
        try:
            before = walk.fingerprint_map(walk.agent_leaves(orig))
            orig.save_checkpoint(path)
            after = walk.fingerprint_map(walk.agent_leaves(orig))
            rec.hit("save_leaves_original_untouched_checks")
            ch = agentops.changed_paths(before, after)
            if ch:
                rec.violate("save_side_effect", "save_checkpoint_changes_the_agent", "save_checkpoint", algo=algo, changed=ch[:5])
        except CaseTimeout:
            raise
        except Exception as e:
            rec.crash(e, "save_raises", "save_checkpoint", algo=algo, history=case["history"], wrapper=case.get("wrapper"))
            rec.nontrivial = True
            return rec.result()
        # ------------------------------------------------------------ load
        try:
            if case["path"] == "load":
                cls = type(zoo.unwrap(orig))
                restored = cls.load(path)
            else:
                restored = c01._build(dict(case, history=[], alt_lr=bool(case["seed"] % 2), alt_receiver=bool(case.get("receiver"))))
                if case.get("receiver"):
                    try:
                        restored = agentops.apply_history(restored, case["receiver"], case["seed"] + 5)
                        rec.hit("loads_into_an_agent_with_its_own_history")
                    except CaseTimeout:
                        raise
                    except Exception as e:
                        rec.hit("receiver_history_failed(info)")
                        rec.extra["receiver_history_failed"] = f"{type(e).__name__}: {str(e)[:100]}"
                        restored = c01._build(dict(case, history=[], alt_lr=bool(case["seed"] % 2)))
                restored.load_checkpoint(path)
            # a second agent restored from the very same file (nothing else read in between): two population members
            # warm-started from one checkpoint
            second = None
            try:
                if case["path"] == "load":
                    second = type(zoo.unwrap(orig)).load(path)
                else:
                    second = c01._build(dict(case, history=[]))
                    second.load_checkpoint(path)
            except CaseTimeout:
                raise
            except Exception as e:
                rec.crash(e, "load_raises", case["path"] + "(second load of the same file)", algo=algo)
        except CaseTimeout:
            raise
        except Exception as e:
            rec.crash(e, "load_raises", case["path"], algo=algo, history=case["history"][: case["save_at"]], wrapper=case.get("wrapper"))
            rec.nontrivial = True
            return rec.result()

        if case.get("wrapper") and not (hasattr(restored, "agent") and type(restored).__name__ == case["wrapper"]):
            rec.violate("wrapper_state", "wrapper_lost_on_load", case["path"], algo=algo, got=type(restored).__name__)

        LO, LR = walk.agent_leaves(orig), walk.agent_leaves(restored)
        rec.hit("restored_leaves_compared", len(LO.values))
        diffs = [d for d in walk.diff(LO, LR, ignore=IGNORE) if not _is_checkpoint_metadata(d)]
        seen = {}
        for d in diffs:
            car = _carrier(case, d["path"])
            cat = c01._category(d["path"])
            key = (car, cat, d["what"])
            seen[key] = seen.get(key, 0) + 1
            if seen[key] > 2:
                continue
            rec.violate(
                "restored_equal",
                f"leaf_{d['what']}:{cat}",
                case["path"],
                algo=algo,
                carrier=car,
                path=d["path"],
                detail={k: v for k, v in d.items() if k != "path"},
                n_diffs=len(diffs),
                history=case["history"][: case["save_at"]],
                wrapper=case.get("wrapper"),
            )
        structurally_equal = not diffs
        # Known mechanisms (DQN's detached target and the shared-encoder copies are not part of any state dict)
        # would make every continuation differ: after recording them above, give the restored agent the
        # original's values for exactly those leaves, so that the continuation check still decides the rest.
        import torch

        normalised = 0
        for d in diffs:
            car = _carrier(case, d["path"])
            if d["what"] == "differs" and car in ("shared_encoder_copy", "target_network"):
                a, b = LO.values[d["path"]], LR.values[d["path"]]
                if isinstance(a, torch.Tensor) and isinstance(b, torch.Tensor) and a.shape == b.shape:
                    with torch.no_grad():
                        b.data.copy_(a.data)
                    normalised += 1
        rec.hit("known_carrier_leaves_normalised", normalised)
        remaining = [d for d in walk.diff(walk.agent_leaves(orig), walk.agent_leaves(restored), ignore=IGNORE) if not _is_checkpoint_metadata(d)]
        upstream = "+".join(sorted({_carrier(case, d["path"]) for d in remaining})) or "none"

        # ------------------------------------------------------------ behaviour
        try:
            obs = zoo.probe_obs(orig, 5, seed=case["seed"] % 9973)
            st = agentops.rng_state()
            ao = zoo.greedy_action(orig, copy.deepcopy(obs))
            agentops.set_rng_state(st)
            ar = zoo.greedy_action(restored, copy.deepcopy(obs))
            agentops.set_rng_state(st)
            rec.hit("greedy_action_checks")
            if not zoo.actions_equal(ao, ar):
                rec.violate(
                    "same_greedy_action",
                    "restored_agent_acts_differently",
                    case["path"],
                    algo=algo,
                    structurally_equal=structurally_equal,
                    upstream_restore_diffs=upstream,
                    history=case["history"][: case["save_at"]],
                )
        except CaseTimeout:
            raise
        except Exception as e:
            rec.crash(e, "get_action_after_load_raises", case["path"], algo=algo)

        second_before = None
        if second is not None:
            L2 = walk.agent_leaves(second)
            rec.hit("second_restore_checks")
            second_before = walk.fingerprint_map(L2)
        ran = False
        try:
            for j in range(case["k"]):
                agentops.seed_all(case["seed"] + j)
                st = agentops.rng_state()
                b = batches[j] if batches else None
                r = copy.deepcopy(rollouts[j]) if rollouts else None
                zoo.learn(orig, batch=b, rollout=r)
                agentops.set_rng_state(st)
                r = copy.deepcopy(rollouts[j]) if rollouts else None
                zoo.learn(restored, batch=b, rollout=r)
            ran = True
            rec.hit("continuation_checks")
            d2 = [d for d in c01._update_diffs(orig, restored, walk, steps=int(case["k"])) if not _is_checkpoint_metadata(d) and not any(i in d["path"] for i in IGNORE)]
            # scale the weight tolerance with the number of steps: handled inside by 2.1 lr per comparison; k steps
            # can accumulate k times that for tiny-gradient elements
            d2 = [d for d in d2 if not _within_k(d, case["k"])]
            seen = {}
            for d in d2:
                car = _carrier(case, d["path"])
                cat = c01._category(d["path"])
                seen[(car, cat)] = seen.get((car, cat), 0) + 1
                if seen[(car, cat)] > 1:
                    continue
                rec.violate(
                    "same_continuation",
                    "leaf_differs_after_identical_learn_steps:" + cat,
                    case["path"],
                    algo=algo,
                    carrier=car,
                    restored_was_structurally_equal=structurally_equal,
                    upstream_restore_diffs=upstream,
                    path=d["path"],
                    detail={k: v for k, v in d.items() if k != "path"},
                    n_diffs=len(d2),
                    k=case["k"],
                    history=case["history"][: case["save_at"]],
                )
            if ran and second_before is not None:
                # in-place bookkeeping of the first restored agent, then: the second one must not have moved at all
                ur = zoo.unwrap(restored)
                ur.scores.append(3.25)
                ur.fitness.append(-1.5)
                ur.steps[-1] += 11
                try:
                    zoo.train_action(restored, zoo.probe_obs(restored, 3, seed=case["seed"] % 9941))
                except CaseTimeout:
                    raise
                except Exception:
                    pass
                rec.hit("second_restore_independence_checks")
                ch = agentops.changed_paths(second_before, walk.fingerprint_map(walk.agent_leaves(second)))
                if ch:
                    rec.violate("second_restore", "agent_restored_from_the_same_file_changed_when_the_other_one_trained", case["path"],
                                algo=algo, changed=ch[:5], n_changed=len(ch), categories=sorted({c01._category(c) for c in ch})[:6])
        except CaseTimeout:
            raise
        except Exception as e:
            rec.crash(e, "learn_after_load_raises", case["path"], algo=algo, history=case["history"][: case["save_at"]])

        has_hist = any(op == "learn" or op.startswith("mut:") for op in case["history"][: case["save_at"]])
        rec.nontrivial = has_hist and len(LO.values) >= 50 and ran
        return rec.result()
    finally:
        if tmpdir:
            shutil.rmtree(tmpdir, ignore_errors=True)


def _within_k(d, k):
    if k <= 1 or "tol" not in d or "max_abs_diff" not in d:
        return False
    if "/state[" in d["path"] or d["path"].endswith("/step"):
        return False
    return d["max_abs_diff"] <= k * d["tol"]
